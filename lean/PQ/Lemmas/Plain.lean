import PQ.Model.Spec
import PQ.Lemmas.BitpackNat
import PQ.Lemmas.RleDec
/-!
# PLAIN value sections: the writer's `plainValues` is inverted by the specification parser
(`specValues`) and by the reader (`readValues`, `getBools`)

Definitions introduced here: `WTVal` (a well-typed PLAIN value) and `WFPage` (a well-formed page:
levels within the column's maxima, a value exactly at the maximum definition level, values
well-typed, level widths within the range the RLE theorems cover).
-/
namespace PQ

/-- a well-typed PLAIN value: numerics have exactly the type's width, booleans are `[0]` or `[1]`,
strings are shorter than 2^31 (the reader's `int32` length), every element is a byte -/
def WTVal (ty : PType) (v : Bytes) : Prop :=
  (∀ b ∈ v, b < 256) ∧
  (match ty with
   | .bool => v = [0] ∨ v = [1]
   | .str => v.length < 2 ^ 31
   | _ => v.length = ty.width)

instance (ty : PType) (v : Bytes) : Decidable (WTVal ty v) := by
  unfold WTVal; cases ty <;> exact inferInstance

/-- the types whose PLAIN form is the value's bytes (`binary.Write`) -/
def PType.isFixed (ty : PType) : Prop := ty ≠ .bool ∧ ty ≠ .str

theorem WTVal.fixed {ty : PType} {v : Bytes} (h : WTVal ty v) (hf : ty.isFixed) : v.length = ty.width := by
  obtain ⟨_, h⟩ := h
  cases ty <;> first | exact h | exact absurd rfl hf.1 | exact absurd rfl hf.2

theorem WTVal.bool {v : Bytes} (h : WTVal .bool v) : v = [0] ∨ v = [1] := h.2
theorem WTVal.str {v : Bytes} (h : WTVal .str v) : v.length < 2 ^ 31 := h.2

theorem plainValues_fixed {ty : PType} (hf : ty.isFixed) (vals : List Bytes) :
    plainValues ty vals = vals.flatten := by
  cases ty <;> first | rfl | exact absurd rfl hf.1 | exact absurd rfl hf.2

/-- a well-formed page of column `c` -/
structure WFPage (c : Col) (es : PageEntries) : Prop where
  /-- levels within the column's maxima, a value exactly at the maximum definition level; a
  `RequiredField` has no levels and always a value -/
  entries : ∀ e ∈ es, if c.isRequired then e.rep = 0 ∧ e.dl = 0 ∧ e.val.isSome
    else e.dl ≤ c.maxDef ∧ e.rep ≤ c.maxRep ∧ (e.val.isSome ↔ e.dl = c.maxDef)
  vals : ∀ v ∈ nonNull es, WTVal c.ty v
  len : es.length + 8 ≤ 2 ^ 30
  /-- level widths 1..4 -/
  maxDef : c.maxDef ≤ 15

/-! ## fixed-width values -/

theorem flatten_length_fixed (w : Nat) (vals : List Bytes) (h : ∀ v ∈ vals, v.length = w) :
    vals.flatten.length = vals.length * w := by
  induction vals with
  | nil => simp
  | cons v vs ih =>
    have h1 := h v (by simp)
    have h2 := ih (fun x hx => h x (by simp [hx]))
    simp only [List.flatten_cons, List.length_append, List.length_cons, h1, h2, Nat.add_mul]
    omega

theorem readFixed_flatten (w : Nat) (vals : List Bytes) (h : ∀ v ∈ vals, v.length = w) (rest : Bytes) :
    readFixed w vals.length (vals.flatten ++ rest) = vals := by
  induction vals with
  | nil => rfl
  | cons v vs ih =>
    have h1 := h v (by simp)
    have h2 := ih (fun x hx => h x (by simp [hx]))
    simp only [List.flatten_cons, List.length_cons, readFixed, List.append_assoc]
    rw [List.take_left' h1, List.drop_left' h1, h2]

/-! ## strings -/

theorem takeStrings_plain (vals : List Bytes) (h : ∀ v ∈ vals, v.length < 2 ^ 32) (rest : Bytes) :
    takeStrings vals.length ((vals.flatMap fun v => le32 v.length ++ v) ++ rest) = .ok (vals, rest) := by
  induction vals with
  | nil => rfl
  | cons v vs ih =>
    have h1 := h v (by simp)
    have h2 := ih (fun x hx => h x (by simp [hx]))
    obtain ⟨ht, hd⟩ := le32_take v.length h1 (v ++ ((vs.flatMap fun v => le32 v.length ++ v) ++ rest))
    simp only [List.flatMap_cons, List.length_cons, List.append_assoc]
    unfold takeStrings
    rw [if_neg (by simp only [List.length_append, le32_length]; omega)]
    simp only [ht, hd]
    rw [if_neg (by simp only [List.length_append]; omega)]
    simp only [List.drop_left, List.take_left, h2, bind, Except.bind, pure, Except.pure]

theorem readStrings_plain (vals : List Bytes) (h : ∀ v ∈ vals, v.length < 2 ^ 31) (rest : Bytes) :
    readStrings vals.length ((vals.flatMap fun v => le32 v.length ++ v) ++ rest) = .ok vals := by
  induction vals with
  | nil => rfl
  | cons v vs ih =>
    have h1 := h v (by simp)
    have h2 := ih (fun x hx => h x (by simp [hx]))
    obtain ⟨ht, hd⟩ := le32_take v.length (by omega) (v ++ ((vs.flatMap fun v => le32 v.length ++ v) ++ rest))
    simp only [List.flatMap_cons, List.length_cons, List.append_assoc]
    unfold readStrings
    rw [if_neg (by simp only [List.length_append, le32_length]; omega)]
    simp only [ht, hd]
    rw [if_neg (by omega)]
    have hne : ¬ (v.length > 0 ∧ v ++ ((vs.flatMap fun v => le32 v.length ++ v) ++ rest) = []) := by
      intro ⟨hp, he⟩
      have := congrArg List.length he
      simp only [List.length_append, List.length_nil] at this
      omega
    rw [if_neg hne]
    simp only [List.drop_left, List.take_left, h2, Nat.sub_self, List.replicate_zero, List.append_nil]

theorem flatMap_str_length (vals : List Bytes) :
    (vals.flatMap fun v => le32 v.length ++ v).length = (vals.map fun v => 4 + v.length).sum := by
  induction vals with
  | nil => rfl
  | cons v vs ih =>
    simp only [List.flatMap_cons, List.length_append, le32_length, ih, List.map_cons, List.sum_cons]

/-! ## booleans -/

def bit (b : Bool) : Nat := if b then 1 else 0

/-- the boolean the writer extracts from a PLAIN boolean value (`v[0] != 0`) -/
def boolOf (v : Bytes) : Bool := v.head?.getD 0 != 0

theorem bit_boolOf {v : Bytes} (h : WTVal .bool v) : [bit (boolOf v)] = v := by
  rcases h.bool with rfl | rfl <;> rfl

theorem packByte_bit (l : List Bool) (i : Nat) : packByte l / 2 ^ i % 2 = bit (l.getD i false) := by
  induction l generalizing i with
  | nil => simp [packByte, bit]
  | cons b bs ih =>
    cases i with
    | zero =>
      simp only [packByte, Nat.pow_zero, Nat.div_one, List.getD_cons_zero, bit]
      cases b <;> simp <;> omega
    | succ i =>
      simp only [packByte, List.getD_cons_succ]
      have hp : 2 ^ (i + 1) = 2 * 2 ^ i := by rw [Nat.pow_succ, Nat.mul_comm]
      have : ((if b = true then 1 else 0) + 2 * packByte bs) / 2 = packByte bs := by
        cases b <;> simp <;> omega
      rw [← ih i, hp, ← Nat.div_div_eq_div_mul, this]

theorem packByte_lt (l : List Bool) (h : l.length ≤ 8) : packByte l < 256 := by
  have : ∀ (k : Nat) (l : List Bool), l.length ≤ k → packByte l < 2 ^ k := by
    intro k
    induction k with
    | zero => intro l hl; cases l with
      | nil => simp [packByte]
      | cons a b => simp at hl
    | succ k ih =>
      intro l hl
      cases l with
      | nil => simp only [packByte]; exact Nat.two_pow_pos _
      | cons a b =>
        have := ih b (by simp only [List.length_cons] at hl; omega)
        simp only [packByte, Nat.pow_succ]
        cases a <;> simp <;> omega
  exact this 8 l h

theorem packBoolsAux_length (fuel : Nat) (bs : List Bool) (h : bs.length ≤ fuel) :
    (packBoolsAux fuel bs).length = (bs.length + 7) / 8 := by
  induction fuel generalizing bs with
  | zero =>
    have : bs = [] := List.eq_nil_of_length_eq_zero (by omega)
    subst this; rfl
  | succ f ih =>
    unfold packBoolsAux
    cases bs with
    | nil => rfl
    | cons b tl =>
      simp only [List.isEmpty_cons, Bool.false_eq_true, if_false, List.length_cons]
      rw [ih _ (by simp only [List.length_drop, List.length_cons] at h ⊢; omega)]
      simp only [List.length_drop, List.length_cons]
      omega

theorem packBools_length (bs : List Bool) : (packBools bs).length = (bs.length + 7) / 8 :=
  packBoolsAux_length _ bs (Nat.le_refl _)

theorem packBoolsAux_lt (fuel : Nat) (bs : List Bool) : ∀ b ∈ packBoolsAux fuel bs, b < 256 := by
  induction fuel generalizing bs with
  | zero => intro b hb; simp [packBoolsAux] at hb
  | succ f ih =>
    intro b hb
    unfold packBoolsAux at hb
    by_cases he : bs.isEmpty = true
    · rw [if_pos he] at hb; simp at hb
    · rw [if_neg he] at hb
      rcases List.mem_cons.mp hb with rfl | hb
      · exact packByte_lt _ (by simp only [List.length_take]; omega)
      · exact ih _ b hb

/-- bit `i` of the packed section is value `i` -/
theorem packBoolsAux_bit (fuel : Nat) (bs : List Bool) (h : bs.length ≤ fuel) (i : Nat) (hi : i < bs.length) :
    (packBoolsAux fuel bs).getD (i / 8) 0 / 2 ^ (i % 8) % 2 = bit (bs.getD i false) := by
  induction fuel generalizing bs i with
  | zero => omega
  | succ f ih =>
    unfold packBoolsAux
    have hne : bs.isEmpty = false := by cases bs with
      | nil => simp at hi
      | cons a b => rfl
    simp only [hne, Bool.false_eq_true, if_false]
    by_cases h8 : i < 8
    · have e1 : i / 8 = 0 := by omega
      have e2 : i % 8 = i := by omega
      rw [e1, e2, List.getD_cons_zero, packByte_bit]
      congr 1
      simp only [List.getD_eq_getElem?_getD, List.getElem?_take, if_pos h8]
    · have e1 : i / 8 = (i - 8) / 8 + 1 := by omega
      have e2 : i % 8 = (i - 8) % 8 := by omega
      rw [e1, e2, List.getD_cons_succ, ih (bs.drop 8) (by simp only [List.length_drop]; omega) (i - 8)
        (by simp only [List.length_drop]; omega)]
      congr 1
      simp only [List.getD_eq_getElem?_getD, List.getElem?_drop]
      congr 2
      omega

theorem specBools_pack (bits : List Bool) :
    ((List.range bits.length).map fun i => [(packBools bits).getD (i / 8) 0 / 2 ^ (i % 8) % 2])
      = bits.map fun b => [bit b] := by
  apply List.ext_getElem
  · simp
  · intro i h1 h2
    simp only [List.length_map, List.length_range] at h1
    simp only [List.getElem_map, List.getElem_range]
    rw [packBools, packBoolsAux_bit _ bits (Nat.le_refl _) i h1]
    simp only [List.getD_eq_getElem?_getD, List.getElem?_eq_getElem h1, Option.getD_some]

theorem map_bit_boolOf (vals : List Bytes) (h : ∀ v ∈ vals, WTVal .bool v) :
    (vals.map boolOf).map (fun b => [bit b]) = vals := by
  induction vals with
  | nil => rfl
  | cons v vs ih =>
    simp only [List.map_cons, bit_boolOf (h v (by simp)), ih (fun x hx => h x (by simp [hx]))]

theorem plainValues_bool (vals : List Bytes) : plainValues .bool vals = packBools (vals.map boolOf) := rfl

/-! ### the reader's `GetBools` -/

theorem unpackBoolByte_packByte (l : List Bool) :
    unpackBoolByte (packByte l) l.length = l.map fun b => [bit b] := by
  unfold unpackBoolByte
  apply List.ext_getElem
  · simp
  · intro i h1 h2
    simp only [List.length_map, List.length_range] at h1
    simp only [List.getElem_map, List.getElem_range, packByte_bit]
    simp only [List.getD_eq_getElem?_getD, List.getElem?_eq_getElem h1, Option.getD_some]

theorem boolsOfChunk_packAux (fuel : Nat) (bs : List Bool) (h : bs.length ≤ fuel) :
    boolsOfChunk (packBoolsAux fuel bs) bs.length = bs.map fun b => [bit b] := by
  induction fuel generalizing bs with
  | zero =>
    have : bs = [] := List.eq_nil_of_length_eq_zero (by omega)
    subst this; rfl
  | succ f ih =>
    unfold packBoolsAux
    cases hbs : bs with
    | nil => rfl
    | cons b tl =>
      rw [← hbs]
      have hne : bs.isEmpty = false := by rw [hbs]; rfl
      simp only [hne, Bool.false_eq_true, if_false, boolsOfChunk]
      have hl : (bs.take 8).length = min bs.length 8 := by simp only [List.length_take]; omega
      have hd : (bs.drop 8).length = bs.length - min bs.length 8 := by simp only [List.length_drop]; omega
      rw [← hl, unpackBoolByte_packByte, hl, ← hd, ih _ (by simp only [List.length_drop]; omega), ← List.map_append,
        List.take_append_drop]

theorem boolsOfChunk_pack (bs : List Bool) :
    boolsOfChunk (packBools bs) bs.length = bs.map fun b => [bit b] :=
  boolsOfChunk_packAux _ bs (Nat.le_refl _)

/-- **Multi-page boolean columns.**  Each page's booleans are packed separately (padding every page
to a whole byte); `GetBools` on the concatenated value sections with the per-page counts returns the
concatenated values — whatever follows the last section. -/
theorem getBools_pages (pages : List (List Bytes)) (h : ∀ vs ∈ pages, ∀ v ∈ vs, WTVal .bool v) (rest : Bytes) :
    getBools ((pages.flatMap fun vs => plainValues .bool vs) ++ rest) (pages.map fun vs => (vs.length : Int))
      = .ok pages.flatten := by
  induction pages with
  | nil => rfl
  | cons vs ps ih =>
    have h2 := ih (fun x hx => h x (by simp [hx]))
    have hvs := h vs (by simp)
    simp only [List.flatMap_cons, List.map_cons, List.flatten_cons, List.append_assoc]
    unfold getBools
    by_cases h0 : (vs.length : Int) = 0
    · have : vs = [] := List.eq_nil_of_length_eq_zero (by omega)
      subst this
      simp only [List.length_nil, Int.natCast_zero, if_true, List.nil_append]
      have : plainValues .bool [] = [] := rfl
      rw [this, List.nil_append, h2]
    · rw [if_neg h0, if_neg (by omega)]
      have hl : (plainValues .bool vs).length = ((vs.length : Int).toNat + 7) / 8 := by
        rw [plainValues_bool, packBools_length, List.length_map, Int.toNat_natCast]
      simp only [← hl]
      rw [if_neg (by simp only [List.length_append]; omega), List.drop_left, List.take_left, h2]
      simp only [Int.toNat_natCast]
      have : boolsOfChunk (plainValues .bool vs) vs.length = vs := by
        have := boolsOfChunk_pack (vs.map boolOf)
        rw [List.length_map] at this
        rw [plainValues_bool, this, map_bit_boolOf vs hvs]
      rw [this]

/-! ## the three statements -/

/-- **The specification parser inverts PLAIN**, for every physical type. -/
theorem specValues_plain (ty : PType) (vals : List Bytes) (h : ∀ v ∈ vals, WTVal ty v) :
    specValues ty vals.length (plainValues ty vals) = .ok vals := by
  by_cases hs : ty = .str
  · subst hs
    have := takeStrings_plain vals (fun v hv => by have := (h v hv).str; omega) []
    rw [List.append_nil] at this
    simp only [specValues, plainValues, this, bind, Except.bind, ne_eq, not_true_eq_false, if_false, pure,
      Except.pure]
  by_cases hb : ty = .bool
  · subst hb
    have hl : (plainValues .bool vals).length = (vals.length + 7) / 8 := by
      rw [plainValues_bool, packBools_length, List.length_map]
    simp only [specValues]
    rw [if_neg (by omega)]
    have := specBools_pack (vals.map boolOf)
    rw [List.length_map] at this
    rw [plainValues_bool, this, map_bit_boolOf vals h]
  · have hf : ty.isFixed := ⟨hb, hs⟩
    have hw : ∀ v ∈ vals, v.length = ty.width := fun v hv => (h v hv).fixed hf
    have hl := flatten_length_fixed ty.width vals hw
    have hr := readFixed_flatten ty.width vals hw []
    rw [List.append_nil] at hr
    rw [plainValues_fixed hf]
    cases ty <;> first
      | exact absurd rfl hb
      | exact absurd rfl hs
      | (simp only [specValues]; rw [if_neg (by omega), hr])

/-- **The reader's typed `Read` inverts PLAIN** for the value section of a single page. -/
theorem readValues_plain (ty : PType) (vals : List Bytes) (h : ∀ v ∈ vals, WTVal ty v) :
    readValues ty vals.length (plainValues ty vals) [(vals.length : Int)] = .ok vals := by
  by_cases hs : ty = .str
  · subst hs
    have := readStrings_plain vals (fun v hv => (h v hv).str) []
    rw [List.append_nil] at this
    simp only [readValues, plainValues, this]
  by_cases hb : ty = .bool
  · subst hb
    have := getBools_pages [vals] (by simpa using h) []
    simpa [readValues] using this
  · have hf : ty.isFixed := ⟨hb, hs⟩
    have hw : ∀ v ∈ vals, v.length = ty.width := fun v hv => (h v hv).fixed hf
    have hl := flatten_length_fixed ty.width vals hw
    have hr := readFixed_flatten ty.width vals hw []
    rw [List.append_nil] at hr
    rw [plainValues_fixed hf]
    cases ty <;> first
      | exact absurd rfl hb
      | exact absurd rfl hs
      | (simp only [readValues]; rw [if_neg (by omega), hr])

/-- value sections of consecutive pages concatenate (every type but `bool`, which pads per page) -/
theorem plainValues_append (ty : PType) (hty : ty ≠ .bool) (a b : List Bytes) :
    plainValues ty (a ++ b) = plainValues ty a ++ plainValues ty b := by
  cases ty <;> first
    | exact absurd rfl hty
    | simp only [plainValues, List.flatten_append, List.flatMap_append]

theorem plainValues_pages (ty : PType) (hty : ty ≠ .bool) (pages : List (List Bytes)) :
    plainValues ty pages.flatten = pages.flatMap (plainValues ty) := by
  induction pages with
  | nil => cases ty <;> rfl
  | cons p ps ih => rw [List.flatten_cons, plainValues_append ty hty, ih, List.flatMap_cons]

/-- **Multi-page chunks, every type**: the reader's decoder applied to the concatenated value sections
of pages written separately returns the concatenated values. -/
theorem readValues_pages (ty : PType) (pages : List (List Bytes)) (h : ∀ vs ∈ pages, ∀ v ∈ vs, WTVal ty v) :
    readValues ty pages.flatten.length (pages.flatMap (plainValues ty)) (pages.map fun vs => (vs.length : Int))
      = .ok pages.flatten := by
  by_cases hb : ty = .bool
  · subst hb
    have := getBools_pages pages h []
    rw [List.append_nil] at this
    simpa [readValues] using this
  · rw [← plainValues_pages ty hb]
    have hall : ∀ v ∈ pages.flatten, WTVal ty v := by
      intro v hv
      obtain ⟨vs, h1, h2⟩ := List.mem_flatten.mp hv
      exact h vs h1 v h2
    have := readValues_plain ty pages.flatten hall
    cases ty <;> first
      | exact absurd rfl hb
      | simpa [readValues] using this

/-- length of a PLAIN value section -/
theorem plain_length_fixed (ty : PType) (hf : ty.isFixed) (vals : List Bytes) (h : ∀ v ∈ vals, WTVal ty v) :
    (plainValues ty vals).length = vals.length * ty.width := by
  rw [plainValues_fixed hf]
  exact flatten_length_fixed ty.width vals fun v hv => (h v hv).fixed hf

theorem plain_length_bool (vals : List Bytes) : (plainValues .bool vals).length = (vals.length + 7) / 8 := by
  rw [plainValues_bool, packBools_length, List.length_map]

theorem plain_length_str (vals : List Bytes) :
    (plainValues .str vals).length = (vals.map fun v => 4 + v.length).sum :=
  flatMap_str_length vals

/-- every byte of a PLAIN section is a byte -/
theorem plain_bytes_lt (ty : PType) (vals : List Bytes) (h : ∀ v ∈ vals, WTVal ty v) :
    ∀ b ∈ plainValues ty vals, b < 256 := by
  intro b hb
  by_cases hbool : ty = .bool
  · subst hbool
    exact packBoolsAux_lt _ _ b hb
  by_cases hs : ty = .str
  · subst hs
    simp only [plainValues, List.mem_flatMap, List.mem_append] at hb
    obtain ⟨v, hv, hb | hb⟩ := hb
    · exact leBytes_lt 4 _ b hb
    · exact (h v hv).1 b hb
  · rw [plainValues_fixed ⟨hbool, hs⟩] at hb
    obtain ⟨v, hv, hb⟩ := List.mem_flatten.mp hb
    exact (h v hv).1 b hb

/-! ## non-vacuity -/

example : WTVal .i32 [1, 0, 0, 0] := by decide
example : WTVal .bool [1] ∧ WTVal .bool [0] ∧ ¬ WTVal .bool [2] := by decide
example : WTVal .str [104, 105] ∧ ¬ WTVal .str [256] := by decide

/-- ten booleans take two bytes (6 bits of padding), LSB first -/
example : plainValues .bool [[1], [0], [1], [1], [0], [0], [0], [1], [1], [1]] = [0x8d, 0x03] := by decide

/-- two pages of 3 and 2 booleans: one byte each, and `GetBools` with the per-page counts undoes both -/
example : getBools (plainValues .bool [[1], [0], [1]] ++ plainValues .bool [[0], [1]]) [3, 2]
    = .ok [[1], [0], [1], [0], [1]] := by rfl

example : specValues .str 2 (plainValues .str [[104, 105], []]) = .ok [[104, 105], []] := by rfl

end PQ
