import PQ.Model.Snappy
import PQ.Lemmas.RleDec
/-!
# The snappy specification decoder inverts every stream the nondeterministic encoder can emit
(helpers for C04)

`copyN off len out` is the decoder's copy loop (byte by byte, so a copy may overlap its own output);
`SnEl.OK` / `SnEl.expand` give the validity and meaning of one element; `snappyBody_el` decodes one
encoded element; `matchLen_spec` says what `matchLen` establishes; `snappyBody_elems` is the
induction over the encoder's element list.
-/
namespace PQ

def copyN (off : Nat) : Nat → Bytes → Bytes
  | 0, o => o
  | n+1, o => copyN off n (o ++ [o.getD (o.length - off) 0])

theorem foldl_eq_copyN (off : Nat) (l : List Nat) (out : Bytes) :
    l.foldl (fun o _ => o ++ [o.getD (o.length - off) 0]) out = copyN off l.length out := by
  induction l generalizing out with
  | nil => rfl
  | cons a l ih => rw [List.foldl_cons, ih]; rfl

theorem snappyBody_lit1 (fuel n : Nat) (bs tail out : Bytes) (hn : n < 60) (hl : bs.length = n + 1) :
    snappyBody (fuel+1) (n * 4 :: (bs ++ tail)) out = snappyBody fuel tail (out ++ bs) := by
  conv => lhs; unfold snappyBody
  have h0 : n * 4 % 4 = 0 := by omega
  have h4 : n * 4 / 4 = n := by omega
  simp only [h0, h4, if_pos hn]
  rw [if_neg (by rw [List.length_append]; omega), ← hl, List.drop_left, List.take_left]

theorem snappyBody_lit2 (fuel n : Nat) (bs tail out : Bytes) (hl : bs.length = n + 1) :
    snappyBody (fuel+1) (60 * 4 :: n :: (bs ++ tail)) out = snappyBody fuel tail (out ++ bs) := by
  conv => lhs; unfold snappyBody
  simp only [show 60 * 4 % 4 = 0 from rfl, show 60 * 4 / 4 = 60 from rfl, show ¬ (60 < 60) by omega, if_false, if_true,
    List.headD_cons, List.drop_succ_cons, List.drop_zero]
  rw [if_neg (by rw [List.length_append]; omega), ← hl, List.drop_left, List.take_left]

theorem snappyBody_lit3 (fuel n : Nat) (bs tail out : Bytes) (hn : ¬ n < 256) (hn2 : n < 65536) (hl : bs.length = n + 1) :
    snappyBody (fuel+1) (61 * 4 :: (n % 256) :: (n / 256 % 256) :: (bs ++ tail)) out = snappyBody fuel tail (out ++ bs) := by
  conv => lhs; unfold snappyBody
  simp only [show 61 * 4 % 4 = 0 from rfl, show 61 * 4 / 4 = 61 from rfl, show ¬ (61 < 60) by omega, show ¬ (61 = 60) by omega, if_false, if_true,
    List.headD_cons, List.drop_succ_cons, List.drop_zero, List.getD_cons_succ, List.getD_cons_zero]
  have : n % 256 + 256 * (n / 256 % 256) + 1 = n + 1 := by omega
  rw [this]
  rw [if_neg (by rw [List.length_append]; omega), ← hl, List.drop_left, List.take_left]

theorem snappyBody_copy1 (fuel off len : Nat) (tail out : Bytes) (h4 : 4 ≤ len) (h11 : len ≤ 11)
    (ho : off < 2048) (ho1 : 1 ≤ off) (ho2 : off ≤ out.length) :
    snappyBody (fuel+1) ((1 + (len - 4) * 4 + (off / 256) * 32) :: (off % 256) :: tail) out
      = snappyBody fuel tail (copyN off len out) := by
  conv => lhs; unfold snappyBody
  have e0 : (1 + (len - 4) * 4 + (off / 256) * 32) % 4 = 1 := by omega
  have e1 : (1 + (len - 4) * 4 + (off / 256) * 32) / 4 % 8 + 4 = len := by omega
  have e2 : (1 + (len - 4) * 4 + (off / 256) * 32) / 32 * 256 + off % 256 = off := by omega
  simp only [e0, e1, e2]
  rw [if_neg (by omega), foldl_eq_copyN, List.length_range]

theorem snappyBody_copy2 (fuel off len : Nat) (tail out : Bytes) (h1 : 1 ≤ len) (h64 : len ≤ 64)
    (ho : off < 65536) (ho1 : 1 ≤ off) (ho2 : off ≤ out.length) :
    snappyBody (fuel+1) ((2 + (len - 1) * 4) :: (off % 256) :: (off / 256 % 256) :: tail) out
      = snappyBody fuel tail (copyN off len out) := by
  conv => lhs; unfold snappyBody
  have e0 : (2 + (len - 1) * 4) % 4 = 2 := by omega
  have e1 : (2 + (len - 1) * 4) / 4 + 1 = len := by omega
  have e2 : fromLE [off % 256, off / 256 % 256] = off := by simp only [fromLE]; omega
  simp only [e0, e1, List.take_succ_cons, List.take_zero, e2, List.drop_succ_cons, List.drop_zero, List.length_cons]
  rw [if_neg (by omega), if_neg (by omega), foldl_eq_copyN, List.length_range]

/-- validity of one element relative to the output produced so far -/
def SnEl.OK (hist : Bytes) : SnEl → Prop
  | .lit bs => 1 ≤ bs.length ∧ bs.length ≤ 65536
  | .copy off len => 1 ≤ off ∧ off ≤ hist.length ∧ off < 65536 ∧ 1 ≤ len ∧ len ≤ 64

/-- what one element appends to the output -/
def SnEl.expand (hist : Bytes) : SnEl → Bytes
  | .lit bs => hist ++ bs
  | .copy off len => copyN off len hist

theorem SnEl.enc_ne_nil (e : SnEl) : 1 ≤ e.enc.length := by
  cases e with
  | lit bs => (simp only [SnEl.enc]; repeat' split) <;> simp
  | copy off len => simp only [SnEl.enc]; split <;> simp

/-- the decoder inverts the encoding of one valid element -/
theorem snappyBody_el (fuel : Nat) (e : SnEl) (hist tail : Bytes) (h : e.OK hist) :
    snappyBody (fuel+1) (e.enc ++ tail) hist = snappyBody fuel tail (e.expand hist) := by
  cases e with
  | lit bs =>
    obtain ⟨h1, h2⟩ := h
    simp only [SnEl.enc, SnEl.expand]
    by_cases a : bs.length - 1 < 60
    · rw [if_pos a, List.cons_append]
      exact snappyBody_lit1 fuel _ bs tail hist a (by omega)
    · rw [if_neg a]
      by_cases b : bs.length - 1 < 256
      · rw [if_pos b, List.cons_append, List.cons_append]
        exact snappyBody_lit2 fuel _ bs tail hist (by omega)
      · rw [if_neg b, List.cons_append, List.cons_append, List.cons_append]
        exact snappyBody_lit3 fuel _ bs tail hist b (by omega) (by omega)
  | copy off len =>
    obtain ⟨h1, h2, h3, h4, h5⟩ := h
    simp only [SnEl.enc, SnEl.expand]
    by_cases a : 4 ≤ len ∧ len ≤ 11 ∧ off < 2048
    · rw [if_pos a]
      exact snappyBody_copy1 fuel off len tail hist a.1 a.2.1 a.2.2 h1 h2
    · rw [if_neg a]
      exact snappyBody_copy2 fuel off len tail hist h4 h5 h3 h1 h2

theorem copyN_length (off n : Nat) (o : Bytes) : (copyN off n o).length = o.length + n := by
  induction n generalizing o with
  | zero => rfl
  | succ n ih => rw [copyN, ih]; simp; omega

/-- `matchLen.go`: the result exceeds the accumulator by at most the fuel and the input length, and
every copy of at most that many bytes from back-offset `off` (overlapping its own output when
`len > off`) reproduces the upcoming input bytes -/
theorem matchLen_go_spec (off : Nat) (ho : 1 ≤ off) (fuel : Nat) (h r : Bytes) (n : Nat) :
    n ≤ matchLen.go off fuel h r n ∧ matchLen.go off fuel h r n - n ≤ fuel
    ∧ matchLen.go off fuel h r n - n ≤ r.length
    ∧ ∀ len, len ≤ matchLen.go off fuel h r n - n → copyN off len h = h ++ r.take len := by
  induction fuel generalizing h r n with
  | zero =>
    simp only [matchLen.go]
    refine ⟨by omega, by omega, by omega, ?_⟩
    intro len hlen
    have : len = 0 := by omega
    subst this; simp [copyN]
  | succ fuel ih =>
    cases r with
    | nil =>
      simp only [matchLen.go]
      refine ⟨by omega, by omega, by omega, ?_⟩
      intro len hlen
      have : len = 0 := by omega
      subst this; simp [copyN]
    | cons x r' =>
      simp only [matchLen.go]
      split
      · rename_i hc
        obtain ⟨i1, i2, i3, i4⟩ := ih (h ++ [x]) r' (n + 1)
        refine ⟨by omega, by omega, by simp only [List.length_cons]; omega, ?_⟩
        intro len hlen
        cases len with
        | zero => simp [copyN]
        | succ len =>
          have hidx : h.length - off < h.length := by omega
          have hget : h.getD (h.length - off) 0 = x := by
            have e : ∀ d, h.getD (h.length - off) d = h[h.length - off] := by
              intro d; simp [List.getD_eq_getElem?_getD, List.getElem?_eq_getElem hidx]
            rw [e 0, ← e 256]; exact hc.2
          rw [copyN, hget, i4 len (by omega), List.take_succ_cons, List.append_assoc]
          rfl
      · refine ⟨by omega, by omega, by omega, ?_⟩
        intro len hlen
        have : len = 0 := by omega
        subst this; simp [copyN]

theorem matchLen_spec (hist rest : Bytes) (off cap : Nat) (ho : 1 ≤ off) :
    matchLen hist rest off cap ≤ cap ∧ matchLen hist rest off cap ≤ rest.length
    ∧ ∀ len, len ≤ matchLen hist rest off cap → copyN off len hist = hist ++ rest.take len := by
  obtain ⟨_, a, b, c⟩ := matchLen_go_spec off ho cap hist rest 0
  exact ⟨a, b, c⟩

theorem snappyElems_cons (fuel : Nat) (cs : Choices) (hist : Bytes) (x : Nat) (r' : Bytes) :
    snappyElems (fuel+1) cs hist (x :: r') =
      (let rest := x :: r'
       let c := (pick cs).1
       let k := (pick (pick cs).2).1
       let cs2 := (pick (pick cs).2).2
       let off := k % 40 + 1
       let ml := matchLen hist rest off 64
       if c % 3 ≠ 0 ∧ ml ≥ 1 ∧ off ≤ hist.length then
         let len := if c % 2 = 0 then ml else min ml (k % 11 + 1)
         .copy off len :: snappyElems fuel cs2 (hist ++ rest.take len) (rest.drop len)
       else
         let n := min rest.length (if c % 5 = 0 then k % 300 + 1 else k % 7 + 1)
         .lit (rest.take n) :: snappyElems fuel cs2 (hist ++ rest.take n) (rest.drop n)) := by
  rw [snappyElems]
  all_goals first | rfl | simp

theorem snappyElems_nil (fuel : Nat) (cs : Choices) (hist : Bytes) : snappyElems fuel cs hist [] = [] := by
  cases fuel <;> rfl

theorem snappyBody_nil (fuel : Nat) (out : Bytes) : snappyBody fuel [] out = some out := by
  cases fuel <;> rfl

/-- **Decoding any element list the encoder can emit** appends exactly the remaining input -/
theorem snappyBody_elems (fuel : Nat) (cs : Choices) (hist rest : Bytes) (hf : rest.length ≤ fuel)
    (dfuel : Nat) (tail : Bytes) (hd : (snappyElems fuel cs hist rest).length ≤ dfuel) :
    snappyBody dfuel ((snappyElems fuel cs hist rest).flatMap SnEl.enc ++ tail) hist
      = snappyBody (dfuel - (snappyElems fuel cs hist rest).length) tail (hist ++ rest) := by
  induction fuel generalizing cs hist rest dfuel with
  | zero =>
    have : rest = [] := List.eq_nil_of_length_eq_zero (by omega)
    subst this
    simp [snappyElems]
  | succ fuel ih =>
    cases rest with
    | nil => simp [snappyElems_nil]
    | cons x r' =>
      rw [snappyElems_cons] at hd ⊢
      simp only at hd ⊢
      generalize (pick (pick cs).2).1 = k at hd ⊢
      generalize (pick (pick cs).2).2 = cs2 at hd ⊢
      generalize (pick cs).1 = c at hd ⊢
      generalize hrest : x :: r' = rest at *
      have hrl : 1 ≤ rest.length := by rw [← hrest]; simp
      obtain ⟨m1, m2, m3⟩ := matchLen_spec hist rest (k % 40 + 1) 64 (by omega)
      split at hd
      · rename_i hc
        rw [if_pos hc]
        generalize hlen : (if c % 2 = 0 then matchLen hist rest (k % 40 + 1) 64
          else min (matchLen hist rest (k % 40 + 1) 64) (k % 11 + 1)) = len at *
        have hl1 : 1 ≤ len := by rw [← hlen]; split <;> omega
        have hl2 : len ≤ matchLen hist rest (k % 40 + 1) 64 := by rw [← hlen]; split <;> omega
        rw [List.length_cons] at hd
        cases dfuel with
        | zero => omega
        | succ dfuel =>
          rw [List.flatMap_cons, List.append_assoc,
            snappyBody_el dfuel _ hist _ (show (SnEl.copy (k % 40 + 1) len).OK hist from
              ⟨by omega, hc.2.2, by omega, hl1, by omega⟩)]
          simp only [SnEl.expand]
          rw [m3 len hl2, ih cs2 (hist ++ rest.take len) (rest.drop len)
            (by rw [List.length_drop]; omega) dfuel (by omega), List.append_assoc, List.take_append_drop,
            List.length_cons]
          congr 1; omega
      · rename_i hc
        rw [if_neg hc]
        generalize hn : min rest.length (if c % 5 = 0 then k % 300 + 1 else k % 7 + 1) = n at *
        have hn1 : 1 ≤ n := by rw [← hn]; split <;> omega
        have hn2 : n ≤ rest.length := by omega
        have hn3 : n ≤ 300 := by rw [← hn]; split <;> omega
        rw [List.length_cons] at hd
        cases dfuel with
        | zero => omega
        | succ dfuel =>
          rw [List.flatMap_cons, List.append_assoc,
            snappyBody_el dfuel _ hist _ (show (SnEl.lit (rest.take n)).OK hist from
              ⟨by rw [List.length_take]; omega, by rw [List.length_take]; omega⟩)]
          simp only [SnEl.expand]
          rw [ih cs2 (hist ++ rest.take n) (rest.drop n)
            (by rw [List.length_drop]; omega) dfuel (by omega), List.append_assoc, List.take_append_drop,
            List.length_cons]
          congr 1; omega

theorem flatMap_enc_length (els : List SnEl) : els.length ≤ (els.flatMap SnEl.enc).length := by
  induction els with
  | nil => simp
  | cons e es ih =>
    have := e.enc_ne_nil
    simp only [List.flatMap_cons, List.length_append, List.length_cons]; omega

/-- **Every stream the nondeterministic snappy encoder can emit decodes to its input** -/
theorem snappyDecode_encode (cs : Choices) (raw : Bytes) : snappyDecode (snappyEncode cs raw) = some raw := by
  unfold snappyDecode snappyEncode
  rw [readLeb_uleb _ _ _ (by rw [List.length_append]; omega)]
  simp only
  have h := snappyBody_elems (raw.length + 1) cs [] raw (by omega)
    (((snappyElems (raw.length + 1) cs [] raw).flatMap SnEl.enc).length + 1) []
    (by have := flatMap_enc_length (snappyElems (raw.length + 1) cs [] raw); omega)
  rw [List.append_nil, snappyBody_nil, List.nil_append] at h
  rw [h]
  simp

end PQ
