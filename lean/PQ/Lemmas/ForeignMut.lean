import PQ.Lemmas.ForeignRT
import PQ.Props.C18
/-!
# C18, whole file: one unsupported page / encoding / codec anywhere makes the reader stop with an error

* Part A: `Outcome`, `outLoop`, `readOutcome` refine `readLoop` / `readAllEntries` (Lemmas/ReaderRT.lean): the
  driver "open, then `Next`/`Scan` until `Next` is false" of `readAll` (Model/Text.lean) with errors told
  apart from panics; `readOutcome_of_entries` ties it to `readAllEntries`.  (The converse needs "`Next` was
  false within the fuel": with the fuel exhausted the driver reports the error flag, `readLoop` says `none`.)
* Part B: `Mutation.unsupportedFor`; the first header the reader meets at a mutated page is decoded and
  refused by `checkPage` (`mutPage_refused`).
* Part C/D: what `emit` writes under a mutation (`emit_off`, `emit_mut`); the typed `Read` of the mutated
  chunk reads the pages before the mutated one and returns an error (`chunkFails_muGChunk`).
* Part E: layout of the mutated file (`chunks_spec_mu`, `groups_spec_mu`): every chunk but one is the
  unmutated writer's, the choices are consumed as without mutation.
* Part F: `readRowGroup` on the mutated row group fails (`readRowGroup_bad`), `Next` with only empty row
  groups before it is false with the error set (`next_bad`), the loop delivers what comes before (`outLoop_mut`).
* Part G: `readOutcome_specWrite_mutated` (+ `_page0`, `readOutcome_specWrite_codec`): for every file of the
  independent spec writer in which ONE page (any row group, any column, any existing page of that column
  chunk) uses a feature the reader does not implement, the reader delivers exactly the records of the row
  groups before the mutated one and then stops with an error (from the constructor, if the very first row
  group is the mutated one) — no panic, no row of the mutated row group or of a later one.
* Part H: the same on the text line `readAll` prints (`readAll_of_refused`, `readAll_specWrite_mutated`).
-/
namespace PQ
open PQ.Thrift

/-! ## Part A: the driver with errors and panics told apart -/

abbrev Row := List (List (Entry Bytes))

inductive Outcome
  | refusedAtOpen                    -- `NewParquetReader` returned an error
  | refused (rows : List Row)        -- rows delivered, then `Next` = false with `Error() ≠ nil`
  | accepted (rows : List Row)       -- `Next` = false with `Error() = nil`
  | panicked
deriving BEq

/-- the `Next`/`Scan` loop of `readAll` (Model/Text.lean) on entries instead of texts, with the same case
distinction: fuel exhausted or `Next` false → the status is `Error()`; `Next` panics → panic; `Next` true
with the error flag set → the driver does not call `Scan` (no row is delivered for it; `next_true_err` shows
that this cannot happen from an error-free state); `Scan` on a reader that never loaded a row group, or
past its value buffer → panic. -/
def outLoop : Nat → RState → List Row → Outcome
  | 0, st, acc => if st.err then .refused acc else .accepted acc
  | fuel+1, st, acc =>
    match st.next with
    | .error _ => .panicked
    | .ok (false, st) => if st.err then .refused acc else .accepted acc
    | .ok (true, st) =>
      if st.err then outLoop fuel st acc else
      if !st.fieldsSet ∧ !st.cols.isEmpty then .panicked else
      match scanAllEntries st.cols st.bufs with
      | none => .panicked
      | some (row, bufs) => outLoop fuel { st with bufs := bufs } (acc ++ [row])

/-- open the file, then `Next`/`Scan` until `Next` is false, at most `Rows() + 3` times (the driver of
`readAll`) -/
def readOutcome (cols : List Col) (dc : Decomp) (file : Bytes) : Outcome :=
  match openReader cols dc file with
  | .error .err => .refusedAtOpen
  | .error .panic => .panicked
  | .ok st => outLoop (st.rows + 3).toNat st []

theorem outLoop_of_readLoop : ∀ (fuel : Nat) (st : RState) (acc res : List Row),
    readLoop fuel st acc = some res → outLoop fuel st acc = .accepted res
  | 0, _, _, _, h => by simp [readLoop] at h
  | fuel+1, st, acc, res, h => by
    rw [readLoop] at h
    rw [outLoop]
    cases hn : st.next with
    | error e => rw [hn] at h; exact absurd h (by simp)
    | ok p =>
      obtain ⟨b, st'⟩ := p
      rw [hn] at h
      cases b with
      | false =>
        simp only at h ⊢
        cases he : st'.err with
        | true => rw [he] at h; exact absurd h (by simp)
        | false =>
          rw [he] at h
          simp only [Bool.false_eq_true, if_false, Option.some.injEq] at h ⊢
          rw [h]
      | true =>
        simp only at h ⊢
        cases he : st'.err with
        | true => rw [he] at h; exact absurd h (by simp)
        | false =>
          rw [he] at h
          simp only [Bool.false_eq_true, if_false] at h ⊢
          by_cases hf : (!st'.fieldsSet) = true ∧ (!st'.cols.isEmpty) = true
          · rw [if_pos hf] at h; exact absurd h (by simp)
          · rw [if_neg hf] at h ⊢
            cases hs : scanAllEntries st'.cols st'.bufs with
            | none => rw [hs] at h; exact absurd h (by simp)
            | some q =>
              obtain ⟨row, bufs⟩ := q
              rw [hs] at h
              simp only at h ⊢
              exact outLoop_of_readLoop fuel _ _ res h

/-- **`readOutcome` refines `readAllEntries`**: whenever the latter succeeds, the outcome is `accepted` with
the same rows. -/
theorem readOutcome_of_entries (cols : List Col) (dc : Decomp) (file : Bytes) (n : Int) (rows : List Row)
    (h : readAllEntries cols dc file = some (n, rows)) : readOutcome cols dc file = .accepted rows := by
  unfold readAllEntries at h
  unfold readOutcome
  cases ho : openReader cols dc file with
  | error e => rw [ho] at h; exact absurd h (by simp)
  | ok st =>
    rw [ho] at h
    simp only [Option.map_eq_some_iff, Prod.mk.injEq] at h
    obtain ⟨res, hl, _, hres⟩ := h
    subst hres
    exact outLoop_of_readLoop _ st [] res hl

/-! ## Part B: the mutated page, as the reader sees its first header -/

/-- which header mutations a `checkPage ph defs reps` refuses -/
def Mutation.pageBad (m : Mutation) (defs reps : Bool) : Prop :=
  match m with
  | .none => False
  | .dictPage => True
  | .indexPage => True
  | .v2Page => True
  | .valueEncoding e => e ≠ 0
  | .defEncoding e => defs = true ∧ e ≠ 3
  | .repEncoding e => reps = true ∧ e ≠ 3
  | .codec _ => False

/-- **The mutations property C18 is about, for a page of column `c`** — exactly those the reader model refuses:
a dictionary page, an index page, a v2 data page: always; a value encoding other than PLAIN (0); a
definition-level encoding other than RLE (3) *if the column has definition levels*, i.e. is not a
`RequiredField` (`RequiredField.DoRead` calls `checkPage ph false false`: the level encodings in the header
of a column without levels are not looked at, such a file is read normally); a repetition-level encoding
other than RLE *if the column has repetition levels* (`OptionalField.DoRead` calls
`checkPage ph true (maxRep > 0)`); a codec id above 2 in the chunk's metadata (0, 1, 2 = uncompressed,
snappy, gzip are implemented; declaring another one of these three than the one used gives a
decompression failure or garbage and is outside the property). -/
def Mutation.unsupportedFor (m : Mutation) (c : Col) : Prop :=
  match m with
  | .none => False
  | .dictPage => True
  | .indexPage => True
  | .v2Page => True
  | .valueEncoding e => e ≠ 0
  | .defEncoding e => c.isRequired = false ∧ e ≠ 3
  | .repEncoding e => c.maxRep > 0 ∧ e ≠ 3
  | .codec k => 2 < k

instance (m : Mutation) (c : Col) : Decidable (m.unsupportedFor c) := by
  cases m <;> unfold Mutation.unsupportedFor <;> infer_instance

/-- is the mutation one of the chunk's metadata (the codec id) rather than of a page -/
def Mutation.isCodec : Mutation → Bool
  | .codec _ => true
  | _ => false

theorem pageBad_of_unsupported (m : Mutation) (c : Col) (h : m.unsupportedFor c) (hc : m.isCodec = false) :
    m.pageBad (!c.isRequired) (decide (c.maxRep > 0)) := by
  cases m with
  | none => exact h
  | dictPage => trivial
  | indexPage => trivial
  | v2Page => trivial
  | valueEncoding e => exact h
  | defEncoding e => exact ⟨by simp [h.1], h.2⟩
  | repEncoding e => exact ⟨by simp [h.1], h.2⟩
  | codec k => simp [Mutation.isCodec] at hc

/-- `readStruct` at the start of an encoded struct that needs no more fuel than its length + 2 -/
theorem readStruct_enc (v : TVal) (hc : v.ecode = tStruct) (hwf : v.WF) (hneed : v.need ≤ v.enc.length + 2) (pre t : Bytes) :
    (Src.mk (pre ++ v.enc ++ t) pre.length).readStruct = .ok (v, Src.mk (pre ++ v.enc ++ t) (pre.length + v.enc.length)) := by
  have hdec := decVal_enc_need v hwf ((v.enc ++ t).length + 2) t (by simp only [List.length_append]; omega)
  rw [hc] at hdec
  unfold Src.readStruct
  simp only [List.append_assoc, List.drop_left]
  rw [hdec]
  simp only [List.length_append]
  congr 3
  omega

/-- the data page header with arbitrary encoding ids -/
def muDph (cfg : SWCfg) (c : Col) (es : PageEntries) (ve de re : Nat) : TVal :=
  .struct ([(1, .int 5 es.length), (2, .int 5 (ve : Nat)), (3, .int 5 (de : Nat)), (4, .int 5 (re : Nat))] ++ spStats cfg c es ++ spExtra cfg)

def muHdr (cfg : SWCfg) (c : Col) (es : PageEntries) (u z ve de re : Nat) : TVal :=
  .struct ([(1, .int 5 0), (2, .int 5 u), (3, .int 5 z), (5, muDph cfg c es ve de re)] ++ spExtra cfg)

theorem muHdr_wf (cfg : SWCfg) (c : Col) (es : PageEntries) (u z ve de re : Nat) : (muHdr cfg c es u z ve de re).WF := by
  have := statsT_wf (cfg.pageStatsResult c es)
  cases hs : cfg.withStats <;> cases he : cfg.withExtras <;>
    simp [muHdr, muDph, spStats, spExtra, extraField, hs, he, TVal.WF, WFFields, tI32, tI64, this]

theorem muHdr_need (cfg : SWCfg) (c : Col) (es : PageEntries) (u z ve de re : Nat) :
    (muHdr cfg c es u z ve de re).need ≤ (muHdr cfg c es u z ve de re).enc.length + 2 := by
  have hs1 := need_le (statsT (cfg.pageStatsResult c es))
  have hs2 := statsT_dep (cfg.pageStatsResult c es)
  have hs3 := enc_length_pos (statsT (cfg.pageStatsResult c es))
  rw [statsT_eq] at hs1 hs2 hs3
  simp only [TVal.enc] at hs1 hs3
  cases hs : cfg.withStats <;> cases he : cfg.withExtras <;>
    simp only [muHdr, muDph, spStats, spExtra, extraField, hs, he, statsT_eq, TVal.need, needFields, TVal.enc, encFields,
      List.length_append, List.cons_append, List.nil_append, List.append_nil, if_true, if_false, Bool.false_eq_true,
      List.length_cons, List.length_nil, fieldHeader_length_eq, uvar_length_eq] at hs1 ⊢ <;> omega

theorem decPHdr_muHdr (cfg : SWCfg) (c : Col) (es : PageEntries) (u z ve de re : Nat) :
    ∃ so, decPHdr (muHdr cfg c es u z ve de re) =
      some { ty := 0, uncompressed := (u : Nat), compressed := (z : Nat),
             dph := some ((es.length : Nat), (ve : Nat), (de : Nat), (re : Nat), so),
             hasDict := false, hasIndex := false, hasV2 := false } := by
  cases hs : cfg.withStats <;> cases he : cfg.withExtras
  · exact ⟨none, by simp [decPHdr, muHdr, muDph, spStats, spExtra, hs, he, TVal.fieldsOf, getI32, getStruct, List.lookup]⟩
  · exact ⟨none, by simp [decPHdr, muHdr, muDph, spStats, spExtra, extraField, hs, he, TVal.fieldsOf, getI32, getStruct, List.lookup]⟩
  · exact ⟨some (statsFields (cfg.pageStatsResult c es)), by
      simp [decPHdr, muHdr, muDph, spStats, spExtra, hs, he, TVal.fieldsOf, getI32, getStruct, List.lookup, statsT_eq]⟩
  · exact ⟨some (statsFields (cfg.pageStatsResult c es)), by
      simp [decPHdr, muHdr, muDph, spStats, spExtra, extraField, hs, he, TVal.fieldsOf, getI32, getStruct, List.lookup, statsT_eq]⟩

/-- the headers of the page kinds the reader does not implement -/
def dictHdr : TVal := .struct [(1, .int 5 2), (2, .int 5 4), (3, .int 5 4), (7, .struct [(1, .int 5 1), (2, .int 5 0)])]
def indexHdr : TVal := .struct [(1, .int 5 1), (2, .int 5 0), (3, .int 5 0), (6, .struct [])]
def v2Hdr (n u z : Nat) : TVal :=
  .struct [(1, .int 5 3), (2, .int 5 u), (3, .int 5 z),
           (8, .struct [(1, .int 5 n), (2, .int 5 0), (3, .int 5 n), (4, .int 5 0), (5, .int 5 0), (6, .int 5 0)])]

theorem dictHdr_ok : dictHdr.ecode = tStruct ∧ dictHdr.WF ∧ dictHdr.need ≤ dictHdr.enc.length + 2 ∧
    ∃ ph, decPHdr dictHdr = some ph ∧ ph.ty = 2 := by
  refine ⟨rfl, by simp [dictHdr, TVal.WF, WFFields, tI32, tI64], ?_, ?_⟩
  · have := need_le dictHdr
    have hd : dictHdr.dep = 2 := by simp [dictHdr, TVal.dep, depFields]
    omega
  · exact ⟨_, by simp [decPHdr, dictHdr, TVal.fieldsOf, getI32, getStruct, List.lookup]; rfl, rfl⟩

theorem indexHdr_ok : indexHdr.ecode = tStruct ∧ indexHdr.WF ∧ indexHdr.need ≤ indexHdr.enc.length + 2 ∧
    ∃ ph, decPHdr indexHdr = some ph ∧ ph.ty = 1 := by
  refine ⟨rfl, by simp [indexHdr, TVal.WF, WFFields, tI32, tI64], ?_, ?_⟩
  · have := need_le indexHdr
    have hd : indexHdr.dep = 2 := by simp [indexHdr, TVal.dep, depFields]
    omega
  · exact ⟨_, by simp [decPHdr, indexHdr, TVal.fieldsOf, getI32, getStruct, List.lookup]; rfl, rfl⟩

theorem v2Hdr_ok (n u z : Nat) : (v2Hdr n u z).ecode = tStruct ∧ (v2Hdr n u z).WF ∧
    (v2Hdr n u z).need ≤ (v2Hdr n u z).enc.length + 2 ∧ ∃ ph, decPHdr (v2Hdr n u z) = some ph ∧ ph.ty = 3 := by
  refine ⟨rfl, by simp [v2Hdr, TVal.WF, WFFields, tI32, tI64], ?_, ?_⟩
  · have := need_le (v2Hdr n u z)
    have hd : (v2Hdr n u z).dep = 2 := by simp [v2Hdr, TVal.dep, depFields]
    omega
  · exact ⟨_, by simp [decPHdr, v2Hdr, TVal.fieldsOf, getI32, getStruct, List.lookup]; rfl, rfl⟩

theorem checkPage_ty (ph : PHdr) (d r : Bool) (h : ph.ty ≠ 0) : checkPage ph d r = false := by
  unfold checkPage
  simp [h]

theorem checkPage_enc (u z n : Int) (ve de re : Nat) (so : Option (List (Nat × TVal))) (d r : Bool)
    (h : ve ≠ 0 ∨ (d = true ∧ de ≠ 3) ∨ (r = true ∧ re ≠ 3)) :
    checkPage { ty := 0, uncompressed := u, compressed := z, dph := some (n, (ve : Nat), (de : Nat), (re : Nat), so),
                hasDict := false, hasIndex := false, hasV2 := false } d r = false := by
  rw [Bool.eq_false_iff]
  intro hc
  obtain ⟨_, nv, enc, denc, renc, st, hd, h1, h2, h3⟩ := (C18.checkPage_spec _ _ _).mp hc
  simp only [Option.some.injEq, Prod.mk.injEq] at hd
  obtain ⟨_, rfl, rfl, rfl, _⟩ := hd
  rcases h with h | ⟨hd', h⟩ | ⟨hr', h⟩
  · omega
  · have := h2 hd'; omega
  · have := h3 hr'; omega

/-- **The first thing the reader meets at a mutated page is a thrift struct it decodes as a page header and
then refuses** (for every mutation, the bytes of the page start with an encoded struct `h` that
`PageHeader.Read` accepts; if the mutation is one `checkPage … defs reps` is there to catch, the check fails). -/
theorem specPageBytes_head (cfg : SWCfg) (c : Col) (codec : Nat) (compress : Bytes → Bytes) (m : Mutation) (cs : Choices)
    (es : PageEntries) (defs reps : Bool) :
    ∃ (h : TVal) (tail : Bytes), (specPageBytes cfg c codec compress m cs es).1 = h.enc ++ tail ∧
      h.ecode = tStruct ∧ h.WF ∧ h.need ≤ h.enc.length + 2 ∧
      ∃ ph, decPHdr h = some ph ∧ (m.pageBad defs reps → checkPage ph defs reps = false) := by
  have hmu : ∀ ve de re : Nat, (ve ≠ 0 ∨ (defs = true ∧ de ≠ 3) ∨ (reps = true ∧ re ≠ 3)) →
      ∃ ph, decPHdr (muHdr cfg c es (spRaw cfg c cs es).length (spComp codec compress (spRaw cfg c cs es)).length ve de re) = some ph ∧
        checkPage ph defs reps = false := by
    intro ve de re hb
    obtain ⟨so, hso⟩ := decPHdr_muHdr cfg c es (spRaw cfg c cs es).length (spComp codec compress (spRaw cfg c cs es)).length ve de re
    exact ⟨_, hso, checkPage_enc _ _ _ _ _ _ _ _ _ hb⟩
  have hsp : ∃ ph, decPHdr (muHdr cfg c es (spRaw cfg c cs es).length (spComp codec compress (spRaw cfg c cs es)).length 0 (cfg.defLabel c) (cfg.repLabel c)) = some ph :=
    let ⟨so, hso⟩ := decPHdr_muHdr cfg c es (spRaw cfg c cs es).length (spComp codec compress (spRaw cfg c cs es)).length 0 (cfg.defLabel c) (cfg.repLabel c)
    ⟨_, hso⟩
  cases m with
  | none =>
    obtain ⟨ph, hph⟩ := hsp
    exact ⟨muHdr cfg c es (spRaw cfg c cs es).length (spComp codec compress (spRaw cfg c cs es)).length 0 (cfg.defLabel c) (cfg.repLabel c),
      spComp codec compress (spRaw cfg c cs es), rfl, rfl, muHdr_wf .., muHdr_need .., ph, hph, fun h => absurd h (by simp [Mutation.pageBad])⟩
  | codec k =>
    obtain ⟨ph, hph⟩ := hsp
    exact ⟨muHdr cfg c es (spRaw cfg c cs es).length (spComp codec compress (spRaw cfg c cs es)).length 0 (cfg.defLabel c) (cfg.repLabel c),
      spComp codec compress (spRaw cfg c cs es), rfl, rfl, muHdr_wf .., muHdr_need .., ph, hph, fun h => absurd h (by simp [Mutation.pageBad])⟩
  | dictPage =>
    obtain ⟨h1, h2, h3, ph, h4, h5⟩ := dictHdr_ok
    exact ⟨dictHdr, [1, 0, 0, 0] ++ (spHdr cfg c es (spRaw cfg c cs es).length (spComp codec compress (spRaw cfg c cs es)).length).enc ++
        spComp codec compress (spRaw cfg c cs es),
      (show ((dictHdr.enc ++ [1, 0, 0, 0]) ++ (spHdr cfg c es (spRaw cfg c cs es).length (spComp codec compress (spRaw cfg c cs es)).length).enc) ++
        spComp codec compress (spRaw cfg c cs es) = _ by simp only [List.append_assoc]), h1, h2, h3, ph, h4,
      fun _ => checkPage_ty ph _ _ (by rw [h5]; decide)⟩
  | indexPage =>
    obtain ⟨h1, h2, h3, ph, h4, h5⟩ := indexHdr_ok
    exact ⟨indexHdr, (spHdr cfg c es (spRaw cfg c cs es).length (spComp codec compress (spRaw cfg c cs es)).length).enc ++
        spComp codec compress (spRaw cfg c cs es),
      (show (indexHdr.enc ++ (spHdr cfg c es (spRaw cfg c cs es).length (spComp codec compress (spRaw cfg c cs es)).length).enc) ++
        spComp codec compress (spRaw cfg c cs es) = _ by rw [List.append_assoc]), h1, h2, h3, ph, h4,
      fun _ => checkPage_ty ph _ _ (by rw [h5]; decide)⟩
  | v2Page =>
    obtain ⟨h1, h2, h3, ph, h4, h5⟩ := v2Hdr_ok es.length (spRaw cfg c cs es).length (spComp codec compress (spRaw cfg c cs es)).length
    exact ⟨_, spComp codec compress (spRaw cfg c cs es), rfl, h1, h2, h3, ph, h4,
      fun _ => checkPage_ty ph _ _ (by rw [h5]; decide)⟩
  | valueEncoding e =>
    by_cases hb : e ≠ 0
    · obtain ⟨ph, hph, hck⟩ := hmu e 3 3 (Or.inl hb)
      exact ⟨_, spComp codec compress (spRaw cfg c cs es), rfl, rfl, muHdr_wf .., muHdr_need .., ph, hph, fun _ => hck⟩
    · obtain ⟨so, hso⟩ := decPHdr_muHdr cfg c es (spRaw cfg c cs es).length (spComp codec compress (spRaw cfg c cs es)).length e 3 3
      exact ⟨_, spComp codec compress (spRaw cfg c cs es), rfl, rfl, muHdr_wf .., muHdr_need .., _, hso, fun h => absurd h hb⟩
  | defEncoding e =>
    by_cases hb : defs = true ∧ e ≠ 3
    · obtain ⟨ph, hph, hck⟩ := hmu 0 e 3 (Or.inr (Or.inl hb))
      exact ⟨_, spComp codec compress (spRaw cfg c cs es), rfl, rfl, muHdr_wf .., muHdr_need .., ph, hph, fun _ => hck⟩
    · obtain ⟨so, hso⟩ := decPHdr_muHdr cfg c es (spRaw cfg c cs es).length (spComp codec compress (spRaw cfg c cs es)).length 0 e 3
      exact ⟨_, spComp codec compress (spRaw cfg c cs es), rfl, rfl, muHdr_wf .., muHdr_need .., _, hso, fun h => absurd h hb⟩
  | repEncoding e =>
    by_cases hb : reps = true ∧ e ≠ 3
    · obtain ⟨ph, hph, hck⟩ := hmu 0 3 e (Or.inr (Or.inr hb))
      exact ⟨_, spComp codec compress (spRaw cfg c cs es), rfl, rfl, muHdr_wf .., muHdr_need .., ph, hph, fun _ => hck⟩
    · obtain ⟨so, hso⟩ := decPHdr_muHdr cfg c es (spRaw cfg c cs es).length (spComp codec compress (spRaw cfg c cs es)).length 0 3 e
      exact ⟨_, spComp codec compress (spRaw cfg c cs es), rfl, rfl, muHdr_wf .., muHdr_need .., _, hso, fun h => absurd h hb⟩

/-- the reader at a page written with a mutation `checkPage … defs reps` catches: header read, header
decoded, check failed -/
theorem mutPage_refused (cfg : SWCfg) (c : Col) (codec : Nat) (compress : Bytes → Bytes) (m : Mutation) (cs : Choices)
    (es : PageEntries) (defs reps : Bool) (hbad : m.pageBad defs reps) (pre rest : Bytes) :
    ∃ t s' ph, (Src.mk (pre ++ (specPageBytes cfg c codec compress m cs es).1 ++ rest) pre.length).readStruct = .ok (t, s') ∧
      decPHdr t = some ph ∧ checkPage ph defs reps = false := by
  obtain ⟨h, tail, e1, e2, e3, e4, ph, e5, e6⟩ := specPageBytes_head cfg c codec compress m cs es defs reps
  rw [e1]
  refine ⟨h, Src.mk (pre ++ (h.enc ++ tail) ++ rest) (pre.length + h.enc.length), ph, ?_, e5, e6 hbad⟩
  have := readStruct_enc h e2 e3 e4 pre (tail ++ rest)
  simp only [List.append_assoc] at this ⊢
  exact this

/-- the choices a page consumes do not depend on the mutation -/
theorem specPageBytes_cs (cfg : SWCfg) (c : Col) (codec : Nat) (compress : Bytes → Bytes) (m : Mutation) (cs : Choices)
    (es : PageEntries) : (specPageBytes cfg c codec compress m cs es).2.2.2 = (spDefSeg cfg c cs es).2 := by
  cases m <;> rfl

/-- a page is never empty -/
theorem specPageBytes_pos (cfg : SWCfg) (c : Col) (codec : Nat) (compress : Bytes → Bytes) (m : Mutation) (cs : Choices)
    (es : PageEntries) : 1 ≤ (specPageBytes cfg c codec compress m cs es).1.length := by
  obtain ⟨h, tail, e1, _⟩ := specPageBytes_head cfg c codec compress m cs es false false
  rw [e1, List.length_append]
  have := enc_length_pos h
  omega

/-! ## Part C: what `specWriteLog` emits under a mutation -/

/-- a mutation elsewhere (another row group, another column, an earlier page) leaves `emit` as it is -/
theorem emit_off (cfg : SWCfg) (compress : Nat → Bytes → Bytes) (mu : MutAt) (rgi : Nat) (c : Col) (codec ci : Nat) :
    ∀ (pages : List PageEntries) (pi : Nat) (cs : Choices), (mu.rg ≠ rgi ∨ mu.col ≠ ci ∨ mu.page < pi) →
      specWriteLog.chunks.emit cfg compress (some mu) rgi c codec ci pages pi cs =
        specWriteLog.chunks.emit cfg compress none rgi c codec ci pages pi cs
  | [], pi, cs, _ => by rw [specWriteLog.chunks.emit, specWriteLog.chunks.emit]
  | p :: ps, pi, cs, h => by
    have ih := emit_off cfg compress mu rgi c codec ci ps (pi + 1) (spDefSeg cfg c cs p).2 (by omega)
    have hc : ¬ (mu.rg = rgi ∧ mu.col = ci ∧ mu.page = pi) := by omega
    rw [specWriteLog.chunks.emit, specWriteLog.chunks.emit, if_neg hc]
    simp only [specPageBytes_spPage, ih]

/-- the bytes of the pages of a chunk whose page number `k` is written with the mutation `m` -/
def spEmitMut (cfg : SWCfg) (c : Col) (codec : Nat) (compress : Bytes → Bytes) (m : Mutation) :
    Nat → List PageEntries → Choices → Bytes
  | _, [], _ => []
  | 0, p :: ps, cs =>
    (specPageBytes cfg c codec compress m cs p).1 ++ (spEmit cfg c codec compress ps (spDefSeg cfg c cs p).2).1
  | k+1, p :: ps, cs =>
    (spPage cfg c codec compress cs p).1 ++ (spPage cfg c codec compress cs p).2 ++
      spEmitMut cfg c codec compress m k ps (spDefSeg cfg c cs p).2

/-- `emit` in the mutated chunk: bytes, and the choices left (those of the unmutated writer) -/
theorem emit_mut (cfg : SWCfg) (compress : Nat → Bytes → Bytes) (mu : MutAt) (rgi : Nat) (c : Col) (codec ci : Nat)
    (hrg : mu.rg = rgi) (hcol : mu.col = ci) :
    ∀ (pages : List PageEntries) (pi : Nat) (cs : Choices), pi ≤ mu.page →
      (specWriteLog.chunks.emit cfg compress (some mu) rgi c codec ci pages pi cs).1 =
        spEmitMut cfg c codec (compress codec) mu.m (mu.page - pi) pages cs ∧
      (specWriteLog.chunks.emit cfg compress (some mu) rgi c codec ci pages pi cs).2.2.2 =
        (spEmit cfg c codec (compress codec) pages cs).2
  | [], pi, cs, _ => by
    rw [specWriteLog.chunks.emit]
    cases mu.page - pi <;> exact ⟨rfl, rfl⟩
  | p :: ps, pi, cs, h => by
    rw [specWriteLog.chunks.emit]
    by_cases hp : mu.page = pi
    · have hoff := emit_off cfg compress mu rgi c codec ci ps (pi + 1) (spDefSeg cfg c cs p).2 (by omega)
      obtain ⟨e1, e2⟩ := emit_none cfg compress rgi c codec ci ps (pi + 1) (spDefSeg cfg c cs p).2
      rw [if_pos ⟨hrg, hcol, hp⟩, show mu.page - pi = 0 by omega]
      have hcs := specPageBytes_cs cfg c codec (compress codec) mu.m cs p
      simp only [spEmitMut, spEmit]
      generalize specPageBytes cfg c codec (compress codec) mu.m cs p = r at hcs ⊢
      obtain ⟨b, raw, clen, cs1⟩ := r
      simp only at hcs
      subst hcs
      simp only [hoff, e1, e2, and_self]
    · have ih := emit_mut cfg compress mu rgi c codec ci hrg hcol ps (pi + 1) (spDefSeg cfg c cs p).2 (by omega)
      have hc : ¬ (mu.rg = rgi ∧ mu.col = ci ∧ mu.page = pi) := fun h => hp h.2.2
      obtain ⟨k, hk⟩ : ∃ k, mu.page - pi = k + 1 := ⟨mu.page - pi - 1, by omega⟩
      have hk' : mu.page - (pi + 1) = k := by omega
      rw [if_neg hc, hk]
      rw [hk'] at ih
      simp only [specPageBytes_spPage, spEmitMut, spEmit, ih.1, ih.2, List.append_assoc, and_self]

theorem spEmitMut_length_ge (cfg : SWCfg) (c : Col) (codec : Nat) (compress : Bytes → Bytes) (m : Mutation) :
    ∀ (k : Nat) (ess : List PageEntries) (cs : Choices), ess.length ≤ (spEmitMut cfg c codec compress m k ess cs).length
  | _, [], _ => by simp [spEmitMut]
  | 0, p :: ps, cs => by
    have h1 := specPageBytes_pos cfg c codec compress m cs p
    have h2 := spEmit_length_ge cfg c codec compress ps (spDefSeg cfg c cs p).2
    simp only [spEmitMut, List.length_append, List.length_cons]
    omega
  | k+1, p :: ps, cs => by
    have ih := spEmitMut_length_ge cfg c codec compress m k ps (spDefSeg cfg c cs p).2
    have := spPage_hdr_pos cfg c codec compress cs p
    simp only [spEmitMut, List.length_append, List.length_cons]
    omega

/-- a codec mutation leaves the page bytes alone -/
theorem spEmitMut_codec (cfg : SWCfg) (c : Col) (codec : Nat) (compress : Bytes → Bytes) (kc : Nat) :
    ∀ (k : Nat) (ess : List PageEntries) (cs : Choices),
      spEmitMut cfg c codec compress (.codec kc) k ess cs = (spEmit cfg c codec compress ess cs).1
  | k, [], _ => by cases k <;> rfl
  | 0, p :: ps, cs => rfl
  | k+1, p :: ps, cs => by
    simp only [spEmitMut, spEmit, spEmitMut_codec cfg c codec compress kc k ps]

/-! ## Part D: the typed `Read` of the mutated chunk fails with an error -/

/-- `RequiredField.DoRead` on pages the `k`-th of which carries a mutation `checkPage` catches: the pages
before it are read, then the loop returns an error -/
theorem requiredDoRead_mutPages (dc : Decomp) (cfg : SWCfg) (c : Col) (codec : Nat) (compress : Bytes → Bytes)
    (hk : ∀ raw, SpCodecOK dc codec compress raw) (pg : PageMeta) (hcodec : pg.codec = (codec : Int))
    (m : Mutation) (hbad : m.pageBad false false) :
    ∀ (k : Nat) (ess : List PageEntries) (cs : Choices) (pre post : Bytes) (fuel : Nat) (nRead : Int) (out : Bytes)
      (sizes : List Int), k < ess.length → ess.length < fuel → (∀ es ∈ ess, es ≠ []) →
      nRead + (((ess.map List.length).sum : Nat) : Int) = pg.n →
      requiredDoRead dc pg fuel (Src.mk (pre ++ spEmitMut cfg c codec compress m k ess cs ++ post) pre.length) nRead out sizes =
        .error .err
  | _, [], _, _, _, _, _, _, _, hk', _, _, _ => by simp at hk'
  | k, es :: ess, cs, pre, post, fuel, nRead, out, sizes, hk', hf, hg, hn => by
    cases fuel with
    | zero => omega
    | succ f =>
      have hne := hg es List.mem_cons_self
      have hpos : 1 ≤ es.length := by
        cases es with
        | nil => exact absurd rfl hne
        | cons a b => simp
      simp only [List.map_cons, List.sum_cons, Int.natCast_add] at hn
      cases k with
      | zero =>
        obtain ⟨t, s', ph, h1, h2, h3⟩ := mutPage_refused cfg c codec compress m cs es false false hbad pre
          ((spEmit cfg c codec compress ess (spDefSeg cfg c cs es).2).1 ++ post)
        have hfile : pre ++ spEmitMut cfg c codec compress m 0 (es :: ess) cs ++ post =
            pre ++ (specPageBytes cfg c codec compress m cs es).1 ++ ((spEmit cfg c codec compress ess (spDefSeg cfg c cs es).2).1 ++ post) := by
          simp only [spEmitMut, List.append_assoc]
        rw [hfile]
        exact C18.required_refuses dc pg f _ s' nRead out sizes t ph (by omega) h1 h2 h3
      | succ k =>
        generalize hcs' : (spDefSeg cfg c cs es).2 = cs'
        have hfile : pre ++ spEmitMut cfg c codec compress m (k + 1) (es :: ess) cs ++ post =
            pre ++ (spPage cfg c codec compress cs es).1 ++ (spPage cfg c codec compress cs es).2 ++
              (spEmitMut cfg c codec compress m k ess cs' ++ post) := by
          simp only [spEmitMut, hcs', List.append_assoc]
        have hfile2 : pre ++ spEmitMut cfg c codec compress m (k + 1) (es :: ess) cs ++ post =
            (pre ++ (spPage cfg c codec compress cs es).1 ++ (spPage cfg c codec compress cs es).2) ++
              spEmitMut cfg c codec compress m k ess cs' ++ post := by
          simp only [spEmitMut, hcs', List.append_assoc]
        have hl2 : (pre ++ (spPage cfg c codec compress cs es).1 ++ (spPage cfg c codec compress cs es).2).length =
            pre.length + ((spPage cfg c codec compress cs es).1.length + (spPage cfg c codec compress cs es).2.length) := by
          simp only [List.length_append]; omega
        have ih := requiredDoRead_mutPages dc cfg c codec compress hk pg hcodec m hbad k ess cs'
          (pre ++ (spPage cfg c codec compress cs es).1 ++ (spPage cfg c codec compress cs es).2) post f
          (nRead + (es.length : Int)) (out ++ spRaw cfg c cs es) (sizes ++ [(es.length : Int)])
          (by simp only [List.length_cons] at hk'; omega) (by simp only [List.length_cons] at hf; omega)
          (fun e he => hg e (List.mem_cons_of_mem _ he)) (by omega)
        rw [← hfile2, hl2] at ih
        have hstep := requiredDoRead_spStep dc cfg c codec compress cs es (hk _) pg hcodec pre
          (spEmitMut cfg c codec compress m k ess cs' ++ post) f nRead out sizes (by omega)
        rw [← hfile] at hstep
        rw [hstep, ih]

/-- `OptionalField.DoRead` on pages the `k`-th of which carries a mutation `checkPage` catches -/
theorem optionalDoRead_mutPages (dc : Decomp) (cfg : SWCfg) (c : Col) (codec : Nat) (compress : Bytes → Bytes)
    (hreq : c.isRequired = false) (hk : ∀ raw, SpCodecOK dc codec compress raw) (pg : PageMeta)
    (hcodec : pg.codec = (codec : Int)) (m : Mutation) (hbad : m.pageBad true (decide (c.maxRep > 0))) :
    ∀ (k : Nat) (ess : List PageEntries) (cs : Choices) (pre post : Bytes) (fuel : Nat) (nRead : Int) (buf : ColBuf)
      (out : Bytes) (sizes : List Int), k < ess.length → ess.length < fuel →
      (∀ es ∈ ess, WFPage c es ∧ es.length + 8 ≤ 2 ^ 28) →
      nRead + (((spEmitMut cfg c codec compress m k ess cs).length : Nat) : Int) = pg.size →
      optionalDoRead dc c pg fuel (Src.mk (pre ++ spEmitMut cfg c codec compress m k ess cs ++ post) pre.length) nRead buf out sizes =
        .error .err
  | _, [], _, _, _, _, _, _, _, _, hk', _, _, _ => by simp at hk'
  | k, es :: ess, cs, pre, post, fuel, nRead, buf, out, sizes, hk', hf, hg, hn => by
    cases fuel with
    | zero => omega
    | succ f =>
      obtain ⟨hwf, hl28⟩ := hg es List.mem_cons_self
      cases k with
      | zero =>
        obtain ⟨t, s', ph, h1, h2, h3⟩ := mutPage_refused cfg c codec compress m cs es true (decide (c.maxRep > 0)) hbad pre
          ((spEmit cfg c codec compress ess (spDefSeg cfg c cs es).2).1 ++ post)
        have hfile : pre ++ spEmitMut cfg c codec compress m 0 (es :: ess) cs ++ post =
            pre ++ (specPageBytes cfg c codec compress m cs es).1 ++ ((spEmit cfg c codec compress ess (spDefSeg cfg c cs es).2).1 ++ post) := by
          simp only [spEmitMut, List.append_assoc]
        have hpos := specPageBytes_pos cfg c codec compress m cs es
        simp only [spEmitMut, List.length_append, Int.natCast_add] at hn
        rw [hfile]
        exact C18.optional_refuses dc c pg f _ s' nRead buf out sizes t ph (by omega) h1 h2 h3
      | succ k =>
        have hpos := spPage_hdr_pos cfg c codec compress cs es
        generalize hcs' : (spDefSeg cfg c cs es).2 = cs'
        have hfile : pre ++ spEmitMut cfg c codec compress m (k + 1) (es :: ess) cs ++ post =
            pre ++ (spPage cfg c codec compress cs es).1 ++ (spPage cfg c codec compress cs es).2 ++
              (spEmitMut cfg c codec compress m k ess cs' ++ post) := by
          simp only [spEmitMut, hcs', List.append_assoc]
        have hfile2 : pre ++ spEmitMut cfg c codec compress m (k + 1) (es :: ess) cs ++ post =
            (pre ++ (spPage cfg c codec compress cs es).1 ++ (spPage cfg c codec compress cs es).2) ++
              spEmitMut cfg c codec compress m k ess cs' ++ post := by
          simp only [spEmitMut, hcs', List.append_assoc]
        have hl2 : (pre ++ (spPage cfg c codec compress cs es).1 ++ (spPage cfg c codec compress cs es).2).length =
            pre.length + ((spPage cfg c codec compress cs es).1.length + (spPage cfg c codec compress cs es).2.length) := by
          simp only [List.length_append]; omega
        have hlen : (spEmitMut cfg c codec compress m (k + 1) (es :: ess) cs).length =
            (spPage cfg c codec compress cs es).1.length + (spPage cfg c codec compress cs es).2.length +
              (spEmitMut cfg c codec compress m k ess cs').length := by
          simp only [spEmitMut, hcs', List.length_append]
        rw [hlen] at hn
        have ih := optionalDoRead_mutPages dc cfg c codec compress hreq hk pg hcodec m hbad k ess cs'
          (pre ++ (spPage cfg c codec compress cs es).1 ++ (spPage cfg c codec compress cs es).2) post f
          (nRead + ((((spPage cfg c codec compress cs es).1.length + (spPage cfg c codec compress cs es).2.length : Nat)) : Int))
          (addLevels c buf es) (out ++ plainValues c.ty (nonNull es)) (sizes ++ [((nonNull es).length : Int)])
          (by simp only [List.length_cons] at hk'; omega) (by simp only [List.length_cons] at hf; omega)
          (fun e he => hg e (List.mem_cons_of_mem _ he)) (by omega)
        rw [← hfile2, hl2] at ih
        have hstep := optionalDoRead_spStep dc cfg c codec compress cs es hreq hwf hl28 (hk _) pg hcodec pre
          (spEmitMut cfg c codec compress m k ess cs' ++ post) f nRead buf out sizes (by omega)
        rw [← hfile] at hstep
        rw [hstep, ih]

/-- the first page of a chunk whose metadata declare a codec the reader does not implement: `pageData` refuses -/
theorem requiredDoRead_codec (dc : Decomp) (cfg : SWCfg) (c : Col) (codec : Nat) (compress : Bytes → Bytes) (pg : PageMeta)
    (h0 : pg.codec ≠ 0) (h1 : pg.codec ≠ 1) (h2 : pg.codec ≠ 2) (cs : Choices) (es : PageEntries) (pre rest : Bytes)
    (fuel : Nat) (nRead : Int) (out : Bytes) (sizes : List Int) (hlt : nRead < pg.n) :
    requiredDoRead dc pg (fuel + 1)
        (Src.mk (pre ++ (spPage cfg c codec compress cs es).1 ++ (spPage cfg c codec compress cs es).2 ++ rest) pre.length)
        nRead out sizes = .error .err := by
  obtain ⟨so, hso⟩ := decPHdr_spHdr cfg c es (spRaw cfg c cs es).length (spComp codec compress (spRaw cfg c cs es)).length
  have hrs := readStruct_spHdr cfg c es (spRaw cfg c cs es).length (spComp codec compress (spRaw cfg c cs es)).length pre
    ((spPage cfg c codec compress cs es).2 ++ rest)
  simp only [spPage, List.append_assoc] at hrs ⊢
  rw [requiredDoRead, if_pos hlt]
  simp only [bind, Except.bind, hrs, hso, pure, Except.pure, checkPage_spPH_required, Bool.not_true,
    Bool.false_eq_true, if_false, numValuesOf_spPH, C18.codec_refused dc _ _ pg.codec h0 h1 h2]

theorem optionalDoRead_codec (dc : Decomp) (cfg : SWCfg) (c : Col) (codec : Nat) (compress : Bytes → Bytes) (pg : PageMeta)
    (h0 : pg.codec ≠ 0) (h1 : pg.codec ≠ 1) (h2 : pg.codec ≠ 2) (cs : Choices) (es : PageEntries) (pre rest : Bytes)
    (fuel : Nat) (nRead : Int) (buf : ColBuf) (out : Bytes) (sizes : List Int) (hlt : nRead < pg.size) :
    optionalDoRead dc c pg (fuel + 1)
        (Src.mk (pre ++ (spPage cfg c codec compress cs es).1 ++ (spPage cfg c codec compress cs es).2 ++ rest) pre.length)
        nRead buf out sizes = .error .err := by
  obtain ⟨so, hso⟩ := decPHdr_spHdr cfg c es (spRaw cfg c cs es).length (spComp codec compress (spRaw cfg c cs es)).length
  have hrs := readStruct_spHdr cfg c es (spRaw cfg c cs es).length (spComp codec compress (spRaw cfg c cs es)).length pre
    ((spPage cfg c codec compress cs es).2 ++ rest)
  simp only [spPage, List.append_assoc] at hrs ⊢
  rw [optionalDoRead, if_pos hlt]
  -- whether or not `checkPage` accepts the labels (nothing is assumed about the column here), the result is an error
  simp only [bind, Except.bind, hrs, hso, pure, Except.pure, C18.codec_refused dc _ _ pg.codec h0 h1 h2, ite_self]

/-- the typed `Read` started at the chunk's first byte — wherever the chunk lies in the file, whatever the
buffer holds — returns an error -/
def ChunkFails (dc : Decomp) (g : GChunk) : Prop :=
  ∀ (pre post : Bytes) (buf : ColBuf),
    readChunk dc g.col g.pg buf (Src.mk (pre ++ g.bytes ++ post) pre.length) = .error .err

/-- the codec id the chunk's metadata declare -/
def muCodecOf (m : Mutation) (codec : Nat) : Nat :=
  match m with
  | .codec k => k
  | _ => codec

/-- the pages (entries per page) of the chunk of column `ci` of the row group `recs`, as split with the
choices `cs` -/
def spPagesOf (recs : List Rec) (ci : Nat) (cs : Choices) : List PageEntries :=
  (splitPages ((recs.map fun r => r.getD ci []).length + 1) cs (recs.map fun r => r.getD ci [])).1

/-- the mutated chunk: column `c` (index `ci`, codec `codec`) of the row group `recs`, written with the
choices `cs`, page `mu.page` carrying `mu.m` -/
def muGChunk (cfg : SWCfg) (compress : Nat → Bytes → Bytes) (mu : MutAt) (recs : List Rec) (c : Col) (codec ci : Nat)
    (cs : Choices) : GChunk :=
  let perRec := recs.map fun r => r.getD ci []
  let sp := splitPages (perRec.length + 1) cs perRec
  { col := c,
    pg := { n := (((perRec.map List.length).sum : Nat) : Int),
            size := (((spEmitMut cfg c codec (compress codec) mu.m mu.page sp.1 sp.2).length : Nat) : Int),
            codec := ((muCodecOf mu.m codec : Nat) : Int) },
    bytes := spEmitMut cfg c codec (compress codec) mu.m mu.page sp.1 sp.2,
    es := perRec.flatten }

/-- **The mutated chunk is refused.**  Whatever the choices (page split, run segmentation), wherever the
chunk lies: if one existing page of it carries a mutation that is unsupported for the column — or the
chunk's metadata name a codec id above 2 — the typed `Read` of the chunk reads the pages before it and then
returns an error (not a panic, and no buffer is returned). -/
theorem chunkFails_muGChunk (dc : Decomp) (cfg : SWCfg) (compress : Nat → Bytes → Bytes) (mu : MutAt) (recs : List Rec)
    (c : Col) (codec ci : Nat) (cs : Choices) (hk : ∀ raw, SpCodecOK dc codec (compress codec) raw)
    (hrec : ∀ r ∈ recs, RecColOK c (r.getD ci [])) (hmd : c.maxDef ≤ 15)
    (hlen : (recs.flatMap (·.getD ci [])).length + 8 ≤ 2 ^ 28)
    (hun : mu.m.unsupportedFor c)
    (hpage : mu.page < (spPagesOf recs ci cs).length ∨ (mu.m.isCodec = true ∧ spPagesOf recs ci cs ≠ [])) :
    ChunkFails dc (muGChunk cfg compress mu recs c codec ci cs) := by
  intro pre post buf
  have hfm : (recs.map fun r => r.getD ci []).flatten = recs.flatMap (·.getD ci []) := by
    rw [List.flatMap_def]
  have hok := splitPages_ok c ((recs.map fun r => r.getD ci []).length + 1) cs (recs.map fun r => r.getD ci []) (by omega)
    (by intro r hr; obtain ⟨r', hr', rfl⟩ := List.mem_map.mp hr; exact hrec r' hr') hmd (by rw [hfm]; exact hlen)
  have hfl := (splitPages_spec ((recs.map fun r => r.getD ci []).length + 1) cs (recs.map fun r => r.getD ci []) (by omega)).1
  have hnv : ((splitPages ((recs.map fun r => r.getD ci []).length + 1) cs (recs.map fun r => r.getD ci [])).1.map List.length).sum =
      ((recs.map fun r => r.getD ci []).map List.length).sum := by
    rw [← List.length_flatten, ← List.length_flatten, hfl]
  simp only [spPagesOf] at hpage
  simp only [muGChunk]
  generalize splitPages ((recs.map fun r => r.getD ci []).length + 1) cs (recs.map fun r => r.getD ci []) = sp at hok hnv hpage ⊢
  rw [← hnv]
  obtain ⟨ess, cs'⟩ := sp
  simp only at hok hpage ⊢
  have hfuel : ess.length < (pre ++ spEmitMut cfg c codec (compress codec) mu.m mu.page ess cs' ++ post).length + 2 := by
    have := spEmitMut_length_ge cfg c codec (compress codec) mu.m mu.page ess cs'
    simp only [List.length_append]; omega
  by_cases hcd : mu.m.isCodec = true
  · -- the codec id in the metadata
    obtain ⟨kc, hkc⟩ : ∃ kc, mu.m = .codec kc := by
      cases hm : mu.m <;> simp [hm, Mutation.isCodec] at hcd
      exact ⟨_, rfl⟩
    rw [hkc] at hun
    simp only [Mutation.unsupportedFor] at hun
    rw [hkc, spEmitMut_codec]
    simp only [muCodecOf]
    cases ess with
    | nil => simp at hpage
    | cons es ess =>
      clear hpage
      have hne := (hok es List.mem_cons_self).ne
      have hpos : 1 ≤ es.length := by
        cases es with
        | nil => exact absurd rfl hne
        | cons a b => simp
      have hfile : pre ++ (spEmit cfg c codec (compress codec) (es :: ess) cs').1 ++ post =
          pre ++ (spPage cfg c codec (compress codec) cs' es).1 ++ (spPage cfg c codec (compress codec) cs' es).2 ++
            ((spEmit cfg c codec (compress codec) ess (spDefSeg cfg c cs' es).2).1 ++ post) := by
        rw [spEmit_cons]; simp only [List.append_assoc]
      have hhdr := spPage_hdr_pos cfg c codec (compress codec) cs' es
      unfold readChunk
      rw [hfile]
      by_cases hreq : c.isRequired = true
      · rw [if_pos hreq]
        rw [requiredDoRead_codec dc cfg c codec (compress codec) _ (by simp only; omega) (by simp only; omega)
          (by simp only; omega) cs' es pre _ _ 0 [] []
          (by simp only [List.map_cons, List.sum_cons]; omega)]
        rfl
      · rw [if_neg hreq]
        rw [optionalDoRead_codec dc cfg c codec (compress codec) _ (by simp only; omega) (by simp only; omega)
          (by simp only; omega) cs' es pre _ _ 0 buf [] []
          (by rw [spEmit_cons]; simp only [List.length_append]; omega)]
        rfl
  · -- a page
    have hcd' : mu.m.isCodec = false := by simpa using hcd
    have hpage : mu.page < ess.length := by
      rcases hpage with h | h
      · exact h
      · exact absurd h.1 hcd
    have hbad := pageBad_of_unsupported mu.m c hun hcd'
    have hco : muCodecOf mu.m codec = codec := by
      cases hm : mu.m <;> simp [hm, Mutation.isCodec, muCodecOf] at hcd' ⊢
    rw [hco]
    unfold readChunk
    by_cases hreq : c.isRequired = true
    · rw [if_pos hreq]
      have hbad' : mu.m.pageBad false false := by
        rw [hreq, maxRep_zero_of_required c hreq] at hbad
        exact hbad
      rw [requiredDoRead_mutPages dc cfg c codec (compress codec) hk _ rfl mu.m hbad' mu.page ess cs' pre post _ 0 [] []
        hpage hfuel (fun es hes => (hok es hes).ne) (by simp only; omega)]
      rfl
    · have hreq' : c.isRequired = false := by simpa using hreq
      rw [if_neg hreq]
      have hbad' : mu.m.pageBad true (decide (c.maxRep > 0)) := by
        rw [hreq'] at hbad
        exact hbad
      rw [optionalDoRead_mutPages dc cfg c codec (compress codec) hreq' hk _ rfl mu.m hbad' mu.page ess cs' pre post _ 0 buf [] []
        hpage hfuel (fun es hes => ⟨(hok es hes).wf, (hok es hes).len⟩) (by simp only; omega)]
      rfl

/-! ## Part E: the layout of the mutated file -/

/-- the codec id in the metadata of the chunk (row group `rgi`, column `ci`) -/
def muCodec (mu : MutAt) (rgi ci codec : Nat) : Nat :=
  if mu.rg = rgi ∧ mu.col = ci then muCodecOf mu.m codec else codec

def muCodecI (mu : MutAt) (rgi ci codec : Nat) : Int :=
  if mu.rg = rgi ∧ mu.col = ci then (match mu.m with | .codec k => (k : Int) | _ => (codec : Int)) else (codec : Int)

theorem muCodecI_eq (mu : MutAt) (rgi ci codec : Nat) : muCodecI mu rgi ci codec = ((muCodec mu rgi ci codec : Nat) : Int) := by
  unfold muCodecI muCodec muCodecOf
  split
  · cases mu.m <;> rfl
  · rfl

def spMdTI (cfg : SWCfg) (c : Col) (codec : Int) (nv : Nat) (tu : Int) (tc pos : Nat) : TVal :=
  .struct ([(1, .int 5 c.ty.phys), (2, .list 5 [.int 5 0, .int 5 3]), (3, .list 8 (c.path.map fun n => .bin (strBytes n))),
            (4, .int 5 codec), (5, .int 6 nv), (6, .int 6 tu), (7, .int 6 tc), (9, .int 6 pos)] ++
           (if cfg.withExtras then [(100, .int 6 5)] else []))

theorem chunks_nil_mu (cfg : SWCfg) (compress : Nat → Bytes → Bytes) (mu : MutAt) (rgi : Nat) (recs : List Rec) (ci : Nat)
    (cs : Choices) (pos : Nat) : specWriteLog.chunks cfg compress (some mu) rgi recs [] ci cs pos = ([], [], [], cs) := by
  rw [specWriteLog.chunks]

theorem chunks_cons_mu (cfg : SWCfg) (compress : Nat → Bytes → Bytes) (mu : MutAt) (rgi : Nat) (recs : List Rec) (c : Col)
    (codec : Nat) (rest : List (Col × Nat)) (ci : Nat) (cs : Choices) (pos : Nat) :
    specWriteLog.chunks cfg compress (some mu) rgi recs ((c, codec) :: rest) ci cs pos =
      (let perRec := recs.map fun r => r.getD ci []
       let sp := splitPages (perRec.length + 1) cs perRec
       let em := specWriteLog.chunks.emit cfg compress (some mu) rgi c codec ci sp.1 0 sp.2
       let r := specWriteLog.chunks cfg compress (some mu) rgi recs rest (ci + 1) em.2.2.2 (pos + em.1.length)
       (spChunkT cfg c (muCodec mu rgi ci codec) (perRec.map List.length).sum ((em.1.length : Int) + em.2.2.1) em.1.length pos :: r.1,
        em.1 ++ r.2.1, em.2.1 ++ r.2.2.1, r.2.2.2)) := by
  have h : ∀ k : Int, k = ((muCodec mu rgi ci codec : Nat) : Int) →
      (let perRec := recs.map fun r => r.getD ci []
       let sp := splitPages (perRec.length + 1) cs perRec
       let em := specWriteLog.chunks.emit cfg compress (some mu) rgi c codec ci sp.1 0 sp.2
       let r := specWriteLog.chunks cfg compress (some mu) rgi recs rest (ci + 1) em.2.2.2 (pos + em.1.length)
       (TVal.struct [(2, .int 6 (cfg.fileOff pos em.1.length)), (3, spMdTI cfg c k (perRec.map List.length).sum ((em.1.length : Int) + em.2.2.1) em.1.length pos)] :: r.1,
        em.1 ++ r.2.1, em.2.1 ++ r.2.2.1, r.2.2.2)) =
      (let perRec := recs.map fun r => r.getD ci []
       let sp := splitPages (perRec.length + 1) cs perRec
       let em := specWriteLog.chunks.emit cfg compress (some mu) rgi c codec ci sp.1 0 sp.2
       let r := specWriteLog.chunks cfg compress (some mu) rgi recs rest (ci + 1) em.2.2.2 (pos + em.1.length)
       (spChunkT cfg c (muCodec mu rgi ci codec) (perRec.map List.length).sum ((em.1.length : Int) + em.2.2.1) em.1.length pos :: r.1,
        em.1 ++ r.2.1, em.2.1 ++ r.2.2.1, r.2.2.2)) := by
    intro k hk; subst hk; rfl
  rw [← h _ (muCodecI_eq mu rgi ci codec)]
  rw [specWriteLog.chunks]
  rfl

/-- the chunks of row group `rgi` of the mutated file: the mutated one at (`mu.rg`, `mu.col`), all others as
the unmutated writer emits them; the choices are consumed as without mutation -/
def muChunks (cfg : SWCfg) (compress : Nat → Bytes → Bytes) (mu : MutAt) (rgi : Nat) (recs : List Rec) :
    List (Col × Nat) → Nat → Choices → List GChunk
  | [], _, _ => []
  | (c, codec) :: rest, ci, cs =>
    (if mu.rg = rgi ∧ mu.col = ci then muGChunk cfg compress mu recs c codec ci cs
      else spGChunk cfg compress recs c codec ci cs) ::
      muChunks cfg compress mu rgi recs rest (ci + 1) (spChunkCs cfg compress recs c codec ci cs)

/-- **The chunks of one row group as `specWriteLog` emits them under a mutation** -/
theorem chunks_spec_mu (cfg : SWCfg) (compress : Nat → Bytes → Bytes) (mu : MutAt) (rgi : Nat) (recs : List Rec) :
    ∀ (ccs : List (Col × Nat)) (ci : Nat) (cs : Choices) (pos : Nat),
      (specWriteLog.chunks cfg compress (some mu) rgi recs ccs ci cs pos).2.1 = gBytes (muChunks cfg compress mu rgi recs ccs ci cs) ∧
      (specWriteLog.chunks cfg compress (some mu) rgi recs ccs ci cs pos).2.2.2 = (spChunks cfg compress recs ccs ci cs).2 ∧
      (∃ metas, (specWriteLog.chunks cfg compress (some mu) rgi recs ccs ci cs pos).1.mapM decChunk = some metas ∧
        MetasFor (muChunks cfg compress mu rgi recs ccs ci cs) metas) ∧
      (∀ t ∈ (specWriteLog.chunks cfg compress (some mu) rgi recs ccs ci cs pos).1, t.ecode = tStruct ∧ t.WF ∧ t.dep ≤ 3)
  | [], ci, cs, pos => by
    rw [chunks_nil_mu]
    exact ⟨rfl, rfl, ⟨[], rfl, by simp [muChunks, MetasFor]⟩, by simp⟩
  | (c, codec) :: rest, ci, cs, pos => by
    rw [chunks_cons_mu]
    simp only
    generalize hsp : splitPages ((recs.map fun r => r.getD ci []).length + 1) cs (recs.map fun r => r.getD ci []) = sp
    have hcs : spChunkCs cfg compress recs c codec ci cs = (spEmit cfg c codec (compress codec) sp.1 sp.2).2 := by
      simp only [spChunkCs, hsp]
    have hfl : sp.1.flatten = (recs.map fun r => r.getD ci []).flatten := by
      rw [← hsp]; exact (splitPages_spec _ cs _ (by omega)).1
    have hnv : (sp.1.map List.length).sum = ((recs.map fun r => r.getD ci []).map List.length).sum := by
      rw [← List.length_flatten, ← List.length_flatten, hfl]
    -- the head chunk: bytes, choices left, metadata
    have hhead : (specWriteLog.chunks.emit cfg compress (some mu) rgi c codec ci sp.1 0 sp.2).2.2.2 =
          (spEmit cfg c codec (compress codec) sp.1 sp.2).2 ∧
        ∃ g : GChunk, g = (if mu.rg = rgi ∧ mu.col = ci then muGChunk cfg compress mu recs c codec ci cs
            else spGChunk cfg compress recs c codec ci cs) ∧
          (specWriteLog.chunks.emit cfg compress (some mu) rgi c codec ci sp.1 0 sp.2).1 = g.bytes ∧
          g.col = c ∧ g.pg.n = ((((recs.map fun r => r.getD ci []).map List.length).sum : Nat) : Int) ∧
          g.pg.size = (((specWriteLog.chunks.emit cfg compress (some mu) rgi c codec ci sp.1 0 sp.2).1.length : Nat) : Int) ∧
          g.pg.codec = ((muCodec mu rgi ci codec : Nat) : Int) := by
      by_cases hc : mu.rg = rgi ∧ mu.col = ci
      · obtain ⟨e1, e2⟩ := emit_mut cfg compress mu rgi c codec ci hc.1 hc.2 sp.1 0 sp.2 (Nat.zero_le _)
        rw [Nat.sub_zero] at e1
        refine ⟨e2, _, rfl, ?_⟩
        rw [if_pos hc, e1]
        simp only [muGChunk, hsp, muCodec, if_pos hc, and_self]
      · have hoff := emit_off cfg compress mu rgi c codec ci sp.1 0 sp.2 (by omega)
        obtain ⟨e1, e2⟩ := emit_none cfg compress rgi c codec ci sp.1 0 sp.2
        rw [hoff]
        refine ⟨e2, _, rfl, ?_⟩
        rw [if_neg hc, e1]
        simp only [spGChunk, spPageMeta, hsp, hnv, muCodec, if_neg hc, and_self]
    obtain ⟨e2, g, hg, e1, hgc, hgn, hgs, hgk⟩ := hhead
    generalize hem : specWriteLog.chunks.emit cfg compress (some mu) rgi c codec ci sp.1 0 sp.2 = em at e1 e2 hgs
    obtain ⟨i1, i2, ⟨metas, i3, i4⟩, i5⟩ := chunks_spec_mu cfg compress mu rgi recs rest (ci + 1) em.2.2.2 (pos + em.1.length)
    rw [e2, ← hcs] at i1 i2 i3 i4 i5
    rw [e2, ← hcs]
    refine ⟨?_, ?_, ⟨spChunkMeta cfg c (muCodec mu rgi ci codec) ((recs.map fun r => r.getD ci []).map List.length).sum
      ((em.1.length : Int) + em.2.2.1) em.1.length pos :: metas, ?_, ?_⟩, ?_⟩
    · simp only [muChunks, gBytes_cons, ← hg, i1]
      rw [e1]
    · simp only [spChunks, i2]
    · simp only [List.mapM_cons, decChunk_spChunkT, i3, bind, Option.bind, pure]
    · simp only [muChunks, MetasFor, ← hg]
      exact ⟨⟨_, rfl, by rw [hgc], hgn.symm, hgs.symm, hgk.symm⟩, i4⟩
    · intro t ht
      rcases List.mem_cons.mp ht with rfl | ht
      · exact spChunkT_wf _ _ _ _ _ _ _
      · exact i5 t ht

theorem muChunks_cols (cfg : SWCfg) (compress : Nat → Bytes → Bytes) (mu : MutAt) (rgi : Nat) (recs : List Rec) :
    ∀ (ccs : List (Col × Nat)) (ci : Nat) (cs : Choices),
      (muChunks cfg compress mu rgi recs ccs ci cs).map (·.col) = ccs.map (·.1)
  | [], _, _ => rfl
  | (c, codec) :: rest, ci, cs => by
    simp only [muChunks, List.map_cons, muChunks_cols cfg compress mu rgi recs rest]
    congr 1
    split <;> rfl

/-- in every other row group the chunks are those of the unmutated writer -/
theorem muChunks_off (cfg : SWCfg) (compress : Nat → Bytes → Bytes) (mu : MutAt) (rgi : Nat) (recs : List Rec)
    (h : mu.rg ≠ rgi) : ∀ (ccs : List (Col × Nat)) (ci : Nat) (cs : Choices),
      muChunks cfg compress mu rgi recs ccs ci cs = (spChunks cfg compress recs ccs ci cs).1
  | [], _, _ => rfl
  | (c, codec) :: rest, ci, cs => by
    simp only [muChunks, spChunks, muChunks_off cfg compress mu rgi recs h rest]
    rw [if_neg (fun hc => h hc.1)]

/-- in the mutated row group: the chunks before column `mu.col` are those of the unmutated writer, then
comes the mutated chunk, written with the choices the columns before it left -/
theorem muChunks_split (cfg : SWCfg) (compress : Nat → Bytes → Bytes) (mu : MutAt) (recs : List Rec) :
    ∀ (ccs : List (Col × Nat)) (ci : Nat) (cs : Choices) (c : Col) (codec : Nat), ci ≤ mu.col →
      ccs[mu.col - ci]? = some (c, codec) →
      ∃ tail, muChunks cfg compress mu mu.rg recs ccs ci cs =
        (spChunks cfg compress recs (ccs.take (mu.col - ci)) ci cs).1 ++
          muGChunk cfg compress mu recs c codec mu.col (spChunks cfg compress recs (ccs.take (mu.col - ci)) ci cs).2 :: tail
  | [], _, _, _, _, _, h => by simp at h
  | (c0, codec0) :: rest, ci, cs, c, codec, hle, h => by
    by_cases hc : mu.col = ci
    · rw [hc, Nat.sub_self] at h
      simp only [List.getElem?_cons_zero, Option.some.injEq, Prod.mk.injEq] at h
      obtain ⟨rfl, rfl⟩ := h
      refine ⟨muChunks cfg compress mu mu.rg recs rest (ci + 1) (spChunkCs cfg compress recs c0 codec0 ci cs), ?_⟩
      have h0 : mu.col - ci = 0 := by omega
      rw [h0]
      simp only [muChunks, List.take_zero, spChunks, List.nil_append]
      rw [if_pos ⟨trivial, hc⟩, hc]
    · obtain ⟨k, hk⟩ : ∃ k, mu.col - ci = k + 1 := ⟨mu.col - ci - 1, by omega⟩
      have hk' : mu.col - (ci + 1) = k := by omega
      rw [hk] at h ⊢
      simp only [List.getElem?_cons_succ] at h
      rw [← hk'] at h
      obtain ⟨tail, ht⟩ := muChunks_split cfg compress mu recs rest (ci + 1) (spChunkCs cfg compress recs c0 codec0 ci cs) c codec
        (by omega) h
      rw [hk'] at ht
      refine ⟨tail, ?_⟩
      simp only [muChunks, List.take_succ_cons, spChunks, List.cons_append, ht]
      rw [if_neg (fun h' => hc h'.2)]

/-! ## Part F: the reader on the mutated row group -/

/-- the chunk walk of `readRowGroup` over chunks the first of which that is not read back is refused -/
theorem readRowGroup_go_fail (dc : Decomp) (bad : GChunk) (chA : List GChunk) (hbad : ChunkFails dc bad) :
    ∀ (chB : List GChunk) (metas : List ChunkMeta) (doneC : List Col) (doneB : List ColBuf)
      (doneP tailP : List (List PageMeta)) (pre post : Bytes) (N cu rc rn : Int) (rgs : List RGMeta) (e fs : Bool),
      MetasFor (chB ++ bad :: chA) metas →
      ColsResolve (doneC ++ (chB ++ bad :: chA).map (·.col)) →
      doneB.length = doneC.length → doneP.length = doneC.length → tailP.length = (chB ++ bad :: chA).length →
      (∀ g ∈ chB, ChunkReads dc g) →
      RState.readRowGroup.go metas
        { cols := doneC ++ (chB ++ bad :: chA).map (·.col), dc := dc,
          src := Src.mk (pre ++ gBytes (chB ++ bad :: chA) ++ post) pre.length,
          rows := N, cursor := cu, rgCursor := rc, rgCount := rn,
          pages := doneP ++ List.zipWith (· :: ·) ((chB ++ bad :: chA).map (·.pg)) tailP,
          rowGroups := rgs, bufs := doneB ++ List.replicate (chB ++ bad :: chA).length {}, err := e, fieldsSet := fs } =
      .error .err
  | [], metas, doneC, doneB, doneP, tailP, pre, post, N, cu, rc, rn, rgs, e, fs, hm, hres, hB, hP, htl, _ => by
    cases tailP with
    | nil => simp at htl
    | cons t tailP =>
      cases metas with
      | nil => simp [MetasFor] at hm
      | cons ch metas' =>
        obtain ⟨hm1, _⟩ := hm
        obtain ⟨m, hmd, hpath, _, _, _⟩ := hm1
        have hidx : colIndex (doneC ++ (bad :: chA).map (·.col)) (pathName (bad.col.path.map strBytes)) = some doneC.length :=
          hres doneC.length bad.col (by simp)
        have hfile : pre ++ gBytes (bad :: chA) ++ post = pre ++ bad.bytes ++ (gBytes chA ++ post) := by
          rw [gBytes_cons]; simp only [List.append_assoc]
        have hrc := hbad pre (gBytes chA ++ post) {}
        rw [← hfile] at hrc
        simp only [List.nil_append] at hidx hrc ⊢
        simp only [RState.readRowGroup.go, hmd, hpath]
        simp only [List.map_cons, List.zipWith_cons_cons, List.length_cons, List.replicate_succ] at hidx ⊢
        simp only [hidx]
        rw [← hP, getD_append_length, hP, ← hB, getD_append_length, hB, getElem?_append_length]
        simp only [hrc]
  | p :: rest, metas, doneC, doneB, doneP, tailP, pre, post, N, cu, rc, rn, rgs, e, fs, hm, hres, hB, hP, htl, hg => by
    simp only [List.cons_append] at hm hres htl ⊢
    cases tailP with
    | nil => simp at htl
    | cons t tailP =>
      cases metas with
      | nil => simp [MetasFor] at hm
      | cons ch metas' =>
        obtain ⟨hm1, hm2⟩ := hm
        obtain ⟨m, hmd, hpath, _, _, _⟩ := hm1
        have hidx : colIndex (doneC ++ (p :: (rest ++ bad :: chA)).map (·.col)) (pathName (p.col.path.map strBytes)) = some doneC.length :=
          hres doneC.length p.col (by simp)
        have hfile : pre ++ gBytes (p :: (rest ++ bad :: chA)) ++ post = pre ++ p.bytes ++ (gBytes (rest ++ bad :: chA) ++ post) := by
          rw [gBytes_cons]; simp only [List.append_assoc]
        have hfile2 : pre ++ gBytes (p :: (rest ++ bad :: chA)) ++ post = (pre ++ p.bytes) ++ gBytes (rest ++ bad :: chA) ++ post := by
          rw [gBytes_cons]; simp only [List.append_assoc]
        have hrc := hg p List.mem_cons_self pre (gBytes (rest ++ bad :: chA) ++ post)
        rw [← hfile] at hrc
        have ih := readRowGroup_go_fail dc bad chA hbad rest metas' (doneC ++ [p.col]) (doneB ++ [colBufOf p.col p.es]) (doneP ++ [t]) tailP
          (pre ++ p.bytes) post N cu rc rn rgs e fs hm2
          (by simpa [List.append_assoc] using hres) (by simp [hB]) (by simp [hP]) (by simpa using htl)
          (fun q hq => hg q (List.mem_cons_of_mem _ hq))
        rw [← hfile2] at ih
        simp only [List.append_assoc doneC, List.append_assoc doneP, List.append_assoc doneB, List.singleton_append,
          List.length_append, List.length_cons] at ih
        simp only [RState.readRowGroup.go, hmd, hpath]
        simp only [List.map_cons, List.zipWith_cons_cons, List.length_cons, List.replicate_succ, List.length_append] at hidx ⊢
        simp only [hidx]
        rw [← hP, getD_append_length, hP, ← hB, getD_append_length, hB, getElem?_append_length]
        simp only [hrc]
        rw [← hP, set_append_length, hP, ← hB, set_append_length]
        rw [ih]

/-- **`readRowGroup` on a row group one chunk of which is refused** (the chunks before it are read) -/
theorem readRowGroup_fail_gen (dc : Decomp) (cols : List Col) (hres : ColsResolve cols) (chB : List GChunk) (bad : GChunk)
    (chA : List GChunk) (rgm : RGMeta) (hcols : (chB ++ bad :: chA).map (·.col) = cols)
    (hm : MetasFor (chB ++ bad :: chA) rgm.columns) (hg : ∀ g ∈ chB, ChunkReads dc g) (hbad : ChunkFails dc bad)
    (pre post : Bytes) (tailP : List (List PageMeta)) (htl : tailP.length = cols.length) (restRG : List RGMeta)
    (N cu rc rn : Int) (bufs0 : List ColBuf) (e fs : Bool) :
    RState.readRowGroup
        { cols := cols, dc := dc, src := Src.mk (pre ++ gBytes (chB ++ bad :: chA) ++ post) pre.length, rows := N, cursor := cu,
          rgCursor := rc, rgCount := rn,
          pages := List.zipWith (· :: ·) ((chB ++ bad :: chA).map (·.pg)) tailP,
          rowGroups := rgm :: restRG, bufs := bufs0, err := e, fieldsSet := fs } = .error .err := by
  have hlen : cols.length = (chB ++ bad :: chA).length := by rw [← hcols, List.length_map]
  have hgo := readRowGroup_go_fail dc bad chA hbad chB rgm.columns [] [] [] tailP pre post N cu 0 rgm.numRows
    (rgm :: restRG) e true hm (by simpa [hcols] using hres) rfl rfl (by omega) hg
  simp only [List.nil_append, hcols] at hgo
  unfold RState.readRowGroup
  simp only [hlen]
  rw [hgo]

/-- a row group the reader refuses: its footer entry is in order, the chunks up to some column are read
back, the typed `Read` of the next one returns an error -/
structure GRG.Bad (dc : Decomp) (cols : List Col) (g : GRG) : Prop where
  hcols : g.chunks.map (·.col) = cols
  hmetas : MetasFor g.chunks g.rgm.columns
  hfail : ∃ chB bad chA, g.chunks = chB ++ bad :: chA ∧ (∀ ch ∈ chB, ChunkReads dc ch) ∧ ChunkFails dc bad

/-- loading a refused row group, laid out from `pre.length`; of the row groups after it only the columns matter -/
theorem readRowGroup_bad (dc : Decomp) (cols : List Col) (hres : ColsResolve cols) (g : GRG) (gs : List GRG)
    (hbad : g.Bad dc cols) (hsh : ∀ g' ∈ gs, g'.chunks.map (·.col) = cols) (pre post : Bytes) (N cu rc rn : Int)
    (bufs0 : List ColBuf) (e fs : Bool) :
    RState.readRowGroup
        { cols := cols, dc := dc, src := Src.mk (pre ++ dataOf (g :: gs) ++ post) pre.length,
          rows := N, cursor := cu, rgCursor := rc, rgCount := rn,
          pages := pagesForG cols.length ((g :: gs).map (·.chunks)),
          rowGroups := (g :: gs).map (·.rgm), bufs := bufs0, err := e, fieldsSet := fs } = .error .err := by
  obtain ⟨chB, bad, chA, hch, hB, hF⟩ := hbad.hfail
  have hfile : pre ++ dataOf (g :: gs) ++ post = pre ++ gBytes g.chunks ++ (dataOf gs ++ post) := by
    rw [dataOf_cons]; simp only [List.append_assoc]
  have htl : (pagesForG cols.length (gs.map (·.chunks))).length = cols.length := by
    apply pagesForG_length
    intro q hq
    obtain ⟨g', hg', rfl⟩ := List.mem_map.mp hq
    rw [← hsh g' hg', List.length_map]
  have := readRowGroup_fail_gen dc cols hres chB bad chA g.rgm (by rw [← hch]; exact hbad.hcols)
    (by rw [← hch]; exact hbad.hmetas) hB hF pre (dataOf gs ++ post)
    (pagesForG cols.length (gs.map (·.chunks))) htl (gs.map (·.rgm)) N cu rc rn bufs0 e fs
  rw [← hch, ← hfile] at this
  simp only [List.map_cons, pagesForG] at this ⊢
  exact this

/-- loading the first of the remaining row groups when only it is known to be in order (`readRowGroup_first`
with the weaker hypothesis on the row groups after it) -/
theorem readRowGroup_first' (dc : Decomp) (cols : List Col) (hres : ColsResolve cols) (g : GRG) (gs : List GRG)
    (hg : g.OK dc cols) (hsh : ∀ g' ∈ gs, g'.chunks.map (·.col) = cols) (pre post : Bytes) (N cu rc rn : Int)
    (bufs0 : List ColBuf) (fs : Bool) :
    RState.readRowGroup
        { cols := cols, dc := dc, src := Src.mk (pre ++ dataOf (g :: gs) ++ post) pre.length,
          rows := N, cursor := cu, rgCursor := rc, rgCount := rn,
          pages := pagesForG cols.length ((g :: gs).map (·.chunks)),
          rowGroups := (g :: gs).map (·.rgm), bufs := bufs0, err := false, fieldsSet := fs } =
      .ok { cols := cols, dc := dc,
            src := Src.mk (pre ++ dataOf (g :: gs) ++ post) (pre ++ gBytes g.chunks).length,
            rows := N, cursor := cu, rgCursor := 0, rgCount := ((g.recs.length : Nat) : Int),
            pages := pagesForG cols.length (gs.map (·.chunks)),
            rowGroups := gs.map (·.rgm), bufs := bufsOf cols g.recs, err := false, fieldsSet := true } := by
  have hfile : pre ++ dataOf (g :: gs) ++ post = pre ++ gBytes g.chunks ++ (dataOf gs ++ post) := by
    rw [dataOf_cons]; simp only [List.append_assoc]
  have htl : (pagesForG cols.length (gs.map (·.chunks))).length = cols.length := by
    apply pagesForG_length
    intro q hq
    obtain ⟨g', hg', rfl⟩ := List.mem_map.mp hq
    rw [← hsh g' hg', List.length_map]
  have := readRowGroup_gen dc cols hres g.chunks g.rgm hg.hcols hg.hmetas hg.hreads pre (dataOf gs ++ post)
    (pagesForG cols.length (gs.map (·.chunks))) htl (gs.map (·.rgm)) N cu rc rn bufs0 false fs
  rw [← hfile, hg.hbufs, hg.hrows] at this
  simp only [List.map_cons, pagesForG, List.length_append] at this ⊢
  exact this

/-- `readRowGroup`, then the skipping loop of `Next` with the given fuel -/
def loadThenSkip (st : RState) (fuel : Nat) : R RState :=
  match st.readRowGroup with
  | .ok st' => st'.skipEmpty fuel
  | .error e => .error e

theorem skipEmpty_succ_pos (st : RState) (f : Nat) (h1 : st.rgCount = 0) (h2 : st.rowGroups ≠ []) :
    st.skipEmpty (f + 1) = loadThenSkip st f := by
  rw [RState.skipEmpty, if_pos ⟨h1, h2⟩]
  rfl

/-- row groups without records, then a refused one: loading and skipping runs into the error -/
theorem loadSkip_fail (dc : Decomp) (cols : List Col) (hres : ColsResolve cols) (N : Int) (post : Bytes)
    (gbad : GRG) (gsA : List GRG) (hbad : gbad.Bad dc cols) (hA : ∀ g ∈ gsA, g.chunks.map (·.col) = cols) :
    ∀ (gsB : List GRG), (∀ g ∈ gsB, g.OK dc cols) → (gsB.map (·.recs.length)).sum = 0 →
    ∀ (pre : Bytes) (cu rc rn : Int) (bufs0 : List ColBuf) (fs : Bool) (fuel : Nat), gsB.length ≤ fuel →
      loadThenSkip
        { cols := cols, dc := dc, src := Src.mk (pre ++ dataOf (gsB ++ gbad :: gsA) ++ post) pre.length,
          rows := N, cursor := cu, rgCursor := rc, rgCount := rn,
          pages := pagesForG cols.length ((gsB ++ gbad :: gsA).map (·.chunks)),
          rowGroups := (gsB ++ gbad :: gsA).map (·.rgm), bufs := bufs0, err := false, fieldsSet := fs } fuel = .error .err
  | [], _, _, pre, cu, rc, rn, bufs0, fs, fuel, _ => by
    unfold loadThenSkip
    simp only [List.nil_append]
    rw [readRowGroup_bad dc cols hres gbad gsA hbad hA pre post N cu rc rn bufs0 false fs]
  | b :: bs, hB, hsum, pre, cu, rc, rn, bufs0, fs, fuel, hf => by
    have hsh : ∀ g' ∈ bs ++ gbad :: gsA, g'.chunks.map (·.col) = cols := by
      intro g' hg'
      rcases List.mem_append.mp hg' with h | h
      · exact (hB g' (List.mem_cons_of_mem _ h)).hcols
      · rcases List.mem_cons.mp h with rfl | h
        · exact hbad.hcols
        · exact hA g' h
    simp only [List.map_cons, List.sum_cons] at hsum
    have hb0 : b.recs.length = 0 := by omega
    have hload := readRowGroup_first' dc cols hres b (bs ++ gbad :: gsA) (hB b List.mem_cons_self) hsh pre post N cu rc rn bufs0 fs
    have hfile2 : pre ++ dataOf (b :: (bs ++ gbad :: gsA)) ++ post = (pre ++ gBytes b.chunks) ++ dataOf (bs ++ gbad :: gsA) ++ post := by
      rw [dataOf_cons]; simp only [List.append_assoc]
    obtain ⟨f, rfl⟩ : ∃ f, fuel = f + 1 := ⟨fuel - 1, by simp only [List.length_cons] at hf; omega⟩
    have ih := loadSkip_fail dc cols hres N post gbad gsA hbad hA bs (fun g hg => hB g (List.mem_cons_of_mem _ hg)) (by omega)
      (pre ++ gBytes b.chunks) cu 0 ((b.recs.length : Nat) : Int) (bufsOf cols b.recs) true f
      (by simp only [List.length_cons] at hf; omega)
    rw [← hfile2] at ih
    unfold loadThenSkip
    simp only [List.cons_append]
    rw [hload]
    simp only
    rw [skipEmpty_succ_pos _ f (by simp only [hb0]; rfl) (by simp)]
    exact ih

theorem next_err_load (st : RState) (h1 : st.err = false) (h2 : st.cursor < st.rows) (h3 : st.rgCursor ≥ st.rgCount)
    (h4 : st.readRowGroup = .error .err) : st.next = .ok (false, { st with err := true }) := by
  unfold RState.next
  rw [if_neg (by simp [h1]; omega), if_pos h3, h4]

theorem next_err_skip (st st' : RState) (h1 : st.err = false) (h2 : st.cursor < st.rows) (h3 : st.rgCursor ≥ st.rgCount)
    (h4 : st.readRowGroup = .ok st') (h5 : st'.skipEmpty st'.rowGroups.length = .error .err) :
    st.next = .ok (false, { st with err := true }) := by
  unfold RState.next
  rw [if_neg (by simp [h1]; omega), if_pos h3, h4]
  simp only [h5]

/-- **`Next` when only row groups without records lie before the refused one**: false, with the error set -/
theorem next_bad (dc : Decomp) (cols : List Col) (hres : ColsResolve cols) (N : Int) (post : Bytes)
    (gbad : GRG) (gsA : List GRG) (hbad : gbad.Bad dc cols) (hA : ∀ g ∈ gsA, g.chunks.map (·.col) = cols)
    (gsB : List GRG) (hB : ∀ g ∈ gsB, g.OK dc cols) (hsum : (gsB.map (·.recs.length)).sum = 0)
    (pre : Bytes) (cu rc rn : Int) (bufs0 : List ColBuf) (fs : Bool) (h2 : cu < N) (h3 : rc ≥ rn) :
    RState.next
        { cols := cols, dc := dc, src := Src.mk (pre ++ dataOf (gsB ++ gbad :: gsA) ++ post) pre.length,
          rows := N, cursor := cu, rgCursor := rc, rgCount := rn,
          pages := pagesForG cols.length ((gsB ++ gbad :: gsA).map (·.chunks)),
          rowGroups := (gsB ++ gbad :: gsA).map (·.rgm), bufs := bufs0, err := false, fieldsSet := fs } =
      .ok (false,
        { cols := cols, dc := dc, src := Src.mk (pre ++ dataOf (gsB ++ gbad :: gsA) ++ post) pre.length,
          rows := N, cursor := cu, rgCursor := rc, rgCount := rn,
          pages := pagesForG cols.length ((gsB ++ gbad :: gsA).map (·.chunks)),
          rowGroups := (gsB ++ gbad :: gsA).map (·.rgm), bufs := bufs0, err := true, fieldsSet := fs }) := by
  cases gsB with
  | nil =>
    exact next_err_load _ rfl h2 h3 (readRowGroup_bad dc cols hres gbad gsA hbad hA pre post N cu rc rn bufs0 false fs)
  | cons b bs =>
    have hsh : ∀ g' ∈ bs ++ gbad :: gsA, g'.chunks.map (·.col) = cols := by
      intro g' hg'
      rcases List.mem_append.mp hg' with h | h
      · exact (hB g' (List.mem_cons_of_mem _ h)).hcols
      · rcases List.mem_cons.mp h with rfl | h
        · exact hbad.hcols
        · exact hA g' h
    simp only [List.map_cons, List.sum_cons] at hsum
    have hb0 : b.recs.length = 0 := by omega
    have hload := readRowGroup_first' dc cols hres b (bs ++ gbad :: gsA) (hB b List.mem_cons_self) hsh pre post N cu rc rn bufs0 fs
    have hfile2 : pre ++ dataOf (b :: (bs ++ gbad :: gsA)) ++ post = (pre ++ gBytes b.chunks) ++ dataOf (bs ++ gbad :: gsA) ++ post := by
      rw [dataOf_cons]; simp only [List.append_assoc]
    have hskip := loadSkip_fail dc cols hres N post gbad gsA hbad hA bs (fun g hg => hB g (List.mem_cons_of_mem _ hg)) (by omega)
      (pre ++ gBytes b.chunks) cu 0 ((b.recs.length : Nat) : Int) (bufsOf cols b.recs) true (bs.length + gsA.length) (by omega)
    rw [← hfile2] at hskip
    refine next_err_skip _ _ rfl h2 h3 hload ?_
    have hl : (List.map (·.rgm) (bs ++ gbad :: gsA)).length = (bs.length + gsA.length) + 1 := by
      simp only [List.length_map, List.length_append, List.length_cons]; omega
    simp only [hl]
    rw [skipEmpty_succ_pos _ _ (by simp only [hb0]; rfl) (by simp)]
    exact hskip

/-- `loadSkip_gen` when only a prefix `gs` of the row groups still to be loaded is known to be in order (and
holds records): the row groups `T` after it are not touched -/
theorem loadSkip_mut (dc : Decomp) (cols : List Col) (hres : ColsResolve cols) (N : Int) (post : Bytes) (T : List GRG)
    (hT : ∀ g ∈ T, g.chunks.map (·.col) = cols) :
    ∀ (gs : List GRG), (∀ g ∈ gs, g.OK dc cols) → 0 < (gs.map (·.recs.length)).sum →
    ∀ (pre : Bytes) (cu rc rn : Int) (bufs0 : List ColBuf) (fs : Bool),
    ∃ st', RState.readRowGroup
        { cols := cols, dc := dc, src := Src.mk (pre ++ dataOf (gs ++ T) ++ post) pre.length,
          rows := N, cursor := cu, rgCursor := rc, rgCount := rn,
          pages := pagesForG cols.length ((gs ++ T).map (·.chunks)),
          rowGroups := (gs ++ T).map (·.rgm), bufs := bufs0, err := false, fieldsSet := fs } = .ok st' ∧
      st'.rowGroups.length + 1 = (gs ++ T).length ∧
      ∃ (pre' : Bytes) (gs' : List GRG) (r : Rec) (rs : List Rec),
        pre ++ dataOf (gs ++ T) ++ post = pre' ++ dataOf (gs' ++ T) ++ post ∧
        gs.flatMap (·.recs) = (r :: rs) ++ gs'.flatMap (·.recs) ∧
        (gs.map (·.recs.length)).sum = (r :: rs).length + (gs'.map (·.recs.length)).sum ∧
        (∀ g ∈ gs', g.OK dc cols) ∧
        (∀ r' ∈ r :: rs, ∀ x ∈ cols.zipIdx, RecRd x.1 (r'.getD x.2 [])) ∧
        ∀ fuel : Nat, gs.length ≤ fuel + 1 →
          st'.skipEmpty fuel =
            .ok { cols := cols, dc := dc, src := Src.mk (pre ++ dataOf (gs ++ T) ++ post) pre'.length,
                  rows := N, cursor := cu, rgCursor := 0, rgCount := (((r :: rs).length : Nat) : Int),
                  pages := pagesForG cols.length ((gs' ++ T).map (·.chunks)),
                  rowGroups := (gs' ++ T).map (·.rgm), bufs := bufsOf cols (r :: rs), err := false, fieldsSet := true } := by
  intro gs
  induction gs with
  | nil => intro _ h; simp at h
  | cons b bs ih =>
    intro hbs hsum pre cu rc rn bufs0 fs
    have hbs' : ∀ b' ∈ bs, b'.OK dc cols := fun b' hb' => hbs b' (List.mem_cons_of_mem _ hb')
    have hsh : ∀ g' ∈ bs ++ T, g'.chunks.map (·.col) = cols := by
      intro g' hg'
      rcases List.mem_append.mp hg' with h | h
      · exact (hbs' g' h).hcols
      · exact hT g' h
    have hok := hbs b List.mem_cons_self
    have hrecs := hok.hrecs
    have hload := readRowGroup_first' dc cols hres b (bs ++ T) hok hsh pre post N cu rc rn bufs0 fs
    have hfile2 : pre ++ dataOf (b :: (bs ++ T)) ++ post = (pre ++ gBytes b.chunks) ++ dataOf (bs ++ T) ++ post := by
      rw [dataOf_cons]; simp only [List.append_assoc]
    simp only [List.map_cons, List.sum_cons] at hsum
    simp only [List.cons_append]
    refine ⟨_, hload, by simp, ?_⟩
    cases hbr : b.recs with
    | cons r b' =>
      rw [hbr] at hrecs
      refine ⟨pre ++ gBytes b.chunks, bs, r, b', hfile2, by simp [hbr], by simp [hbr], hbs', hrecs, ?_⟩
      intro fuel _
      exact skipEmpty_nonempty _ _ (by simp only [List.length_cons]; omega)
    | nil =>
      rw [hbr] at hsum
      simp only [List.length_nil, Nat.zero_add] at hsum
      obtain ⟨st'', hl2, _, pre', gs', r, rs, hf', hflat, hsm, hok', hrs, hskip⟩ :=
        ih hbs' hsum (pre ++ gBytes b.chunks) cu 0 ((([] : List Rec).length : Nat) : Int) (bufsOf cols []) true
      rw [← hfile2] at hl2 hf' hskip
      refine ⟨pre', gs', r, rs, hf', by simp [hbr, hflat], by simp [hbr, hsm], hok', hrs, ?_⟩
      intro fuel hfuel
      cases bs with
      | nil => simp at hsum
      | cons b2 bs2 =>
        cases fuel with
        | zero => simp at hfuel
        | succ f =>
          rw [RState.skipEmpty, if_pos ⟨by simp, by simp⟩, hl2]
          exact hskip f (by simp only [List.length_cons] at hfuel ⊢; omega)

theorem outLoop_step (fuel : Nat) (st st' : RState) (acc : List Row) (row : Row) (bufs : List ColBuf)
    (hn : st.next = .ok (true, st')) (he : st'.err = false) (hf : st'.fieldsSet = true)
    (hs : scanAllEntries st'.cols st'.bufs = some (row, bufs)) :
    outLoop (fuel + 1) st acc = outLoop fuel { st' with bufs := bufs } (acc ++ [row]) := by
  rw [outLoop]
  simp only [hn, he, hf, hs, Bool.false_eq_true, if_false, Bool.not_true, false_and]

theorem outLoop_refuse (fuel : Nat) (st st' : RState) (acc : List Row) (hn : st.next = .ok (false, st')) (he : st'.err = true) :
    outLoop (fuel + 1) st acc = .refused acc := by
  rw [outLoop]
  simp only [hn, he, if_true]

/-- **The `Next`/`Scan` loop on a file with a refused row group.**  `rs`: the records of the loaded row group
not yet delivered; `gsB`: the row groups in order before the refused one `gbad` (which holds records, so the
cursor cannot reach `Rows()` before it is loaded); `gsA`: whatever follows.  The records of `rs` and `gsB` are
delivered, then `Next` is false with the error set. -/
theorem outLoop_mut (dc : Decomp) (cols : List Col) (hres : ColsResolve cols) (N : Int) (post : Bytes)
    (gbad : GRG) (gsA : List GRG) (hbad : gbad.Bad dc cols) (hA : ∀ g ∈ gsA, g.chunks.map (·.col) = cols) :
    ∀ (fuel : Nat) (gsB : List GRG), (∀ g ∈ gsB, g.OK dc cols) →
    ∀ (rs : List Rec), (∀ r ∈ rs, ∀ x ∈ cols.zipIdx, RecRd x.1 (r.getD x.2 [])) →
    ∀ (pre : Bytes) (cu rc rn : Int) (acc : List Row),
      cu + (rs.length : Nat) + ((((gsB.map (·.recs.length)).sum : Nat)) : Int) < N →
      rn = rc + (rs.length : Nat) →
      rs.length + (gsB.map (·.recs.length)).sum < fuel →
      outLoop fuel
          { cols := cols, dc := dc, src := Src.mk (pre ++ dataOf (gsB ++ gbad :: gsA) ++ post) pre.length,
            rows := N, cursor := cu, rgCursor := rc, rgCount := rn,
            pages := pagesForG cols.length ((gsB ++ gbad :: gsA).map (·.chunks)),
            rowGroups := (gsB ++ gbad :: gsA).map (·.rgm), bufs := bufsOf cols rs, err := false,
            fieldsSet := true } acc =
        .refused (acc ++ (rs ++ gsB.flatMap (·.recs)).map (rowOf cols.length)) := by
  have hT : ∀ g ∈ gbad :: gsA, g.chunks.map (·.col) = cols := by
    intro g hg
    rcases List.mem_cons.mp hg with rfl | h
    · exact hbad.hcols
    · exact hA g h
  intro fuel
  induction fuel with
  | zero => intro _ _ _ _ _ _ _ _ _ _ _ hf; omega
  | succ f ih =>
    intro gsB hgs rs hrs pre cu rc rn acc hN hrn hf
    cases rs with
    | cons r rs =>
      simp only [List.length_cons, Int.natCast_add, Int.natCast_one] at hN hrn hf
      have hnext := next_within { cols := cols, dc := dc, src := Src.mk (pre ++ dataOf (gsB ++ gbad :: gsA) ++ post) pre.length, rows := N, cursor := cu, rgCursor := rc, rgCount := rn, pages := pagesForG cols.length ((gsB ++ gbad :: gsA).map (·.chunks)), rowGroups := (gsB ++ gbad :: gsA).map (·.rgm), bufs := bufsOf cols (r :: rs), err := false, fieldsSet := true }
        rfl (by simp only; omega) (by simp only; omega)
      rw [outLoop_step f _ _ acc _ _ hnext rfl rfl (scanAll_bufsOf cols r rs hrs)]
      simp only
      rw [ih gsB hgs rs (fun r' hr' => hrs r' (List.mem_cons_of_mem _ hr')) pre (cu + 1) (rc + 1) rn (acc ++ [rowOf cols.length r])
        (by omega) (by omega) (by omega)]
      simp
    | nil =>
      simp only [List.length_nil, Int.natCast_zero, Int.add_zero, Nat.zero_add] at hN hrn hf
      by_cases hz : (gsB.map (·.recs.length)).sum = 0
      · -- only row groups without records before the refused one
        have hnext := next_bad dc cols hres N post gbad gsA hbad hA gsB hgs hz pre cu rc rn (bufsOf cols []) true
          (by omega) (by omega)
        rw [outLoop_refuse f _ _ acc hnext rfl, sum_recs_zero gsB hz]
        simp
      · obtain ⟨st', hl, hlen, pre', gs', r, rs', hf', hflat, hsm, hok', hrs', hskip⟩ :=
          loadSkip_mut dc cols hres N post (gbad :: gsA) hT gsB hgs (by omega) pre cu rc rn (bufsOf cols []) true
        have hnext := next_load_skip _ st' _ rfl (by simp only; omega) (by simp only; omega) hl
          (hskip st'.rowGroups.length (by rw [List.length_append] at hlen; omega))
        rw [outLoop_step f _ _ acc _ _ hnext rfl rfl (scanAll_bufsOf cols r rs' hrs')]
        simp only
        rw [hf']
        rw [ih gs' hok' rs' (fun r' hr' => hrs' r' (List.mem_cons_of_mem _ hr')) pre' (cu + 1) (0 + 1)
          (((r :: rs').length : Nat) : Int) (acc ++ [rowOf cols.length r])
          (by simp only [List.length_cons] at hsm; omega)
          (by simp only [List.length_cons, Int.natCast_add, Int.natCast_one]; omega)
          (by simp only [List.length_cons] at hsm; omega)]
        rw [hflat]
        simp

/-! ## Part G: the whole mutated file -/

theorem groups_nil_mu (cfg : SWCfg) (compress : Nat → Bytes → Bytes) (mu : MutAt) (rgi : Nat) (cs : Choices) (pos : Nat) :
    specWriteLog.groups cfg compress (some mu) [] rgi cs pos = ([], [], []) := by
  rw [specWriteLog.groups]

theorem groups_cons_mu (cfg : SWCfg) (compress : Nat → Bytes → Bytes) (mu : MutAt) (recs : List Rec) (rest : List (List Rec))
    (rgi : Nat) (cs : Choices) (pos : Nat) :
    specWriteLog.groups cfg compress (some mu) (recs :: rest) rgi cs pos =
      (let ch := specWriteLog.chunks cfg compress (some mu) rgi recs (cfg.cols.zip cfg.codecs) 0 cs pos
       let r := specWriteLog.groups cfg compress (some mu) rest (rgi + 1) ch.2.2.2 (pos + ch.2.1.length)
       (spRgT ch.1 ch.2.1.length recs.length :: r.1, ch.2.1 ++ r.2.1, ch.2.2.1 ++ r.2.2)) := by
  rw [specWriteLog.groups]
  rfl

/-- the choices left when the writer gets to row group number `j` (the mutation does not change them) -/
def csAtGroup (cfg : SWCfg) (compress : Nat → Bytes → Bytes) : List (List Rec) → Nat → Choices → Choices
  | _, 0, cs => cs
  | [], _+1, cs => cs
  | recs :: rest, j+1, cs => csAtGroup cfg compress rest j (spChunks cfg compress recs (cfg.cols.zip cfg.codecs) 0 cs).2

/-- **The row groups as `specWriteLog` emits them under a mutation**: as `groups_spec`, with the chunks of
row group `j` being `muChunks` of its records, written with the choices the row groups before it left. -/
theorem groups_spec_mu (cfg : SWCfg) (compress : Nat → Bytes → Bytes) (mu : MutAt) :
    ∀ (rowGroups : List (List Rec)) (rgi : Nat) (cs : Choices) (pos : Nat),
      ∃ gs : List GRG, gs.map (·.recs) = rowGroups ∧
        (specWriteLog.groups cfg compress (some mu) rowGroups rgi cs pos).2.1 = dataOf gs ∧
        (specWriteLog.groups cfg compress (some mu) rowGroups rgi cs pos).1.mapM decRG = some (gs.map (·.rgm)) ∧
        (∀ t ∈ (specWriteLog.groups cfg compress (some mu) rowGroups rgi cs pos).1, t.ecode = tStruct ∧ t.WF ∧ t.dep ≤ 5) ∧
        ∀ (j : Nat) (g : GRG), gs[j]? = some g →
          g.chunks = muChunks cfg compress mu (rgi + j) g.recs (cfg.cols.zip cfg.codecs) 0 (csAtGroup cfg compress rowGroups j cs) ∧
          MetasFor g.chunks g.rgm.columns ∧ g.rgm.numRows = ((g.recs.length : Nat) : Int)
  | [], rgi, cs, pos => by
    rw [groups_nil_mu]
    exact ⟨[], rfl, rfl, rfl, by simp, by simp⟩
  | recs :: rest, rgi, cs, pos => by
    rw [groups_cons_mu]
    simp only
    obtain ⟨c1, c2, ⟨metas, c3, c4⟩, c5⟩ := chunks_spec_mu cfg compress mu rgi recs (cfg.cols.zip cfg.codecs) 0 cs pos
    generalize specWriteLog.chunks cfg compress (some mu) rgi recs (cfg.cols.zip cfg.codecs) 0 cs pos = ch at c1 c2 c3 c5
    obtain ⟨gs, g1, g2, g3, g4, g5⟩ := groups_spec_mu cfg compress mu rest (rgi + 1) ch.2.2.2 (pos + ch.2.1.length)
    refine ⟨{ recs := recs, chunks := muChunks cfg compress mu rgi recs (cfg.cols.zip cfg.codecs) 0 cs,
              rgm := { columns := metas, totalByteSize := (ch.2.1.length : Nat), numRows := (recs.length : Nat) } } :: gs,
      ?_, ?_, ?_, ?_, ?_⟩
    · simp only [List.map_cons, g1]
    · rw [dataOf_cons, g2, c1]
    · simp only [List.mapM_cons, decRG_spRgT _ _ _ metas c3, g3, bind, Option.bind, pure, List.map_cons]
    · intro t ht
      rcases List.mem_cons.mp ht with rfl | ht
      · exact spRgT_wf _ _ _ c5
      · exact g4 t ht
    · intro j g hg
      cases j with
      | zero =>
        simp only [List.getElem?_cons_zero, Option.some.injEq] at hg
        subst hg
        exact ⟨rfl, c4, rfl⟩
      | succ j =>
        simp only [List.getElem?_cons_succ] at hg
        obtain ⟨a, b, c⟩ := g5 j g hg
        rw [c2] at a
        refine ⟨?_, b, c⟩
        rw [a, show rgi + (j + 1) = rgi + 1 + j by omega]
        rfl

theorem specWriteLog_eq_mu (cfg : SWCfg) (compress : Nat → Bytes → Bytes) (mu : MutAt) (cs : Choices) (rowGroups : List (List Rec)) :
    (specWriteLog cfg compress (some mu) cs rowGroups).1 =
      par1 ++ (specWriteLog.groups cfg compress (some mu) rowGroups 0 cs 4).2.1 ++
        ((spFooter cfg (rowGroups.map List.length).sum (specWriteLog.groups cfg compress (some mu) rowGroups 0 cs 4).1).enc ++
          le32 (spFooter cfg (rowGroups.map List.length).sum (specWriteLog.groups cfg compress (some mu) rowGroups 0 cs 4).1).enc.length ++
          par1) := by
  simp only [specWriteLog, spFooter, spFooterExtra, List.append_assoc]

theorem rgsFor_of_metas : ∀ (gs : List GRG), (∀ g ∈ gs, MetasFor g.chunks g.rgm.columns) →
    RGsFor (gs.map (·.chunks)) (gs.map (·.rgm))
  | [], _ => by simp [RGsFor]
  | g :: gs, h => by
    simp only [List.map_cons, RGsFor]
    exact ⟨h g List.mem_cons_self, rgsFor_of_metas gs (fun q hq => h q (List.mem_cons_of_mem _ hq))⟩

/-- **The whole read, any chunk layout, one refused row group**: the row groups `gsB` before it are read back,
the refused one `gbad` holds records; what follows (`gsA`) only has to be described by the footer. -/
theorem readOutcome_gen_mut (dc : Decomp) (cols : List Col) (hres : ColsResolve cols) (gsB : List GRG) (gbad : GRG)
    (gsA : List GRG) (hB : ∀ g ∈ gsB, g.OK dc cols) (hbad : gbad.Bad dc cols) (hne : gbad.recs ≠ [])
    (hA : ∀ g ∈ gsA, g.chunks.map (·.col) = cols ∧ MetasFor g.chunks g.rgm.columns)
    (t : TVal) (f : FMD) (hf : decFMD t = some f)
    (hrg : f.rowGroups = (gsB ++ gbad :: gsA).map (·.rgm))
    (hN : f.numRows = ((((gsB ++ gbad :: gsA).map (·.recs.length)).sum : Nat) : Int))
    (file fenc : Bytes) (hfile : file = par1 ++ dataOf (gsB ++ gbad :: gsA) ++ (fenc ++ le32 fenc.length ++ par1))
    (hn : fenc.length < 2 ^ 32)
    (hdec : decVal tStruct ((fenc ++ (le32 fenc.length ++ par1)).length + 2) (fenc ++ (le32 fenc.length ++ par1)) =
      some (t, le32 fenc.length ++ par1)) :
    readOutcome cols dc file =
      if gsB = [] then .refusedAtOpen else .refused ((gsB.flatMap (·.recs)).map (rowOf cols.length)) := by
  have hsh : ∀ g ∈ gsB ++ gbad :: gsA, g.chunks.map (·.col) = cols ∧ MetasFor g.chunks g.rgm.columns := by
    intro g hg
    rcases List.mem_append.mp hg with h | h
    · exact ⟨(hB g h).hcols, (hB g h).hmetas⟩
    · rcases List.mem_cons.mp h with rfl | h
      · exact ⟨hbad.hcols, hbad.hmetas⟩
      · exact hA g h
  have hopen := openReader_gen dc cols hres ((gsB ++ gbad :: gsA).map (·.chunks))
    (by intro g hg; obtain ⟨g', hg', rfl⟩ := List.mem_map.mp hg; exact (hsh g' hg').1)
    t f hf (by rw [hrg]; exact rgsFor_of_metas _ (fun g hg => (hsh g hg).2)) file (dataOf (gsB ++ gbad :: gsA)) fenc hfile hn hdec
  rw [hrg, hN] at hopen
  generalize hpost : fenc ++ le32 fenc.length ++ par1 = post at hfile
  subst hfile
  unfold readOutcome
  rw [hopen]
  have hp4 : par1.length = 4 := rfl
  have hpos : 1 ≤ gbad.recs.length := by
    cases h : gbad.recs with
    | nil => exact absurd h hne
    | cons a b => simp
  generalize hNN : ((gsB ++ gbad :: gsA).map (·.recs.length)).sum = NN at hopen ⊢
  cases gsB with
  | nil =>
    have := readRowGroup_bad dc cols hres gbad gsA hbad (fun g hg => (hA g hg).1) par1 post (NN : Int) 0 0 0
      (List.replicate cols.length {}) false false
    rw [hp4] at this
    simp only [List.nil_append] at this ⊢
    rw [this]
    simp
  | cons b bs =>
    have hload := readRowGroup_first' dc cols hres b (bs ++ gbad :: gsA) (hB b List.mem_cons_self)
      (fun g hg => (hsh g (List.mem_cons_of_mem _ hg)).1) par1 post (NN : Int) 0 0 0 (List.replicate cols.length {}) false
    rw [hp4] at hload
    simp only [List.cons_append] at hload ⊢
    rw [hload]
    simp only
    have hfile2 : par1 ++ dataOf (b :: (bs ++ gbad :: gsA)) ++ post = (par1 ++ gBytes b.chunks) ++ dataOf (bs ++ gbad :: gsA) ++ post := by
      rw [dataOf_cons]; simp only [List.append_assoc]
    simp only [List.cons_append, List.map_cons, List.sum_cons, List.map_append, List.sum_append] at hNN
    have := outLoop_mut dc cols hres (NN : Int) post gbad gsA hbad (fun g hg => (hA g hg).1) (((NN : Int) + 3).toNat) bs
      (fun b' hb' => hB b' (List.mem_cons_of_mem _ hb')) b.recs (hB b List.mem_cons_self).hrecs
      (par1 ++ gBytes b.chunks) 0 0 ((b.recs.length : Nat) : Int) []
      (by rw [← hNN]; simp only [Int.natCast_add]; omega) (by simp) (by omega)
    rw [← hfile2] at this
    rw [this]
    simp

theorem mem_zipIdx_take {α : Type} : ∀ (l : List α) (k j : Nat) (x : α × Nat), x ∈ (l.take k).zipIdx j → x ∈ l.zipIdx j
  | [], _, _, _, h => by simp at h
  | _ :: _, 0, _, _, h => by simp at h
  | a :: l, k+1, j, x, h => by
    simp only [List.take_succ_cons, List.zipIdx_cons, List.mem_cons] at h ⊢
    rcases h with rfl | h
    · exact Or.inl rfl
    · exact Or.inr (mem_zipIdx_take l k (j + 1) x h)

/-- the number of pages of the column chunk (row group `rg`, column `col`) in the file `specWrite` writes
with the choices `cs` (mutated or not: the page split does not depend on the mutation), found by replaying
the choices of the row groups and columns before it -/
def specPageCount (cfg : SWCfg) (compress : Nat → Bytes → Bytes) (cs : Choices) (rowGroups : List (List Rec)) (rg col : Nat) : Nat :=
  (spPagesOf (rowGroups.getD rg []) col
    (spChunks cfg compress (rowGroups.getD rg []) ((cfg.cols.zip cfg.codecs).take col) 0
      (csAtGroup cfg compress rowGroups rg cs)).2).length

theorem spPagesOf_ne_nil (recs : List Rec) (ci : Nat) (cs : Choices) (h : recs ≠ []) : spPagesOf recs ci cs ≠ [] := by
  cases recs with
  | nil => exact absurd rfl h
  | cons r rs =>
    unfold spPagesOf
    simp only [List.map_cons, List.length_cons]
    rw [splitPages_cons]
    simp

/-- a chunk of a row group that holds records has at least one page -/
theorem specPageCount_pos (cfg : SWCfg) (compress : Nat → Bytes → Bytes) (cs : Choices) (rowGroups : List (List Rec)) (rg col : Nat)
    (h : rowGroups.getD rg [] ≠ []) : 0 < specPageCount cfg compress cs rowGroups rg col := by
  unfold specPageCount
  exact List.length_pos_iff.mpr (spPagesOf_ne_nil _ _ _ h)

/-- the common part of the two whole-file theorems -/
theorem readOutcome_specWrite_mut_aux (cfg : SWCfg) (compress : Nat → Bytes → Bytes) (dc : Decomp) (cs : Choices)
    (rowGroups : List (List Rec)) (mu : MutAt)
    (hres : ColsResolve cfg.cols)
    (hcodecs : cfg.codecs.length = cfg.cols.length ∧ ∀ c ∈ cfg.codecs, c ≤ 2)
    (hdc : ∀ raw, dc.snappy (compress 1 raw) = some raw ∧ dc.gzip (compress 2 raw) = some raw)
    (hrecs : ∀ rg ∈ rowGroups, ∀ r ∈ rg, ∀ x ∈ cfg.cols.zipIdx, RecColOK x.1 (r.getD x.2 []))
    (hdef : ∀ c ∈ cfg.cols, c.maxDef ≤ 15)
    (hlen : ∀ rg ∈ rowGroups, ∀ x ∈ cfg.cols.zipIdx, (rg.flatMap (·.getD x.2 [])).length + 8 ≤ 2 ^ 28)
    (hsize : (specWrite cfg compress (some mu) cs rowGroups).length < 2 ^ 32)
    (hrg : mu.rg < rowGroups.length) (hcol : mu.col < cfg.cols.length)
    (hne : rowGroups[mu.rg] ≠ [])
    (hpage : mu.page < specPageCount cfg compress cs rowGroups mu.rg mu.col ∨ mu.m.isCodec = true)
    (hun : mu.m.unsupportedFor cfg.cols[mu.col]) :
    readOutcome cfg.cols dc (specWrite cfg compress (some mu) cs rowGroups) =
      if mu.rg = 0 then .refusedAtOpen
      else .refused ((rowGroups.take mu.rg).flatten.map (fun r => (List.range cfg.cols.length).map fun i => r.getD i [])) := by
  obtain ⟨gs, g1, g2, g3, g4, g5⟩ := groups_spec_mu cfg compress mu rowGroups 0 cs 4
  have hgl : gs.length = rowGroups.length := by rw [← g1, List.length_map]
  obtain ⟨gsB, gbad, gsA, hsplit, hBlen⟩ : ∃ gsB gbad gsA, gs = gsB ++ gbad :: gsA ∧ gsB.length = mu.rg :=
    ⟨gs.take mu.rg, gs[mu.rg]'(by omega), gs.drop (mu.rg + 1),
      by rw [List.getElem_cons_drop, List.take_append_drop], by rw [List.length_take]; omega⟩
  subst hsplit
  have hle : cfg.cols.length ≤ cfg.codecs.length := by omega
  have hgetD : rowGroups.getD mu.rg [] = rowGroups[mu.rg] := by
    rw [List.getD_eq_getElem?_getD, List.getElem?_eq_getElem hrg]; rfl
  have hmem : ∀ g ∈ gsB ++ gbad :: gsA, g.recs ∈ rowGroups := by
    intro g hg; rw [← g1]; exact List.mem_map.mpr ⟨g, hg, rfl⟩
  -- the row groups other than the mutated one are those of the unmutated writer
  have hokj : ∀ (j : Nat) (g : GRG), (gsB ++ gbad :: gsA)[j]? = some g → mu.rg ≠ j → g.OK dc cfg.cols := by
    intro j g hj hjne
    obtain ⟨a, b, c⟩ := g5 j g hj
    have hg : g ∈ gsB ++ gbad :: gsA := List.mem_iff_getElem?.mpr ⟨j, hj⟩
    rw [muChunks_off cfg compress mu (0 + j) g.recs (by omega)] at a
    exact grgOK_spec dc cfg compress hcodecs hdc hdef g ⟨_, a⟩ b c (hrecs _ (hmem g hg)) (hlen _ (hmem g hg))
  have hB : ∀ g ∈ gsB, g.OK dc cfg.cols := by
    intro g hg
    obtain ⟨j, hj⟩ := List.mem_iff_getElem?.mp hg
    have hjl : j < gsB.length := by
      rcases Nat.lt_or_ge j gsB.length with h | h
      · exact h
      · rw [List.getElem?_eq_none h] at hj; exact absurd hj (by simp)
    exact hokj j g (by rw [List.getElem?_append_left hjl]; exact hj) (by omega)
  have hA : ∀ g ∈ gsA, g.OK dc cfg.cols := by
    intro g hg
    obtain ⟨j, hj⟩ := List.mem_iff_getElem?.mp hg
    refine hokj (gsB.length + (j + 1)) g ?_ (by omega)
    rw [List.getElem?_append_right (by omega), show gsB.length + (j + 1) - gsB.length = j + 1 by omega]
    simpa using hj
  -- the mutated one
  have hjb : (gsB ++ gbad :: gsA)[mu.rg]? = some gbad := by rw [← hBlen]; exact getElem?_append_length gsB gbad gsA
  obtain ⟨ba, bb, bc⟩ := g5 mu.rg gbad hjb
  rw [Nat.zero_add] at ba
  have hbrecs : gbad.recs = rowGroups[mu.rg] := by
    have h1 : ((gsB ++ gbad :: gsA).map (·.recs))[mu.rg]? = some gbad.recs := by rw [List.getElem?_map, hjb]; rfl
    rw [g1, List.getElem?_eq_getElem hrg] at h1
    exact (Option.some.inj h1).symm
  have hbmem : gbad.recs ∈ rowGroups := hmem gbad (by simp)
  have hcodl : mu.col < cfg.codecs.length := by omega
  have hzip : (cfg.cols.zip cfg.codecs)[mu.col - 0]? = some (cfg.cols[mu.col], cfg.codecs[mu.col]) := by
    rw [Nat.sub_zero, List.getElem?_zip_eq_some]
    exact ⟨List.getElem?_eq_getElem hcol, List.getElem?_eq_getElem hcodl⟩
  have hxcol : (cfg.cols[mu.col], mu.col) ∈ cfg.cols.zipIdx :=
    List.mk_mem_zipIdx_iff_getElem?.mpr (List.getElem?_eq_getElem hcol)
  have hbad : gbad.Bad dc cfg.cols := by
    obtain ⟨tail, ht⟩ := muChunks_split cfg compress mu gbad.recs (cfg.cols.zip cfg.codecs) 0
      (csAtGroup cfg compress rowGroups mu.rg cs) cfg.cols[mu.col] cfg.codecs[mu.col] (Nat.zero_le _) hzip
    rw [Nat.sub_zero] at ht
    refine ⟨?_, bb, _, _, tail, ba.trans ht, ?_, ?_⟩
    · rw [ba, muChunks_cols, map_fst_zip_le _ _ hle]
    · exact (spChunks_props dc cfg compress hdc gbad.recs ((cfg.cols.zip cfg.codecs).take mu.col) 0
        (csAtGroup cfg compress rowGroups mu.rg cs) (by
          intro x hx
          obtain ⟨a, b⟩ := mem_zip_zipIdx cfg.cols cfg.codecs 0 x (mem_zipIdx_take _ _ _ x hx)
          refine ⟨hcodecs.2 _ b, fun r hr => hrecs _ hbmem r hr _ a, hdef _ ?_, hlen _ hbmem _ a⟩
          have := List.zipIdx_map_fst 0 cfg.cols
          rw [← this]
          exact List.mem_map.mpr ⟨_, a, rfl⟩)).2.1
    · refine chunkFails_muGChunk dc cfg compress mu gbad.recs cfg.cols[mu.col] cfg.codecs[mu.col] mu.col _
        (spCodecOK_of dc compress _ (hcodecs.2 _ (List.getElem_mem _)) hdc)
        (fun r hr => hrecs _ hbmem r hr _ hxcol) (hdef _ (List.getElem_mem _)) (hlen _ hbmem _ hxcol) hun ?_
      rcases hpage with h | h
      · left
        unfold specPageCount at h
        rw [hgetD, ← hbrecs] at h
        exact h
      · right
        exact ⟨h, spPagesOf_ne_nil _ _ _ (by rw [hbrecs]; exact hne)⟩
  -- the footer
  obtain ⟨sd, hsd⟩ := mapM_some_of_isSome decSElem (specSchema cfg.cols)
    (fun t ht => ((specSchema_ok cfg.cols).1 t ht).2.2.2)
  have hfile := specWriteLog_eq_mu cfg compress mu cs rowGroups
  have hrows : (rowGroups.map List.length).sum = ((gsB ++ gbad :: gsA).map (·.recs.length)).sum := by
    rw [← g1, List.map_map]; rfl
  rw [g2] at hfile
  generalize hR : (specWriteLog.groups cfg compress (some mu) rowGroups 0 cs 4).1 = rgs at hfile g3 g4
  generalize hfe : (spFooter cfg (rowGroups.map List.length).sum rgs).enc = fenc at hfile
  have hn : fenc.length < 2 ^ 32 := by
    unfold specWrite at hsize
    rw [hfile] at hsize
    simp only [List.length_append] at hsize
    omega
  have hdec := decVal_spFooter cfg (rowGroups.map List.length).sum rgs g4 (le32 fenc.length ++ par1)
    ((fenc ++ (le32 fenc.length ++ par1)).length + 2) (by rw [hfe]; simp only [List.length_append]; omega)
  rw [hfe] at hdec
  have hfmd := decFMD_spFooter cfg (rowGroups.map List.length).sum rgs sd _ hsd g3
  have := readOutcome_gen_mut dc cfg.cols hres gsB gbad gsA hB hbad (by rw [hbrecs]; exact hne)
    (fun g hg => ⟨(hA g hg).hcols, (hA g hg).hmetas⟩) _ _ hfmd rfl (by simp only [hrows]) _ fenc hfile hn hdec
  unfold specWrite
  rw [this]
  have hnil : gsB = [] ↔ mu.rg = 0 := by rw [← hBlen]; exact List.length_eq_zero_iff.symm
  have hfl : gsB.flatMap (·.recs) = (rowGroups.take mu.rg).flatten := by
    rw [← g1, ← hBlen, List.map_append, List.take_left' (List.length_map _), List.flatMap_def]
  simp only [hnil, hfl]
  rfl

/-- **C18, whole file.**  Take any file of the spec writer — every choice stream `cs` (page splits, run
segmentations), padding value, per-column codec out of uncompressed / snappy / gzip, with or without
statistics and unknown thrift fields, any number of row groups, empty ones included — in which ONE page
(row group `mu.rg`, column `mu.col`, page `mu.page` of that column chunk, any existing page) is written with
a feature that is unsupported for its column (`Mutation.unsupportedFor`: a dictionary / index / v2 page, a
non-PLAIN value encoding, a non-RLE level encoding on a column that has such levels, a codec id > 2 in the
chunk's metadata).  Then the reader

* returns an error from `NewParquetReader` if the mutation is in the first row group (the constructor
  loads it), and otherwise
* delivers — `Next` true, `Scan` — exactly the records of the row groups before the mutated one (row groups
  without records are skipped; if there are only such, nothing is delivered), each with exactly the entries
  written, and then `Next` is false with `Error() ≠ nil`.

It does not panic, and no row of the mutated row group (also not from the columns and pages before the
mutated page, which it has read by then) or of a later one is delivered.

Hypotheses as in `readAll_specWrite`, `hsize` about the mutated file; `hpage`: the page exists
(`specPageCount` replays the choices; in particular the row group holds records). -/
theorem readOutcome_specWrite_mutated (cfg : SWCfg) (compress : Nat → Bytes → Bytes) (dc : Decomp) (cs : Choices)
    (rowGroups : List (List Rec)) (mu : MutAt)
    (hres : ColsResolve cfg.cols)
    (hcodecs : cfg.codecs.length = cfg.cols.length ∧ ∀ c ∈ cfg.codecs, c ≤ 2)
    (hdc : ∀ raw, dc.snappy (compress 1 raw) = some raw ∧ dc.gzip (compress 2 raw) = some raw)
    (hrecs : ∀ rg ∈ rowGroups, ∀ r ∈ rg, ∀ x ∈ cfg.cols.zipIdx, RecColOK x.1 (r.getD x.2 []))
    (hdef : ∀ c ∈ cfg.cols, c.maxDef ≤ 15)
    (hlen : ∀ rg ∈ rowGroups, ∀ x ∈ cfg.cols.zipIdx, (rg.flatMap (·.getD x.2 [])).length + 8 ≤ 2 ^ 28)
    (hsize : (specWrite cfg compress (some mu) cs rowGroups).length < 2 ^ 32)
    (hrg : mu.rg < rowGroups.length) (hcol : mu.col < cfg.cols.length)
    (hpage : mu.page < specPageCount cfg compress cs rowGroups mu.rg mu.col)
    (hun : mu.m.unsupportedFor cfg.cols[mu.col]) :
    readOutcome cfg.cols dc (specWrite cfg compress (some mu) cs rowGroups) =
      if mu.rg = 0 then .refusedAtOpen
      else .refused ((rowGroups.take mu.rg).flatten.map (fun r => (List.range cfg.cols.length).map fun i => r.getD i [])) := by
  have hne : rowGroups[mu.rg] ≠ [] := by
    intro h
    have hgetD : rowGroups.getD mu.rg [] = rowGroups[mu.rg] := by
      rw [List.getD_eq_getElem?_getD, List.getElem?_eq_getElem hrg]; rfl
    unfold specPageCount at hpage
    rw [hgetD, h] at hpage
    simp [spPagesOf, splitPages_nil] at hpage
  exact readOutcome_specWrite_mut_aux cfg compress dc cs rowGroups mu hres hcodecs hdc hrecs hdef hlen hsize hrg hcol hne
    (Or.inl hpage) hun

/-- the first page of the chunk: it exists as soon as the row group holds records -/
theorem readOutcome_specWrite_mutated_page0 (cfg : SWCfg) (compress : Nat → Bytes → Bytes) (dc : Decomp) (cs : Choices)
    (rowGroups : List (List Rec)) (mu : MutAt)
    (hres : ColsResolve cfg.cols)
    (hcodecs : cfg.codecs.length = cfg.cols.length ∧ ∀ c ∈ cfg.codecs, c ≤ 2)
    (hdc : ∀ raw, dc.snappy (compress 1 raw) = some raw ∧ dc.gzip (compress 2 raw) = some raw)
    (hrecs : ∀ rg ∈ rowGroups, ∀ r ∈ rg, ∀ x ∈ cfg.cols.zipIdx, RecColOK x.1 (r.getD x.2 []))
    (hdef : ∀ c ∈ cfg.cols, c.maxDef ≤ 15)
    (hlen : ∀ rg ∈ rowGroups, ∀ x ∈ cfg.cols.zipIdx, (rg.flatMap (·.getD x.2 [])).length + 8 ≤ 2 ^ 28)
    (hsize : (specWrite cfg compress (some mu) cs rowGroups).length < 2 ^ 32)
    (hrg : mu.rg < rowGroups.length) (hcol : mu.col < cfg.cols.length)
    (hne : rowGroups[mu.rg] ≠ []) (hpage : mu.page = 0)
    (hun : mu.m.unsupportedFor cfg.cols[mu.col]) :
    readOutcome cfg.cols dc (specWrite cfg compress (some mu) cs rowGroups) =
      if mu.rg = 0 then .refusedAtOpen
      else .refused ((rowGroups.take mu.rg).flatten.map (fun r => (List.range cfg.cols.length).map fun i => r.getD i [])) := by
  refine readOutcome_specWrite_mut_aux cfg compress dc cs rowGroups mu hres hcodecs hdc hrecs hdef hlen hsize hrg hcol hne
    (Or.inl ?_) hun
  rw [hpage]
  apply specPageCount_pos
  rw [List.getD_eq_getElem?_getD, List.getElem?_eq_getElem hrg]
  exact hne

/-- an unsupported codec id in the chunk's metadata: whatever `mu.page` is (the codec is a property of the
chunk), as soon as the row group holds records -/
theorem readOutcome_specWrite_codec (cfg : SWCfg) (compress : Nat → Bytes → Bytes) (dc : Decomp) (cs : Choices)
    (rowGroups : List (List Rec)) (mu : MutAt) (k : Nat)
    (hres : ColsResolve cfg.cols)
    (hcodecs : cfg.codecs.length = cfg.cols.length ∧ ∀ c ∈ cfg.codecs, c ≤ 2)
    (hdc : ∀ raw, dc.snappy (compress 1 raw) = some raw ∧ dc.gzip (compress 2 raw) = some raw)
    (hrecs : ∀ rg ∈ rowGroups, ∀ r ∈ rg, ∀ x ∈ cfg.cols.zipIdx, RecColOK x.1 (r.getD x.2 []))
    (hdef : ∀ c ∈ cfg.cols, c.maxDef ≤ 15)
    (hlen : ∀ rg ∈ rowGroups, ∀ x ∈ cfg.cols.zipIdx, (rg.flatMap (·.getD x.2 [])).length + 8 ≤ 2 ^ 28)
    (hsize : (specWrite cfg compress (some mu) cs rowGroups).length < 2 ^ 32)
    (hrg : mu.rg < rowGroups.length) (hcol : mu.col < cfg.cols.length)
    (hne : rowGroups[mu.rg] ≠ []) (hm : mu.m = .codec k) (hk : 2 < k) :
    readOutcome cfg.cols dc (specWrite cfg compress (some mu) cs rowGroups) =
      if mu.rg = 0 then .refusedAtOpen
      else .refused ((rowGroups.take mu.rg).flatten.map (fun r => (List.range cfg.cols.length).map fun i => r.getD i [])) :=
  readOutcome_specWrite_mut_aux cfg compress dc cs rowGroups mu hres hcodecs hdc hrecs hdef hlen hsize hrg hcol hne
    (Or.inr (by rw [hm]; rfl)) (by rw [hm]; exact hk)

/-! ## Part H: the text driver `readAll` (the line compared with the Go program's) is determined by `readOutcome` -/

theorem readRowGroup_go_err : ∀ (chs : List ChunkMeta) (st st' : RState),
    RState.readRowGroup.go chs st = .ok st' → st'.err = st.err
  | [], st, st', h => by
    simp only [RState.readRowGroup.go, Except.ok.injEq] at h
    rw [← h]
  | ch :: chs, st, st', h => by
    rw [RState.readRowGroup.go] at h
    split at h
    · exact absurd h (by simp)
    · split at h
      · exact absurd h (by simp)
      · split at h
        · simp only [Except.ok.injEq] at h; rw [← h]
        · split at h
          · exact absurd h (by simp)
          · split at h
            · exact absurd h (by simp)
            · have := readRowGroup_go_err chs _ st' h
              exact this

theorem readRowGroup_err (st st' : RState) (h : st.readRowGroup = .ok st') : st'.err = st.err := by
  unfold RState.readRowGroup at h
  split at h
  · simp only [Except.ok.injEq] at h; rw [← h]
  · simp only at h
    split at h
    · exact absurd h (by simp)
    · next st2 hgo =>
      simp only [Except.ok.injEq] at h
      rw [← h]
      have := readRowGroup_go_err _ _ _ hgo
      exact this

theorem skipEmpty_err : ∀ (fuel : Nat) (st st' : RState), st.skipEmpty fuel = .ok st' → st'.err = st.err
  | 0, st, st', h => by simp only [RState.skipEmpty, Except.ok.injEq] at h; rw [← h]
  | fuel+1, st, st', h => by
    rw [RState.skipEmpty] at h
    split at h
    · cases hr : st.readRowGroup with
      | error e => rw [hr] at h; exact absurd h (by simp)
      | ok st2 =>
        rw [hr] at h
        simp only at h
        rw [skipEmpty_err fuel st2 st' h, readRowGroup_err _ _ hr]
    · simp only [Except.ok.injEq] at h; rw [← h]

/-- **`Next` = true leaves the error flag as it was**: from an error-free state the driver never sees "`Next`
true with `Error() ≠ nil`" (the case in which it does not call `Scan`) -/
theorem next_true_err (st st' : RState) (h : st.next = .ok (true, st')) : st'.err = st.err := by
  unfold RState.next at h
  split at h
  · simp only [Except.ok.injEq, Prod.mk.injEq] at h; exact absurd h.1 (by simp)
  · simp only at h
    by_cases hc : st.rgCursor ≥ st.rgCount
    · rw [if_pos hc] at h
      cases hr : st.readRowGroup with
      | error e =>
        rw [hr] at h
        cases e with
        | panic => exact absurd h (by simp)
        | err => simp only [Except.ok.injEq, Prod.mk.injEq] at h; exact absurd h.1 (by simp)
      | ok st2 =>
        rw [hr] at h
        simp only at h
        cases hs : st2.skipEmpty st2.rowGroups.length with
        | error e =>
          rw [hs] at h
          cases e with
          | panic => exact absurd h (by simp)
          | err => simp only [Except.ok.injEq, Prod.mk.injEq] at h; exact absurd h.1 (by simp)
        | ok st3 =>
          rw [hs] at h
          simp only [Except.ok.injEq, Prod.mk.injEq] at h
          rw [← h.2]
          show st3.err = st.err
          rw [skipEmpty_err _ _ _ hs, readRowGroup_err _ _ hr]
    · rw [if_neg hc] at h
      simp only [Except.ok.injEq, Prod.mk.injEq] at h
      rw [← h.2]

theorem openReader_err (cols : List Col) (dc : Decomp) (file : Bytes) (st : RState)
    (ho : openReader cols dc file = .ok st) : st.err = false := by
  unfold openReader at ho
  split at ho
  · exact absurd ho (by simp)
  · split at ho
    · exact absurd ho (by simp)
    · simp only at ho
      split at ho
      · exact absurd ho (by simp)
      · split at ho
        · exact absurd ho (by simp)
        · split at ho
          · exact absurd ho (by simp)
          · split at ho
            · exact absurd ho (by simp)
            · have := readRowGroup_err _ _ ho
              exact this

theorem outLoop_ne_open : ∀ (fuel : Nat) (st : RState) (acc : List Row), outLoop fuel st acc ≠ .refusedAtOpen
  | 0, st, acc => by rw [outLoop]; split <;> simp
  | fuel+1, st, acc => by
    rw [outLoop]
    split
    · simp
    · split <;> simp
    · split
      · exact outLoop_ne_open fuel _ _
      · split
        · simp
        · split
          · simp
          · exact outLoop_ne_open fuel _ _

/-- from an error-free state: whenever the entry-level loop ends with `Next` = false — `e`: whether with an
error — the text loop ends with that status, as many `Next`s and the texts of the same rows -/
theorem readAll_loop_of_outLoop : ∀ (fuel : Nat) (st : RState) (acc res : List Row) (e : Bool) (k : Nat)
    (recs : List String), st.err = false →
    outLoop fuel st acc = (if e then .refused res else .accepted res) →
    ∃ rows, res = acc ++ rows ∧
      readAll.loop fuel st k recs = (if e then "err" else "ok", k + rows.length, recs ++ rows.map (rowText st.cols))
  | 0, st, acc, res, e, k, recs, he0, h => by
    rw [outLoop, he0] at h
    rw [readAll.loop, he0]
    cases e <;> simp at h
    exact ⟨[], by simp [h], by simp⟩
  | fuel+1, st, acc, res, e, k, recs, he0, h => by
    rw [outLoop] at h
    rw [readAll.loop]
    cases hn : st.next with
    | error x => rw [hn] at h; cases e <;> simp at h
    | ok p =>
      obtain ⟨b, st'⟩ := p
      have hc := next_cols st st' b hn
      rw [hn] at h
      cases b with
      | false =>
        simp only at h ⊢
        cases he : st'.err <;> rw [he] at h <;> cases e <;> simp at h
        · exact ⟨[], by simp [h], by simp⟩
        · exact ⟨[], by simp [h], by simp⟩
      | true =>
        have he : st'.err = false := by rw [next_true_err st st' hn, he0]
        simp only at h ⊢
        rw [he] at h
        simp only [Bool.false_eq_true, if_false, he] at h ⊢
        by_cases hf : (!st'.fieldsSet) = true ∧ (!st'.cols.isEmpty) = true
        · rw [if_pos hf] at h; cases e <;> simp at h
        · rw [if_neg hf] at h ⊢
          rw [scanAll_eq]
          cases hs : scanAllEntries st'.cols st'.bufs with
          | none => rw [hs] at h; cases e <;> simp at h
          | some q =>
            obtain ⟨row, bufs⟩ := q
            rw [hs] at h
            simp only [Option.map_some] at h ⊢
            obtain ⟨rows, hr, hl⟩ := readAll_loop_of_outLoop fuel _ (acc ++ [row]) res e (k + 1)
              (recs ++ [rowText st'.cols row]) rfl h
            refine ⟨row :: rows, by rw [hr]; simp, ?_⟩
            rw [hl]
            simp only [hc, List.length_cons, List.map_cons, List.append_assoc, List.singleton_append, Nat.add_assoc,
              Nat.add_comm 1]

theorem status_line_err (a X : String) :
    a ++ toString " err=" ++ toString "err" ++ toString " recs=" ++ X = a ++ toString " err=err recs=" ++ X := by
  show a ++ " err=" ++ "err" ++ " recs=" ++ X = a ++ " err=err recs=" ++ X
  rw [show (" err=err recs=" : String) = " err=" ++ "err" ++ " recs=" by decide]
  simp only [String.append_assoc]

/-- **The text driver on a refused file**: a `refusedAtOpen` outcome is the line `open=err …`; a
`refused rows` outcome is `open=ok`, one `Next` per delivered row, `err=err`, and the `Scan` texts of exactly
those rows — the classes `E` and `e` of `classifyRead`. -/
theorem readAll_of_refused (cols : List Col) (dc : Decomp) (file : Bytes) :
    (readOutcome cols dc file = .refusedAtOpen → readAll cols dc file = "open=err rows=0 nexts=0 err=- recs=-") ∧
    (∀ rows, readOutcome cols dc file = .refused rows → ∃ n : Int, readAll cols dc file =
      s!"open=ok rows={n} nexts={rows.length} err=err recs={if (rows.map (rowText cols)).isEmpty then "-" else ";".intercalate (rows.map (rowText cols))}") := by
  unfold readOutcome readAll
  cases ho : openReader cols dc file with
  | error e =>
    cases e with
    | err => exact ⟨fun _ => rfl, fun rows h => absurd h (by simp)⟩
    | panic => exact ⟨fun h => absurd h (by simp), fun rows h => absurd h (by simp)⟩
  | ok st =>
    refine ⟨fun h => absurd h (outLoop_ne_open _ _ _), ?_⟩
    intro rows h
    obtain ⟨rows', hr, hloop⟩ := readAll_loop_of_outLoop _ st [] rows true 0 [] (openReader_err cols dc file st ho) h
    have hcols : st.cols = cols := openReader_cols cols dc file st ho
    simp only [List.nil_append] at hr hloop
    subst hr
    refine ⟨st.rows, ?_⟩
    simp only [hloop, hcols, Nat.zero_add, if_true]
    exact status_line_err _ _

/-- **C18 on the line the harness compares with the Go program**: for the mutated file the text driver prints
`open=err …` if the first row group is the mutated one, and otherwise `open=ok`, one `Next` per record of the
row groups before the mutated one, `err=err`, and the `Scan` texts of exactly those records. -/
theorem readAll_specWrite_mutated (cfg : SWCfg) (compress : Nat → Bytes → Bytes) (dc : Decomp) (cs : Choices)
    (rowGroups : List (List Rec)) (mu : MutAt)
    (hres : ColsResolve cfg.cols)
    (hcodecs : cfg.codecs.length = cfg.cols.length ∧ ∀ c ∈ cfg.codecs, c ≤ 2)
    (hdc : ∀ raw, dc.snappy (compress 1 raw) = some raw ∧ dc.gzip (compress 2 raw) = some raw)
    (hrecs : ∀ rg ∈ rowGroups, ∀ r ∈ rg, ∀ x ∈ cfg.cols.zipIdx, RecColOK x.1 (r.getD x.2 []))
    (hdef : ∀ c ∈ cfg.cols, c.maxDef ≤ 15)
    (hlen : ∀ rg ∈ rowGroups, ∀ x ∈ cfg.cols.zipIdx, (rg.flatMap (·.getD x.2 [])).length + 8 ≤ 2 ^ 28)
    (hsize : (specWrite cfg compress (some mu) cs rowGroups).length < 2 ^ 32)
    (hrg : mu.rg < rowGroups.length) (hcol : mu.col < cfg.cols.length)
    (hpage : mu.page < specPageCount cfg compress cs rowGroups mu.rg mu.col)
    (hun : mu.m.unsupportedFor cfg.cols[mu.col]) :
    (mu.rg = 0 → readAll cfg.cols dc (specWrite cfg compress (some mu) cs rowGroups) = "open=err rows=0 nexts=0 err=- recs=-") ∧
    (mu.rg ≠ 0 → ∃ n : Int, readAll cfg.cols dc (specWrite cfg compress (some mu) cs rowGroups) =
      s!"open=ok rows={n} nexts={(rowGroups.take mu.rg).flatten.length} err=err recs={if (((rowGroups.take mu.rg).flatten.map (rowOf cfg.cols.length)).map (rowText cfg.cols)).isEmpty then "-" else ";".intercalate (((rowGroups.take mu.rg).flatten.map (rowOf cfg.cols.length)).map (rowText cfg.cols))}") := by
  have h := readOutcome_specWrite_mutated cfg compress dc cs rowGroups mu hres hcodecs hdc hrecs hdef hlen hsize hrg hcol hpage hun
  obtain ⟨t1, t2⟩ := readAll_of_refused cfg.cols dc (specWrite cfg compress (some mu) cs rowGroups)
  constructor
  · intro h0
    rw [if_pos h0] at h
    exact t1 h
  · intro h0
    rw [if_neg h0] at h
    obtain ⟨n, hn⟩ := t2 _ h
    refine ⟨n, ?_⟩
    rw [hn, List.length_map]
    rfl

/-! ## Non-vacuity: two columns (snappy / gzip), statistics and unknown fields, three row groups -/
section NonVacuity

private def fmCols : List Col :=
  [{ path := ["a"], reps := [.req], ty := .i32 }, { path := ["b"], reps := [.rpt], ty := .i32 }]
private def fmCfg : SWCfg := { cols := fmCols, codecs := [1, 2], withStats := true, withExtras := true, padv := 3 }
private def fmDc : Decomp := { snappy := some, gzip := some }
/-- record `k`: `a = k`, `b = [k, k + 256]` for even `k` and `[]` for odd `k` -/
private def fmRec (k : Nat) : Rec :=
  [[{ rep := 0, dl := 0, val := some [k, 0, 0, 0] }],
   if k % 2 = 0 then [{ rep := 0, dl := 1, val := some [k, 0, 0, 0] }, { rep := 1, dl := 1, val := some [k, 1, 0, 0] }]
   else [{ rep := 0, dl := 0, val := none }]]
private def fmGroups : List (List Rec) := [[fmRec 1, fmRec 2, fmRec 3], [fmRec 4], [fmRec 5, fmRec 6]]
private def fmCs : Choices := [1, 0, 1, 1, 0, 2, 1, 5, 3, 0, 0, 1, 7, 2, 8, 1]

private theorem fm_hx : ∀ x ∈ fmCols.zipIdx, x = (⟨["a"], [.req], .i32⟩, 0) ∨ x = (⟨["b"], [.rpt], .i32⟩, 1) := by
  intro x hx; simpa [fmCols] using hx

private theorem fm_recOK (k : Nat) (hk : k < 10) : ∀ x ∈ fmCols.zipIdx, RecColOK x.1 ((fmRec k).getD x.2 []) := by
  intro x hx
  have hk' : k = 0 ∨ k = 1 ∨ k = 2 ∨ k = 3 ∨ k = 4 ∨ k = 5 ∨ k = 6 ∨ k = 7 ∨ k = 8 ∨ k = 9 := by omega
  rcases fm_hx x hx with rfl | rfl <;> rcases hk' with rfl | rfl | rfl | rfl | rfl | rfl | rfl | rfl | rfl | rfl <;>
    exact ⟨⟨_, _, rfl, rfl, by simp⟩, by decide, by decide⟩

private theorem fm_recs : ∀ rg ∈ fmGroups, ∀ r ∈ rg, ∀ x ∈ fmCols.zipIdx, RecColOK x.1 (r.getD x.2 []) := by
  intro rg hrg r hr
  simp only [fmGroups, List.mem_cons, List.mem_nil_iff, or_false] at hrg
  rcases hrg with rfl | rfl | rfl <;> simp only [List.mem_cons, List.mem_nil_iff, or_false] at hr
  · rcases hr with rfl | rfl | rfl
    · exact fm_recOK 1 (by decide)
    · exact fm_recOK 2 (by decide)
    · exact fm_recOK 3 (by decide)
  · subst hr; exact fm_recOK 4 (by decide)
  · rcases hr with rfl | rfl
    · exact fm_recOK 5 (by decide)
    · exact fm_recOK 6 (by decide)

private theorem fm_len : ∀ rg ∈ fmGroups, ∀ x ∈ fmCols.zipIdx, (rg.flatMap (·.getD x.2 [])).length + 8 ≤ 2 ^ 28 := by
  intro rg hrg x hx
  simp only [fmGroups, List.mem_cons, List.mem_nil_iff, or_false] at hrg
  rcases hrg with rfl | rfl | rfl <;> rcases fm_hx x hx with rfl | rfl <;> decide

/-- the theorem applied: a dictionary page in front of the SECOND page of column `b` in the first row group
(the first page of that chunk, and the whole chunk of column `a`, are read before it) — the constructor
returns an error -/
example : readOutcome fmCols fmDc (specWrite fmCfg (fun _ b => b) (some ⟨0, 1, 1, .dictPage⟩) fmCs fmGroups) = .refusedAtOpen :=
  readOutcome_specWrite_mutated fmCfg (fun _ b => b) fmDc fmCs fmGroups ⟨0, 1, 1, .dictPage⟩
    (colsResolve_of_check _ (by decide +kernel)) (by decide) (fun _ => ⟨rfl, rfl⟩) fm_recs (by decide) fm_len
    (by decide +kernel) (by decide) (by decide) (by decide +kernel) (by decide)

/-- a value encoding other than PLAIN (2 = PLAIN_DICTIONARY) on the page of column `a` in the second row
group: the three records of the first row group are delivered, then `Next` is false with an error -/
example : readOutcome fmCols fmDc (specWrite fmCfg (fun _ b => b) (some ⟨1, 0, 0, .valueEncoding 2⟩) fmCs fmGroups) =
    .refused [fmRec 1, fmRec 2, fmRec 3] :=
  readOutcome_specWrite_mutated fmCfg (fun _ b => b) fmDc fmCs fmGroups ⟨1, 0, 0, .valueEncoding 2⟩
    (colsResolve_of_check _ (by decide +kernel)) (by decide) (fun _ => ⟨rfl, rfl⟩) fm_recs (by decide) fm_len
    (by decide +kernel) (by decide) (by decide) (by decide +kernel) (by decide)

/-- codec id 6 (ZSTD) declared for column `b` in the last row group: the records of the two row groups before
it are delivered, then the error -/
example : readOutcome fmCols fmDc (specWrite fmCfg (fun _ b => b) (some ⟨2, 1, 7, .codec 6⟩) fmCs fmGroups) =
    .refused [fmRec 1, fmRec 2, fmRec 3, fmRec 4] :=
  readOutcome_specWrite_codec fmCfg (fun _ b => b) fmDc fmCs fmGroups ⟨2, 1, 7, .codec 6⟩ 6
    (colsResolve_of_check _ (by decide +kernel)) (by decide) (fun _ => ⟨rfl, rfl⟩) fm_recs (by decide) fm_len
    (by decide +kernel) (by decide) (by decide) (by decide) rfl (by decide)

/-- bit-packed (1) repetition levels on the repeated column `b`: refused; the same on the required column
`a`, which has no levels: not a mutation the property is about (`unsupportedFor` is false), and read normally -/
example : readOutcome fmCols fmDc (specWrite fmCfg (fun _ b => b) (some ⟨2, 1, 0, .repEncoding 1⟩) fmCs fmGroups) =
    .refused [fmRec 1, fmRec 2, fmRec 3, fmRec 4] :=
  readOutcome_specWrite_mutated_page0 fmCfg (fun _ b => b) fmDc fmCs fmGroups ⟨2, 1, 0, .repEncoding 1⟩
    (colsResolve_of_check _ (by decide +kernel)) (by decide) (fun _ => ⟨rfl, rfl⟩) fm_recs (by decide) fm_len
    (by decide +kernel) (by decide) (by decide) (by decide) rfl (by decide)
example : ¬ (Mutation.repEncoding 1).unsupportedFor fmCols[0] := by decide

/-- the same outcomes by kernel evaluation of the writer and reader models alone (`==` is the derived `BEq`) -/
example : (readOutcome fmCols fmDc (specWrite fmCfg (fun _ b => b) (some ⟨0, 1, 1, .dictPage⟩) fmCs fmGroups) ==
    .refusedAtOpen) = true := by decide +kernel
example : (readOutcome fmCols fmDc (specWrite fmCfg (fun _ b => b) (some ⟨1, 0, 0, .valueEncoding 2⟩) fmCs fmGroups) ==
    .refused [fmRec 1, fmRec 2, fmRec 3]) = true := by decide +kernel
example : (readOutcome fmCols fmDc (specWrite fmCfg (fun _ b => b) (some ⟨2, 1, 7, .codec 6⟩) fmCs fmGroups) ==
    .refused [fmRec 1, fmRec 2, fmRec 3, fmRec 4]) = true := by decide +kernel
example : (readOutcome fmCols fmDc (specWrite fmCfg (fun _ b => b) (some ⟨1, 1, 0, .indexPage⟩) fmCs fmGroups) ==
    .refused [fmRec 1, fmRec 2, fmRec 3]) = true := by decide +kernel
example : (readOutcome fmCols fmDc (specWrite fmCfg (fun _ b => b) (some ⟨2, 0, 0, .v2Page⟩) fmCs fmGroups) ==
    .refused [fmRec 1, fmRec 2, fmRec 3, fmRec 4]) = true := by decide +kernel
example : (readOutcome fmCols fmDc (specWrite fmCfg (fun _ b => b) (some ⟨2, 0, 0, .repEncoding 1⟩) fmCs fmGroups) ==
    .accepted [fmRec 1, fmRec 2, fmRec 3, fmRec 4, fmRec 5, fmRec 6]) = true := by decide +kernel
/-- only row groups without records before the mutated one: the first `Next` is false with the error, no row -/
example : (readOutcome fmCols fmDc (specWrite fmCfg (fun _ b => b) (some ⟨2, 1, 0, .defEncoding 4⟩) fmCs [[], [], [fmRec 1], []]) ==
    .refused []) = true := by decide +kernel
/-- a page index past the chunk's pages mutates nothing: the file is read normally -/
example : (readOutcome fmCols fmDc (specWrite fmCfg (fun _ b => b) (some ⟨0, 1, 5, .dictPage⟩) fmCs fmGroups) ==
    .accepted [fmRec 1, fmRec 2, fmRec 3, fmRec 4, fmRec 5, fmRec 6]) = true := by decide +kernel

/-! ### the same with parquet-mr style labels on the un-mutated pages (`mrLabels := true`) -/

private def fmCfgMr : SWCfg := { fmCfg with mrLabels := true }

/-- the theorem applied to a file with parquet-mr style labels: the chunk of the required column `a` (both level
encodings labelled BIT_PACKED) and the first page of column `b` are read, then the dictionary page is refused -/
example : readOutcome fmCols fmDc (specWrite fmCfgMr (fun _ b => b) (some ⟨0, 1, 1, .dictPage⟩) fmCs fmGroups) = .refusedAtOpen :=
  readOutcome_specWrite_mutated fmCfgMr (fun _ b => b) fmDc fmCs fmGroups ⟨0, 1, 1, .dictPage⟩
    (colsResolve_of_check _ (by decide +kernel)) (by decide) (fun _ => ⟨rfl, rfl⟩) fm_recs (by decide) fm_len
    (by decide +kernel) (by decide) (by decide) (by decide +kernel) (by decide)

/-- ... the whole first row group (labels `(4, 4)` on column `a`) is delivered before the refusal -/
example : readOutcome fmCols fmDc (specWrite fmCfgMr (fun _ b => b) (some ⟨1, 0, 0, .valueEncoding 2⟩) fmCs fmGroups) =
    .refused [fmRec 1, fmRec 2, fmRec 3] :=
  readOutcome_specWrite_mutated fmCfgMr (fun _ b => b) fmDc fmCs fmGroups ⟨1, 0, 0, .valueEncoding 2⟩
    (colsResolve_of_check _ (by decide +kernel)) (by decide) (fun _ => ⟨rfl, rfl⟩) fm_recs (by decide) fm_len
    (by decide +kernel) (by decide) (by decide) (by decide +kernel) (by decide)

/-- by kernel evaluation: the labels are in the file; a level-encoding label on the required column is no reason
to refuse, with either style of labels -/
example : specWrite fmCfgMr (fun _ b => b) (some ⟨1, 0, 0, .valueEncoding 2⟩) fmCs fmGroups ≠
    specWrite fmCfg (fun _ b => b) (some ⟨1, 0, 0, .valueEncoding 2⟩) fmCs fmGroups := by decide +kernel
example : (readOutcome fmCols fmDc (specWrite fmCfgMr (fun _ b => b) (some ⟨1, 0, 0, .valueEncoding 2⟩) fmCs fmGroups) ==
    .refused [fmRec 1, fmRec 2, fmRec 3]) = true := by decide +kernel
example : (readOutcome fmCols fmDc (specWrite fmCfgMr (fun _ b => b) (some ⟨2, 0, 0, .repEncoding 1⟩) fmCs fmGroups) ==
    .accepted [fmRec 1, fmRec 2, fmRec 3, fmRec 4, fmRec 5, fmRec 6]) = true := by decide +kernel

end NonVacuity

end PQ
