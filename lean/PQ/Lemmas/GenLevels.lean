import PQ.Model.GenLevels
/-!
# The generator's level arithmetic agrees with Dremel's, for every chain
-/
set_option linter.unusedSimpArgs false
namespace PQ.GenLevels
open PQ

@[simp] theorem beq_req_opt : (Rep.req == Rep.opt) = false := rfl
@[simp] theorem beq_req_rpt : (Rep.req == Rep.rpt) = false := rfl
@[simp] theorem beq_opt_opt : (Rep.opt == Rep.opt) = true := rfl
@[simp] theorem beq_opt_rpt : (Rep.opt == Rep.rpt) = false := rfl
@[simp] theorem beq_rpt_opt : (Rep.rpt == Rep.opt) = false := rfl
@[simp] theorem beq_rpt_rpt : (Rep.rpt == Rep.rpt) = true := rfl
@[simp] theorem counts_req : counts .req = false := rfl
@[simp] theorem counts_opt : counts .opt = true := rfl
@[simp] theorem counts_rpt : counts .rpt = true := rfl

theorem foldl_count_add (p : Rep → Bool) (l : List Rep) (a : Nat) :
    l.foldl (fun out r => if p r then out + 1 else out) a = a + (l.filter p).length := by
  induction l generalizing a with
  | nil => simp
  | cons r rs ih =>
    simp only [List.foldl_cons, List.filter_cons]
    by_cases h : p r = true
    · simp only [h, if_true, List.length_cons]; rw [ih]; omega
    · simp only [h, Bool.false_eq_true, if_false]; rw [ih]

theorem maxDef_filter (rts : List Rep) : maxDef rts = (rts.filter counts).length := by
  induction rts with
  | nil => rfl
  | cons r rs ih => cases r <;> simp [maxDef, List.filter_cons, ih]

theorem maxRep_filter (rts : List Rep) : maxRep rts = (rts.filter (· == .rpt)).length := by
  induction rts with
  | nil => rfl
  | cons r rs ih => cases r <;> simp [maxRep, List.filter_cons, ih]

/-- **`Field.MaxDef` is the Dremel maximum definition level of the column** -/
theorem gMaxDef_eq (rts : List Rep) : gMaxDef rts = maxDef rts := by
  unfold gMaxDef chain
  rw [foldl_count_add, maxDef_filter]
  simp [List.filter_cons]

/-- **`Field.MaxRep` is the Dremel maximum repetition level of the column** -/
theorem gMaxRep_eq (rts : List Rep) : gMaxRep rts = maxRep rts := by
  unfold gMaxRep chain
  rw [foldl_count_add, maxRep_filter]
  simp [List.filter_cons]

/-- `Field.IsRep(rep)`: the column's maximum repetition level is `rep` -/
theorem gIsRep_eq (rts : List Rep) (rep : Nat) : gIsRep rts rep = (maxRep rts == rep) := by
  unfold gIsRep; rw [gMaxRep_eq]

/-- the loop of `MaxRepForDef` from an arbitrary state: with `defs < d` fields counted so far -/
theorem maxRepForDefGo_spec (d : Nat) : ∀ (l : List Rep) (out defs : Nat), defs < d →
    maxRepForDefGo d l out defs = out + maxRep (beforeDef (d - defs) l) := by
  intro l
  induction l with
  | nil => intro out defs h; cases hd : d - defs <;> simp [maxRepForDefGo, beforeDef, maxRep]
  | cons r rs ih =>
    intro out defs h
    obtain ⟨k, hk⟩ : ∃ k, d - defs = k + 1 := ⟨d - defs - 1, by omega⟩
    rw [hk]
    unfold maxRepForDefGo beforeDef
    cases r with
    | req =>
      simp only [counts_req, beq_req_rpt, Bool.false_eq_true, if_false]
      rw [if_neg (by omega), ih out defs h, hk]
      simp [maxRep]
    | opt =>
      simp only [counts_opt, beq_opt_rpt, Bool.false_eq_true, if_false, if_true]
      by_cases hk0 : k = 0
      · subst hk0; rw [if_pos (by omega), if_pos rfl]; simp [maxRep]
      · rw [if_neg (by omega), if_neg hk0, ih out (defs + 1) (by omega)]
        have : d - (defs + 1) = k := by omega
        rw [this]; simp [maxRep]
    | rpt =>
      simp only [counts_rpt, beq_rpt_rpt, if_true]
      by_cases hk0 : k = 0
      · subst hk0; rw [if_pos (by omega), if_pos rfl]; simp [maxRep]
      · rw [if_neg (by omega), if_neg hk0, ih (out + 1) (defs + 1) (by omega)]
        have : d - (defs + 1) = k := by omega
        rw [this]; simp [maxRep]; omega

/-- **`Field.MaxRepForDef(d)`, `d ≥ 1`: the number of repeated fields strictly above the field that carries
definition level `d`** (all of them when `d` exceeds the maximum definition level) -/
theorem gMaxRepForDef_spec (rts : List Rep) (d : Nat) (h : 1 ≤ d) :
    gMaxRepForDef rts d = maxRep (beforeDef d rts) := by
  unfold gMaxRepForDef chain
  rw [maxRepForDefGo_spec d _ 0 0 (by omega)]
  obtain ⟨k, rfl⟩ : ∃ k, d = k + 1 := ⟨d - 1, by omega⟩
  simp [beforeDef, maxRep]

/-- `Field.MaxRepForDef(0)` is 0 (the loop returns at the root) -/
theorem gMaxRepForDef_zero (rts : List Rep) : gMaxRepForDef rts 0 = 0 := by
  simp [gMaxRepForDef, chain, maxRepForDefGo]

theorem beforeDef_prefix : ∀ (d : Nat) (l : List Rep), ∃ t, l = beforeDef d l ++ t
  | 0, l => ⟨l, by simp [beforeDef]⟩
  | d+1, [] => ⟨[], by simp [beforeDef]⟩
  | d+1, r :: ts => by
    unfold beforeDef
    by_cases hc : counts r = true
    · rw [if_pos hc]
      by_cases hd : d = 0
      · rw [if_pos hd]; exact ⟨r :: ts, rfl⟩
      · rw [if_neg hd]
        obtain ⟨t, ht⟩ := beforeDef_prefix d ts
        exact ⟨t, by rw [List.cons_append, ← ht]⟩
    · rw [if_neg hc]
      obtain ⟨t, ht⟩ := beforeDef_prefix (d+1) ts
      exact ⟨t, by rw [List.cons_append, ← ht]⟩

theorem maxRep_append (a b : List Rep) : maxRep (a ++ b) = maxRep a + maxRep b := by
  induction a with
  | nil => simp [maxRep]
  | cons r rs ih => cases r <;> simp [maxRep, ih] <;> omega

/-- it never exceeds the column's maximum repetition level -/
theorem gMaxRepForDef_le (rts : List Rep) (d : Nat) : gMaxRepForDef rts d ≤ maxRep rts := by
  by_cases h : 1 ≤ d
  · rw [gMaxRepForDef_spec rts d h]
    obtain ⟨t, ht⟩ := beforeDef_prefix d rts
    have := maxRep_append (beforeDef d rts) t
    rw [← ht] at this
    omega
  · have : d = 0 := by omega
    subst this; rw [gMaxRepForDef_zero]; exact Nat.zero_le _

/-- beyond the maximum definition level every field is "above" -/
theorem beforeDef_all : ∀ (d : Nat) (l : List Rep), maxDef l < d → beforeDef d l = l
  | 0, _, h => by omega
  | d+1, [], _ => by simp [beforeDef]
  | d+1, r :: ts, h => by
    unfold beforeDef
    cases r with
    | req => simp only [counts_req, Bool.false_eq_true, if_false]; rw [beforeDef_all (d+1) ts (by simpa [maxDef] using h)]
    | opt =>
      simp only [maxDef] at h
      simp only [counts_opt, beq_opt_rpt, Bool.false_eq_true, if_false, if_true]
      rw [if_neg (by omega), beforeDef_all d ts (by omega)]
    | rpt =>
      simp only [maxDef] at h
      simp only [counts_rpt, beq_rpt_rpt, if_true]
      rw [if_neg (by omega), beforeDef_all d ts (by omega)]

theorem gMaxRepForDef_beyond (rts : List Rep) (d : Nat) (h : maxDef rts < d) : gMaxRepForDef rts d = maxRep rts := by
  rw [gMaxRepForDef_spec rts d (by omega), beforeDef_all d rts h]

/-- the loop of `DefIndex` from an arbitrary state -/
theorem defIndexGo_spec (d : Nat) : ∀ (l : List Rep) (count i : Nat), count < d → d - count ≤ maxDef l →
    defIndexGo d l count i = i + (beforeDef (d - count) l).length := by
  intro l
  induction l with
  | nil => intro count i h h2; simp [maxDef] at h2; omega
  | cons r rs ih =>
    intro count i h h2
    obtain ⟨k, hk⟩ : ∃ k, d - count = k + 1 := ⟨d - count - 1, by omega⟩
    rw [hk]
    unfold defIndexGo beforeDef
    cases r with
    | req =>
      simp only [maxDef] at h2
      simp only [counts_req, beq_req_rpt, Bool.false_eq_true, if_false]
      rw [if_neg (by omega), ih count (i+1) h h2, hk]
      simp; omega
    | opt =>
      simp only [maxDef] at h2
      simp only [counts_opt, beq_opt_rpt, Bool.false_eq_true, if_false, if_true]
      by_cases hk0 : k = 0
      · subst hk0; rw [if_pos (by omega), if_pos rfl]; simp
      · rw [if_neg (by omega), if_neg hk0, ih (count + 1) (i+1) (by omega) (by omega)]
        have : d - (count + 1) = k := by omega
        rw [this]; simp; omega
    | rpt =>
      simp only [maxDef] at h2
      simp only [counts_rpt, beq_rpt_rpt, if_true]
      by_cases hk0 : k = 0
      · subst hk0; rw [if_pos (by omega), if_pos rfl]; simp
      · rw [if_neg (by omega), if_neg hk0, ih (count + 1) (i+1) (by omega) (by omega)]
        have : d - (count + 1) = k := by omega
        rw [this]; simp; omega

/-- **`Field.DefIndex(d)`, `1 ≤ d ≤ MaxDef`: the position (in the chain that starts with the root) of the field
that carries definition level `d`** -/
theorem gDefIndex_spec (rts : List Rep) (d : Nat) (h1 : 1 ≤ d) (h2 : d ≤ maxDef rts) :
    gDefIndex rts d = (beforeDef d rts).length + 1 := by
  unfold gDefIndex chain
  have := defIndexGo_spec d (.req :: rts) 0 0 (by omega) (by simpa [maxDef] using h2)
  rw [this]
  obtain ⟨k, rfl⟩ : ∃ k, d = k + 1 := ⟨d - 1, by omega⟩
  simp [beforeDef]

end PQ.GenLevels

namespace PQ.GenLevels
open PQ

/-- the loop of `NilField` from an arbitrary state with `count ≤ n` fields counted: it stops at the field
that carries definition level `n + 1` -/
theorem nilFieldGo_spec (n : Nat) : ∀ (l : List Rep) (count reps j : Nat) (o : Rep), count ≤ n → n + 1 - count ≤ maxDef l →
    nilFieldGo n l count reps j o =
      (j + (beforeDef (n + 1 - count) l).length,
       (l.drop (beforeDef (n + 1 - count) l).length).headD .req,
       reps + maxRep (l.take ((beforeDef (n + 1 - count) l).length + 1))) := by
  intro l
  induction l with
  | nil => intro count reps j o h h2; simp [maxDef] at h2; omega
  | cons r rs ih =>
    intro count reps j o h h2
    obtain ⟨k, hk⟩ : ∃ k, n + 1 - count = k + 1 := ⟨n - count, by omega⟩
    rw [hk]
    unfold nilFieldGo beforeDef
    cases r with
    | req =>
      simp only [maxDef] at h2
      simp only [counts_req, beq_req_rpt, Bool.false_eq_true, if_false]
      rw [if_neg (by omega)]
      cases rs with
      | nil => simp [maxDef] at h2; omega
      | cons r2 rs2 =>
        simp only
        rw [ih count reps (j+1) .req h h2, hk]
        simp [maxRep]; omega
    | opt =>
      simp only [maxDef] at h2
      simp only [counts_opt, beq_opt_rpt, Bool.false_eq_true, if_false, if_true]
      by_cases hk0 : k = 0
      · subst hk0; rw [if_pos (by omega), if_pos rfl]; simp [maxRep]
      · rw [if_neg (by omega), if_neg hk0]
        cases rs with
        | nil => simp [maxDef] at h2; omega
        | cons r2 rs2 =>
          simp only
          rw [ih (count + 1) reps (j+1) .opt (by omega) (by omega)]
          have : n + 1 - (count + 1) = k := by omega
          rw [this]; simp [maxRep]; omega
    | rpt =>
      simp only [maxDef] at h2
      simp only [counts_rpt, beq_rpt_rpt, if_true]
      by_cases hk0 : k = 0
      · subst hk0; rw [if_pos (by omega), if_pos rfl]; simp [maxRep]
      · rw [if_neg (by omega), if_neg hk0]
        cases rs with
        | nil => simp [maxDef] at h2; omega
        | cons r2 rs2 =>
          simp only
          rw [ih (count + 1) (reps + 1) (j+1) .rpt (by omega) (by omega)]
          have : n + 1 - (count + 1) = k := by omega
          rw [this]; simp [maxRep]; omega

/-- **`Field.NilField(n)`, `n < MaxDef`: the field that carries definition level `n + 1`** — its index in
`RepetitionTypes()`, its repetition type, and the number of repeated fields down to and including it -/
theorem gNilField_spec (rts : List Rep) (n : Nat) (h : n < maxDef rts) :
    gNilField rts n = ((beforeDef (n + 1) rts).length, (rts.drop (beforeDef (n + 1) rts).length).headD .req,
                       maxRep (rts.take ((beforeDef (n + 1) rts).length + 1))) := by
  unfold gNilField
  rw [nilFieldGo_spec n rts 0 0 0 .req (by omega) (by omega)]
  simp

/-- non-vacuity: Document.Names.Language.Code (`[rpt, rpt, req]`) -/
example : gMaxDef [.rpt, .rpt, .req] = 2 ∧ gMaxRep [.rpt, .rpt, .req] = 2 ∧ gMaxRepForDef [.rpt, .rpt, .req] 2 = 1 ∧
    gDefIndex [.rpt, .rpt, .req] 2 = 2 ∧ gNilField [.rpt, .rpt, .req] 1 = (1, .rpt, 2) := by decide

end PQ.GenLevels
