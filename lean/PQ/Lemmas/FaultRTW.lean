import PQ.Lemmas.FaultRT
import PQ.Lemmas.ReaderRT
/-!
# C10 on the files of the library's own writer model, and the no-fault case

* `outLoopF_ge` / `readOutcomeF_ge`: a budget of source-touching calls at least as large as the number of
  `Next` calls the driver makes is never used up: the run is the run over a healthy source.
* `outLoopF_batches` / `readOutcomeF_runWriter`: `outLoopF_good_then_fault` / `readOutcomeF_specWrite`
  (FaultRT.lean) for the files `fileBytes (runWriter …)` of the writer model, in the `prgsOf` / `fileMetas`
  description of the file `readAll_runWriter` (ReaderRT.lean) uses (that proof does not go through `GRG`).
-/
namespace PQ
open PQ.Thrift

/-! ## a budget that is never used up -/

theorem nextF_pos (st : RState) (k : Nat) : st.nextF (k + 1) = (st.next, if st.touches then k else k + 1) := by
  cases h : st.touches with
  | true => rw [nextF_succ st k h]; rfl
  | false => rw [nextF_inside st (k + 1) h]; rfl

/-- the loop calls `Next` at most `fuel` times, each call uses up at most one unit of the budget: with
`fuel ≤ k` the failing branch of `nextF` is never taken -/
theorem outLoopF_ge : ∀ (fuel : Nat) (st : RState) (k : Nat) (acc : List Row), fuel ≤ k →
    outLoopF fuel st k acc = outLoop fuel st acc
  | 0, st, k, acc, _ => by rw [outLoopF, outLoop]
  | fuel+1, st, k, acc, hk => by
    obtain ⟨k', rfl⟩ : ∃ k', k = k' + 1 := ⟨k - 1, by omega⟩
    obtain ⟨k'', hk'', hnf⟩ : ∃ k'', fuel ≤ k'' ∧ st.nextF (k' + 1) = (st.next, k'') := by
      refine ⟨_, ?_, nextF_pos st k'⟩
      split <;> omega
    have ih : ∀ (st' : RState) (acc' : List Row), outLoopF fuel st' k'' acc' = outLoop fuel st' acc' :=
      fun st' acc' => outLoopF_ge fuel st' k'' acc' hk''
    rw [outLoopF, outLoop, hnf]
    cases hn : st.next with
    | error e => rfl
    | ok p =>
      obtain ⟨b, st'⟩ := p
      cases b with
      | false => rfl
      | true =>
        simp only [ih]
        by_cases he : st'.err = true
        · rw [if_pos he, if_pos he]
        · rw [if_neg he, if_neg he]
          by_cases hc : (!st'.fieldsSet) = true ∧ (!st'.cols.isEmpty) = true
          · rw [if_pos hc, if_pos hc]
          · rw [if_neg hc, if_neg hc]
            cases hs : scanAllEntries st'.cols st'.bufs with
            | none => rfl
            | some q => rfl

/-- with a budget of more source-touching calls than the driver makes API calls (the constructor and at most
`Rows() + 3` `Next`s) the fault never happens: the outcome is that of the healthy source -/
theorem readOutcomeF_ge (cols : List Col) (dc : Decomp) (file : Bytes) (k : Nat)
    (h : ∀ st, openReader cols dc file = .ok st → (st.rows + 3).toNat ≤ k) :
    readOutcomeF cols dc file (k + 1) = readOutcome cols dc file := by
  unfold readOutcomeF readOutcome
  rw [openReaderF_succ]
  cases ho : openReader cols dc file with
  | error e => cases e <;> rfl
  | ok st =>
    simp only
    exact outLoopF_ge _ st k [] (h st ho)

/-! ## the files of the writer model -/

theorem fileMetas_prgsOf_ne_nil (k : Codec) (cols : List Col) (max : Nat) (bs : List (List Rec)) (pos : Nat) (h : bs ≠ []) :
    fileMetas k (prgsOf cols max bs) pos ≠ [] := by
  cases bs with
  | nil => exact absurd rfl h
  | cons b bs => rw [prgsOf_cons, fileMetas]; exact List.cons_ne_nil _ _

/-- **The `Next`/`Scan` loop over a source that fails at the load number `bsB.length + 1` from here**, on the
row groups of written batches (`readLoop_inv` with the fault).  `rs`: the records of the loaded row group not
yet delivered; `bsB`: the batches whose loads still succeed; `T`: the batches after them (`T ≠ []`, and the
cursor has not reached `Rows()` when its first row group is to be loaded). -/
theorem outLoopF_batches (dc : Decomp) (k : Codec) (cols : List Col) {max : Nat} (hmax : 1 ≤ max) (hres : ColsResolve cols)
    (N : Int) (post : Bytes) (T : List (List Rec)) (hT : ∀ b ∈ T, b ≠ [] ∧ BatchOK dc k cols max b) (hTne : T ≠ []) :
    ∀ (fuel : Nat) (bsB : List (List Rec)), (∀ b ∈ bsB, b ≠ [] ∧ BatchOK dc k cols max b) →
    ∀ (rs : List Rec), (∀ r ∈ rs, ∀ x ∈ cols.zipIdx, RecRd x.1 (r.getD x.2 [])) →
    ∀ (pre : Bytes) (cu rc rn : Int) (acc : List Row),
      cu + (rs.length : Nat) + (((bsB.map List.length).sum : Nat) : Int) < N →
      rn = rc + (rs.length : Nat) →
      rs.length + (bsB.map List.length).sum < fuel →
      outLoopF fuel
          { cols := cols, dc := dc, src := Src.mk (pre ++ prgsBytes k (prgsOf cols max (bsB ++ T)) ++ post) pre.length,
            rows := N, cursor := cu, rgCursor := rc, rgCount := rn,
            pages := pagesFor cols.length k (prgsOf cols max (bsB ++ T)),
            rowGroups := fileMetas k (prgsOf cols max (bsB ++ T)) pre.length, bufs := bufsOf cols rs, err := false,
            fieldsSet := true } bsB.length acc =
        .refused (acc ++ (rs ++ bsB.flatten).map (rowOf cols.length)) := by
  intro fuel
  induction fuel with
  | zero => intro _ _ _ _ _ _ _ _ _ _ _ hf; omega
  | succ f ih =>
    intro bsB hbs rs hrs pre cu rc rn acc hN hrn hf
    cases rs with
    | cons r rs =>
      simp only [List.length_cons, Int.natCast_add, Int.natCast_one] at hN hrn hf
      have hnext := next_within { cols := cols, dc := dc, src := Src.mk (pre ++ prgsBytes k (prgsOf cols max (bsB ++ T)) ++ post) pre.length, rows := N, cursor := cu, rgCursor := rc, rgCount := rn, pages := pagesFor cols.length k (prgsOf cols max (bsB ++ T)), rowGroups := fileMetas k (prgsOf cols max (bsB ++ T)) pre.length, bufs := bufsOf cols (r :: rs), err := false, fieldsSet := true }
        rfl (by simp only; omega) (by simp only; omega)
      have hnf := nextF_inside { cols := cols, dc := dc, src := Src.mk (pre ++ prgsBytes k (prgsOf cols max (bsB ++ T)) ++ post) pre.length, rows := N, cursor := cu, rgCursor := rc, rgCount := rn, pages := pagesFor cols.length k (prgsOf cols max (bsB ++ T)), rowGroups := fileMetas k (prgsOf cols max (bsB ++ T)) pre.length, bufs := bufsOf cols (r :: rs), err := false, fieldsSet := true }
        bsB.length (touches_inside _ (by simp only; omega))
      rw [hnext] at hnf
      rw [outLoopF_step f _ _ _ _ acc _ _ hnf rfl rfl (scanAll_bufsOf cols r rs hrs)]
      simp only
      rw [ih bsB hbs rs (fun r' hr' => hrs r' (List.mem_cons_of_mem _ hr')) pre (cu + 1) (rc + 1) rn (acc ++ [rowOf cols.length r])
        (by omega) (by omega) (by omega)]
      simp
    | nil =>
      simp only [List.length_nil, Int.natCast_zero, Int.add_zero, Nat.zero_add] at hN hrn hf
      cases bsB with
      | nil =>
        simp only [List.nil_append, List.length_nil]
        rw [outLoopF_fault_now f _ acc (touches_boundary _ rfl (by simpa using hN) (by simp only; omega)
          (fileMetas_prgsOf_ne_nil k cols max T _ hTne))]
        simp
      | cons b bs =>
        have hbs' : ∀ b' ∈ bs, b' ≠ [] ∧ BatchOK dc k cols max b' := fun b' hb' => hbs b' (List.mem_cons_of_mem _ hb')
        have hall : ∀ b' ∈ b :: (bs ++ T), b' ≠ [] ∧ BatchOK dc k cols max b' := by
          intro b' hb'
          rcases List.mem_cons.mp hb' with rfl | h
          · exact hbs _ List.mem_cons_self
          · rcases List.mem_append.mp h with h | h
            · exact hbs' b' h
            · exact hT b' h
        obtain ⟨hb, hok⟩ := hbs b List.mem_cons_self
        obtain ⟨_, _, _, hrecs⟩ := batch_rd dc k cols hmax b hb hok
        cases b with
        | nil => exact absurd rfl hb
        | cons r b' =>
          simp only [List.map_cons, List.sum_cons, List.length_cons, Int.natCast_add, Int.natCast_one] at hN hf
          simp only [List.cons_append, List.length_cons]
          have hload := readRowGroup_batch dc k cols hmax hres (r :: b') (bs ++ T) hall pre post N cu rc rn (bufsOf cols []) true
          have hnext := next_load _ _ rfl (by simp only; omega) (by simp only; omega) hload
            (by simp only [List.length_cons]; omega)
          have hnf := nextF_succ { cols := cols, dc := dc, src := Src.mk (pre ++ prgsBytes k (prgsOf cols max ((r :: b') :: (bs ++ T))) ++ post) pre.length, rows := N, cursor := cu, rgCursor := rc, rgCount := rn, pages := pagesFor cols.length k (prgsOf cols max ((r :: b') :: (bs ++ T))), rowGroups := fileMetas k (prgsOf cols max ((r :: b') :: (bs ++ T))) pre.length, bufs := bufsOf cols [], err := false, fieldsSet := true }
            bs.length (touches_boundary _ rfl (by simp only; omega) (by simp only; omega)
              (fileMetas_prgsOf_ne_nil k cols max _ _ (List.cons_ne_nil _ _)))
          rw [hnext] at hnf
          rw [outLoopF_step f _ _ _ _ acc _ _ hnf rfl rfl (scanAll_bufsOf cols r b' hrecs)]
          simp only
          have hfile2 : pre ++ prgsBytes k (prgsOf cols max ((r :: b') :: (bs ++ T))) ++ post =
              (pre ++ pitemsBytes k (batchPItems cols max (r :: b'))) ++ prgsBytes k (prgsOf cols max (bs ++ T)) ++ post := by
            rw [prgsOf_cons, prgsBytes_cons]; simp only [List.append_assoc]
          have := ih bs hbs' b' (fun r' hr' => hrecs r' (List.mem_cons_of_mem _ hr'))
            (pre ++ pitemsBytes k (batchPItems cols max (r :: b'))) (cu + 1) (0 + 1) ((r :: b').length : Nat)
            (acc ++ [rowOf cols.length r]) (by omega)
            (by simp only [List.length_cons, Int.natCast_add, Int.natCast_one]; omega) (by omega)
          rw [← hfile2] at this
          rw [this]
          simp

/-- **C10 on the files of the writer model.**  Every `Close`d history of `Add`s and `Write`s whose batches are
`BatchOK` (the hypotheses of `readAll_runWriter`), read back over a source that fails during the constructor
(`j = 0`) or during the `Next` call that loads row group `j` (the row groups are the batches of the history; the
writer never emits an empty one): exactly the records of the batches before it are delivered, then `Next` is
false with the error set; never a panic, never acceptance. -/
theorem readOutcomeF_runWriter (dc : Decomp) (k : Codec) (cols : List Col) (max : Nat) (body : List Op) (j : Nat)
    (hmax : 1 ≤ max) (hcols : cols ≠ []) (hres : ColsResolve cols) (hbody : ∀ op ∈ body, op.isClose = false)
    (hok : ∀ b ∈ batches body, BatchOK dc k cols max b)
    (hsize : (fileBytes (runWriter cols max k (body ++ [Op.close]))).length < 2 ^ 32)
    (se : List SElem) (hschema : schemaElems cols = some se)
    (hj : j < (batches body).length) :
    readOutcomeF cols dc (fileBytes (runWriter cols max k (body ++ [Op.close]))) j =
      if j = 0 then .refusedAtOpen
      else .refused (((batches body).take j).flatten.map (fun r => (List.range cols.length).map fun i => r.getD i [])) := by
  by_cases hj0 : j = 0
  · subst hj0
    rw [readOutcomeF_open]
    rfl
  rw [if_neg hj0]
  have ot := PQ.C06.offsets_truthful hmax cols hcols k body hbody se hschema
  simp only at ot
  obtain ⟨_, _, hfile, _, _, _⟩ := ot
  have hne : ∀ b ∈ batches body, b ≠ [] := batchesAux_ne_nil body []
  have hbs : ∀ b ∈ batches body, b ≠ [] ∧ BatchOK dc k cols max b := fun b hb => ⟨hne b hb, hok b hb⟩
  have hdata : ((batches body).map (batchItems cols max k)).flatMap itemsBytes = prgsBytes k (prgsOf cols max (batches body)) := by
    unfold prgsBytes prgsOf pitemsBytes
    rw [List.flatMap_map, List.flatMap_map]
    simp only [batchItems_eq]
  have hrgs : rgTs k.id ((batches body).map fun b => (b.length, batchItems cols max k b)) 4 =
      rgTs k.id ((prgsOf cols max (batches body)).map fun g => (g.1, g.2.map (mkItem k))) 4 := by
    unfold prgsOf
    rw [List.map_map]
    simp only [batchItems_eq]
    rfl
  rw [hdata, hrgs] at hfile
  have hse : se ≠ [] := schemaElems_ne_nil cols se hschema
  generalize hN : ((batches body).map List.length).sum = N at hfile ⊢
  generalize hR : rgTs k.id ((prgsOf cols max (batches body)).map fun g => (g.1, g.2.map (mkItem k))) 4 = rgs at hfile
  have hrwf : ∀ t ∈ rgs, t.ecode = tStruct ∧ t.WF ∧ t.dep ≤ 5 := by rw [← hR]; exact rgTs_wf _ _ _
  have hrdec : rgs.mapM decRG = some (fileMetas k (prgsOf cols max (batches body)) 4) := by
    rw [← hR]; exact mapM_decRG_rgTs k _ 4
  change fileBytes (runWriter cols max k (body ++ [Op.close])) =
    par1 ++ prgsBytes k (prgsOf cols max (batches body)) ++
      ((footerOf se N rgs).enc ++ le32 (footerOf se N rgs).enc.length ++ par1) at hfile
  have hn : (footerOf se N rgs).enc.length < 2 ^ 32 := by
    rw [hfile] at hsize
    simp only [List.length_append] at hsize
    omega
  have hopen := openReader_layout dc k cols hres (prgsOf cols max (batches body))
    (prgsOf_cols dc k cols hmax _ hbs) se hse N rgs hrwf hrdec _ _ hfile hn
  generalize hpost : (footerOf se N rgs).enc ++ le32 (footerOf se N rgs).enc.length ++ par1 = post at hfile
  generalize fileBytes (runWriter cols max k (body ++ [Op.close])) = file at hfile hopen ⊢
  subst hfile
  have hp4 : par1.length = 4 := rfl
  generalize hB : batches body = bs at hbs hN hopen hj ⊢
  -- split at the failing load
  obtain ⟨j', rfl⟩ : ∃ j', j = j' + 1 := ⟨j - 1, by omega⟩
  have hsplit : bs = bs.take (j' + 1) ++ bs.drop (j' + 1) := (List.take_append_drop _ bs).symm
  have hTne : bs.drop (j' + 1) ≠ [] := by
    intro h
    have := congrArg List.length h
    simp only [List.length_drop, List.length_nil] at this
    omega
  have hTpos : 0 < ((bs.drop (j' + 1)).map List.length).sum := by
    cases hd : bs.drop (j' + 1) with
    | nil => exact absurd hd hTne
    | cons g T' =>
      have hg : g ∈ bs := List.mem_of_mem_drop (by rw [hd]; exact List.mem_cons_self)
      have : 0 < g.length := List.length_pos_iff.mpr (hbs g hg).1
      simp only [List.map_cons, List.sum_cons]
      omega
  have hTok : ∀ b ∈ bs.drop (j' + 1), b ≠ [] ∧ BatchOK dc k cols max b := fun b hb => hbs b (List.mem_of_mem_drop hb)
  generalize bs.drop (j' + 1) = T at hsplit hTne hTpos hTok
  cases bs with
  | nil => simp at hj
  | cons b bs' =>
    rw [List.take_succ_cons] at hsplit ⊢
    have hBok : ∀ b' ∈ bs'.take j', b' ≠ [] ∧ BatchOK dc k cols max b' :=
      fun b' hb' => hbs b' (List.mem_cons_of_mem _ (List.mem_of_mem_take hb'))
    have hBlen : (bs'.take j').length = j' := by
      rw [List.length_take]; simp only [List.length_cons] at hj; omega
    have htail : bs' = bs'.take j' ++ T := by
      simp only [List.cons_append, List.cons.injEq, true_and] at hsplit
      exact hsplit
    generalize bs'.take j' = bsB at hBok hBlen htail ⊢
    subst htail
    subst hBlen
    have hload := readRowGroup_batch dc k cols hmax hres b (bsB ++ T) hbs par1 post (N : Int) 0 0 0
      (List.replicate cols.length {}) false
    rw [hp4] at hload
    rw [hload] at hopen
    unfold readOutcomeF
    rw [openReaderF_succ, hopen]
    simp only
    have hfile2 : par1 ++ prgsBytes k (prgsOf cols max (b :: (bsB ++ T))) ++ post =
        (par1 ++ pitemsBytes k (batchPItems cols max b)) ++ prgsBytes k (prgsOf cols max (bsB ++ T)) ++ post := by
      rw [prgsOf_cons, prgsBytes_cons]; simp only [List.append_assoc]
    obtain ⟨_, _, _, hrecs⟩ := batch_rd dc k cols hmax b (hbs b List.mem_cons_self).1 (hbs b List.mem_cons_self).2
    simp only [List.map_cons, List.sum_cons, List.map_append, List.sum_append] at hN
    have := outLoopF_batches dc k cols hmax hres (N : Int) post T hTok hTne (((N : Int) + 3).toNat) bsB hBok b hrecs
      (par1 ++ pitemsBytes k (batchPItems cols max b)) 0 0 (b.length : Nat) []
      (by rw [← hN]; simp only [Int.natCast_add]; omega) (by simp) (by omega)
    rw [← hfile2] at this
    rw [this]
    have hrow : rowOf cols.length = fun r : Rec => (List.range cols.length).map fun i => r.getD i [] := rfl
    rw [hrow]
    simp


/-! ## Non-vacuity: two columns, `max = 2`, history add ×3, write, write, add ×2, write, add, write, close: three row groups -/
section NonVacuity

private def fwxCols : List Col :=
  [{ path := ["a"], reps := [.req], ty := .i32 }, { path := ["b"], reps := [.rpt], ty := .i32 }]
private def fwxCodec : Codec := { id := 0, compress := id }
private def fwxDc : Decomp := { snappy := fun _ => none, gzip := fun _ => none }
private def fwxRec (k : Nat) : Rec :=
  [[{ rep := 0, dl := 0, val := some [k, 0, 0, 0] }],
   if k % 2 = 0 then [{ rep := 0, dl := 1, val := some [k, 0, 0, 0] }, { rep := 1, dl := 1, val := some [k, 1, 0, 0] }]
   else [{ rep := 0, dl := 0, val := none }]]
private def fwxBody : List Op :=
  [.add (fwxRec 1), .add (fwxRec 2), .add (fwxRec 3), .write, .write, .add (fwxRec 4), .add (fwxRec 5), .write, .add (fwxRec 6), .write]
private def fwxSe : List SElem :=
  [{ name := "root", numChildren := some 2 }, { name := "a", ty := some 1, rep := some 0 },
   { name := "b", ty := some 1, rep := some 2 }]

private theorem fwx_batches : batches fwxBody = [[fwxRec 1, fwxRec 2, fwxRec 3], [fwxRec 4, fwxRec 5], [fwxRec 6]] := by decide

private theorem fwx_ok : ∀ b ∈ batches fwxBody, BatchOK fwxDc fwxCodec fwxCols 2 b := by
  rw [fwx_batches]
  intro b hb
  have hx' : ∀ x ∈ fwxCols.zipIdx, x = (⟨["a"], [.req], .i32⟩, 0) ∨ x = (⟨["b"], [.rpt], .i32⟩, 1) := by
    intro x hx; simpa [fwxCols] using hx
  have hb' : b = [fwxRec 1, fwxRec 2, fwxRec 3] ∨ b = [fwxRec 4, fwxRec 5] ∨ b = [fwxRec 6] := by simpa using hb
  rcases hb' with rfl | rfl | rfl
  · apply batchOK_of_records fwxDc fwxCodec fwxCols (by decide)
    · decide
    · intro r hr x hx
      have hr' : r = fwxRec 1 ∨ r = fwxRec 2 ∨ r = fwxRec 3 := by simpa using hr
      rcases hx' x hx with rfl | rfl <;> rcases hr' with rfl | rfl | rfl <;>
        exact ⟨⟨_, _, rfl, rfl, by simp⟩, by decide, by decide⟩
    · decide
    · intro x hx
      rcases hx' x hx with rfl | rfl <;> decide
    · intro raw; exact Or.inl ⟨rfl, rfl⟩
  · apply batchOK_of_records fwxDc fwxCodec fwxCols (by decide)
    · decide
    · intro r hr x hx
      have hr' : r = fwxRec 4 ∨ r = fwxRec 5 := by simpa using hr
      rcases hx' x hx with rfl | rfl <;> rcases hr' with rfl | rfl <;>
        exact ⟨⟨_, _, rfl, rfl, by simp⟩, by decide, by decide⟩
    · decide
    · intro x hx
      rcases hx' x hx with rfl | rfl <;> decide
    · intro raw; exact Or.inl ⟨rfl, rfl⟩
  · apply batchOK_of_records fwxDc fwxCodec fwxCols (by decide)
    · decide
    · intro r hr x hx
      have hr' : r = fwxRec 6 := by simpa using hr
      subst hr'
      rcases hx' x hx with rfl | rfl <;>
        exact ⟨⟨_, _, rfl, rfl, by simp⟩, by decide, by decide⟩
    · decide
    · intro x hx
      rcases hx' x hx with rfl | rfl <;> decide
    · intro raw; exact Or.inl ⟨rfl, rfl⟩

/-- the theorem applied — all hypotheses discharged: the source fails during the `Next` that loads the third
row group; the five records of the first two are delivered, then the error -/
example : readOutcomeF fwxCols fwxDc (fileBytes (runWriter fwxCols 2 fwxCodec (fwxBody ++ [Op.close]))) 2 =
    .refused [fwxRec 1, fwxRec 2, fwxRec 3, fwxRec 4, fwxRec 5] := by
  have := readOutcomeF_runWriter fwxDc fwxCodec fwxCols 2 fwxBody 2 (by decide) (by decide)
    (colsResolve_of_check _ (by decide +kernel)) (by decide) fwx_ok (by decide +kernel) fwxSe (by decide +kernel)
    (by rw [fwx_batches]; decide)
  rw [fwx_batches] at this
  exact this

/-- by kernel evaluation of the models alone: every failing call index, and a budget that is not used up -/
example : (readOutcomeF fwxCols fwxDc (fileBytes (runWriter fwxCols 2 fwxCodec (fwxBody ++ [Op.close]))) 1 ==
    .refused [fwxRec 1, fwxRec 2, fwxRec 3]) = true := by decide +kernel
example : (readOutcomeF fwxCols fwxDc (fileBytes (runWriter fwxCols 2 fwxCodec (fwxBody ++ [Op.close]))) 3 ==
    .accepted [fwxRec 1, fwxRec 2, fwxRec 3, fwxRec 4, fwxRec 5, fwxRec 6]) = true := by decide +kernel

end NonVacuity

end PQ
