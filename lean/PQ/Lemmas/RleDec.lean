import PQ.Model.Rle
import PQ.Lemmas.BitpackNat
import PQ.Lemmas.RleEnc
/-!
# The specification decoder inverts the specification serialisation

`specRuns_ser`: for every width and every list of well-formed runs (any mix, any lengths, multi-byte
headers), `specRuns` applied to `serRuns w runs` returns the runs' values.
-/
namespace PQ
open PQ.Gen

/-! ### ULEB128 -/

theorem uleb_length_pos (n : Nat) : 0 < (uleb n).length := by
  rw [uleb]; split <;> simp

theorem uleb_ne_nil (n : Nat) : uleb n ≠ [] := by
  intro h
  have := uleb_length_pos n
  rw [h] at this
  simp at this

theorem uleb_lt (n : Nat) : ∀ b ∈ uleb n, b < 256 := by
  induction n using Nat.strongRecOn with
  | _ n ih =>
    rw [uleb]
    by_cases h : n / 128 ≠ 0
    · rw [dif_pos h]
      intro b hb
      simp only [List.mem_cons] at hb
      rcases hb with rfl | hb
      · omega
      · exact ih (n / 128) (by omega) b hb
    · rw [dif_neg h]
      intro b hb
      simp only [List.mem_singleton] at hb
      omega

theorem readLeb_uleb (n : Nat) (rest : Bytes) (fuel : Nat) (hf : (uleb n).length ≤ fuel) :
    readLeb fuel (uleb n ++ rest) = some (n, rest) := by
  induction n using Nat.strongRecOn generalizing fuel with
  | _ n ih =>
    rw [uleb] at hf ⊢
    by_cases h : n / 128 ≠ 0
    · rw [dif_pos h] at hf ⊢
      cases fuel with
      | zero => simp at hf
      | succ f =>
        have hlt : n / 128 < n := by omega
        have := ih (n / 128) hlt f (by simpa using hf)
        simp only [List.cons_append, readLeb]
        have h1 : ¬ (n % 128 + 128 < 128) := by omega
        rw [if_neg h1, this]
        simp only [Option.some.injEq, Prod.mk.injEq, and_true]
        omega
    · rw [dif_neg h] at hf ⊢
      cases fuel with
      | zero => simp at hf
      | succ f =>
        simp only [List.cons_append, List.nil_append, readLeb]
        have h1 : n % 128 < 128 := by omega
        rw [if_pos h1]
        simp only [Option.some.injEq, Prod.mk.injEq, and_true]
        omega

theorem uleb_length_le (k : Nat) (hk : 1 ≤ k) (n : Nat) (h : n < 128 ^ k) : (uleb n).length ≤ k := by
  induction k generalizing n with
  | zero => omega
  | succ k ih =>
    rw [uleb]
    by_cases hc : n / 128 ≠ 0
    · rw [dif_pos hc]
      simp only [List.length_cons]
      have hk1 : 1 ≤ k := by
        cases k with
        | zero => simp at h; omega
        | succ k => omega
      have : n / 128 < 128 ^ k := by
        rw [Nat.pow_succ] at h
        exact Nat.div_lt_of_lt_mul (by rw [Nat.mul_comm]; exact h)
      have := ih hk1 (n / 128) this
      omega
    · rw [dif_neg hc]; simp

/-! ### slicing the packed body back into groups -/

theorem packSpec_length (w : Nat) (g : List Nat) : (packSpec w g).length = w := leBytes_length _ _

theorem flatMap_packSpec_length (w : Nat) (gs : List (List Nat)) :
    (gs.flatMap (packSpec w)).length = gs.length * w := by
  induction gs with
  | nil => simp
  | cons g gs ihg =>
    rw [List.flatMap_cons, List.length_append, packSpec_length, ihg, List.length_cons, Nat.add_mul]; omega

theorem groups_unpackSpec (w : Nat) (gs : List (List Nat)) (hl : ∀ g ∈ gs, g.length = 8)
    (hv : ∀ g ∈ gs, ∀ x ∈ g, x < 2 ^ w) (tail : Bytes) :
    (List.range gs.length).flatMap
        (fun i => unpackSpec w (((gs.flatMap (packSpec w) ++ tail).drop (i * w)).take w))
      = gs.flatten := by
  induction gs with
  | nil => simp
  | cons g gs ih =>
    rw [List.length_cons, List.range_succ_eq_map, List.flatMap_cons, List.flatMap_map]
    have h0 : unpackSpec w (((List.flatMap (packSpec w) (g :: gs) ++ tail).drop (0 * w)).take w) = g := by
      simp only [Nat.zero_mul, List.drop_zero, List.flatMap_cons, List.append_assoc]
      rw [List.take_left' (packSpec_length w g)]
      exact unpackSpec_packSpec w g (hl g (by simp)) (hv g (by simp))
    rw [h0]
    have hstep : ∀ i, unpackSpec w (((List.flatMap (packSpec w) (g :: gs) ++ tail).drop ((i + 1) * w)).take w)
        = unpackSpec w (((gs.flatMap (packSpec w) ++ tail).drop (i * w)).take w) := by
      intro i
      have : (i + 1) * w = (packSpec w g).length + i * w := by rw [packSpec_length, Nat.add_mul]; omega
      simp only [List.flatMap_cons, List.append_assoc]
      rw [this, List.drop_append]
      have hnil : List.drop ((packSpec w g).length + i * w) (packSpec w g) = [] :=
        List.drop_eq_nil_of_le (by omega)
      rw [hnil]
      simp
    simp only [hstep]
    rw [ih (fun g' h' => hl g' (by simp [h'])) (fun g' h' => hv g' (by simp [h']))]
    simp

theorem pow_le_256 (w : Nat) : 2 ^ w ≤ 256 ^ ((w + 7) / 8) := by
  have e : (256 : Nat) = 2 ^ 8 := by decide
  rw [e, ← Nat.pow_mul]
  exact Nat.pow_le_pow_right (by omega) (by omega)

/-! ### the run decoder -/

theorem specRuns_ser (w : Nat) (runs : List Run) (hwf : ∀ r ∈ runs, r.WF w)
    (fuel : Nat) (hf : runs.length < fuel) :
    specRuns w fuel (serRuns w runs) = some (runsVals runs) := by
  induction runs generalizing fuel with
  | nil =>
    cases fuel with
    | zero => omega
    | succ f => simp [serRuns, runsVals, specRuns]
  | cons r rs ih =>
    cases fuel with
    | zero => omega
    | succ f =>
      have ihr := ih (fun r' h' => hwf r' (by simp [h'])) f
        (by simp only [List.length_cons] at hf; omega)
      cases r with
      | rle c v =>
        obtain ⟨hc, hv⟩ := hwf (.rle c v) (by simp)
        have hser : serRuns w (Run.rle c v :: rs)
            = uleb (c * 2) ++ (leBytes ((w + 7) / 8) v ++ serRuns w rs) := by
          simp [serRuns, Run.ser]
        rw [hser]
        have hne : uleb (c * 2) ++ (leBytes ((w + 7) / 8) v ++ serRuns w rs) ≠ [] := by
          intro h
          exact uleb_ne_nil _ (List.append_eq_nil_iff.mp h).1
        rw [specRuns, if_neg hne, readLeb_uleb (c * 2) _ _ (by simp)]
        have hev : c * 2 % 2 = 0 := by omega
        have hlen : ¬ ((leBytes ((w + 7) / 8) v ++ serRuns w rs).length < (w + 7) / 8) := by
          simp [leBytes_length]
        have htake : (leBytes ((w + 7) / 8) v ++ serRuns w rs).take ((w + 7) / 8) = leBytes ((w + 7) / 8) v :=
          List.take_left' (leBytes_length _ _)
        have hdrop : (leBytes ((w + 7) / 8) v ++ serRuns w rs).drop ((w + 7) / 8) = serRuns w rs :=
          List.drop_left' (leBytes_length _ _)
        have hfrom : fromLE (leBytes ((w + 7) / 8) v) = v :=
          fromLE_leBytes _ _ (Nat.lt_of_lt_of_le hv (pow_le_256 w))
        have hdiv : c * 2 / 2 = c := by omega
        simp only [hev, if_true, if_neg hlen, htake, hdrop, hfrom, ihr, hdiv]
        simp [runsVals, Run.vals]
      | packed gs =>
        obtain ⟨hg1, hg8⟩ := hwf (.packed gs) (by simp)
        have hser : serRuns w (Run.packed gs :: rs)
            = uleb (gs.length * 2 + 1) ++ (gs.flatMap (packSpec w) ++ serRuns w rs) := by
          simp [serRuns, Run.ser]
        rw [hser]
        have hne : uleb (gs.length * 2 + 1) ++ (gs.flatMap (packSpec w) ++ serRuns w rs) ≠ [] := by
          intro h
          exact uleb_ne_nil _ (List.append_eq_nil_iff.mp h).1
        rw [specRuns, if_neg hne, readLeb_uleb (gs.length * 2 + 1) _ _ (by simp)]
        have hodd : ¬ ((gs.length * 2 + 1) % 2 = 0) := by omega
        have hdiv : (gs.length * 2 + 1) / 2 = gs.length := by omega
        have hblen := flatMap_packSpec_length w gs
        have hlen : ¬ ((gs.flatMap (packSpec w) ++ serRuns w rs).length < gs.length * w) := by
          simp [hblen]
        have htake : (gs.flatMap (packSpec w) ++ serRuns w rs).take (gs.length * w) = gs.flatMap (packSpec w) :=
          List.take_left' hblen
        have hdrop : (gs.flatMap (packSpec w) ++ serRuns w rs).drop (gs.length * w) = serRuns w rs :=
          List.drop_left' hblen
        have hgu := groups_unpackSpec w gs (fun g hg => (hg8 g hg).1) (fun g hg => (hg8 g hg).2) []
        simp only [List.append_nil] at hgu
        simp only [if_neg hodd, hdiv, if_neg hlen, htake, hdrop, ihr, hgu]
        simp [runsVals, Run.vals]

/-! ### length bounds -/

theorem runs_length_le (w : Nat) (runs : List Run) : runs.length ≤ (serRuns w runs).length := by
  induction runs with
  | nil => simp
  | cons r rs ih =>
    have hpos : 0 < (r.ser w).length := by
      cases r with
      | rle c v => simp only [Run.ser, List.length_append]; have := uleb_length_pos (c * 2); omega
      | packed gs => simp only [Run.ser, List.length_append]; have := uleb_length_pos (gs.length * 2 + 1); omega
    simp only [serRuns, List.flatMap_cons, List.length_append, List.length_cons] at ih ⊢
    omega

theorem flatten_length8 (gs : List (List Nat)) (hg8 : ∀ g ∈ gs, g.length = 8) :
    gs.flatten.length = gs.length * 8 := by
  induction gs with
  | nil => simp
  | cons g gs ih =>
    rw [List.flatten_cons, List.length_append, hg8 g (by simp), ih (fun g' h' => hg8 g' (by simp [h'])),
      List.length_cons, Nat.add_mul]; omega

theorem ser_length_le (w : Nat) (h8 : w ≤ 8) (r : Run) (hwf : r.WFs) (hb : r.Bounded w) :
    (r.ser w).length ≤ 2 * r.vals.length := by
  cases r with
  | rle c v =>
    have hc : 8 ≤ c := hwf
    obtain ⟨hc2, _⟩ := hb
    have h5 := uleb_length_le 5 (by omega) (c * 2) (by
      have : (2 : Nat) ^ 32 < 128 ^ 5 := by decide
      omega)
    have hv : (leBytes ((w + 7) / 8) v).length ≤ 1 := by rw [leBytes_length]; omega
    simp only [Run.ser, Run.vals, List.length_append, List.length_replicate]
    omega
  | packed gs =>
    obtain ⟨hg1, h63, hg8⟩ := hwf
    have hfl := flatten_length8 gs hg8
    have hh : (uleb (gs.length * 2 + 1)).length ≤ 1 := uleb_length_le 1 (by omega) _ (by omega)
    simp only [Run.ser, Run.vals, List.length_append, flatMap_packSpec_length, hfl]
    have : gs.length * w ≤ gs.length * 8 := Nat.mul_le_mul_left _ h8
    omega

theorem serRuns_length_le (w : Nat) (h8 : w ≤ 8) (runs : List Run) (hwf : ∀ r ∈ runs, r.WFs)
    (hb : ∀ r ∈ runs, r.Bounded w) : (serRuns w runs).length ≤ 2 * (runsVals runs).length := by
  induction runs with
  | nil => simp [serRuns, runsVals]
  | cons r rs ih =>
    have h1 := ser_length_le w h8 r (hwf r (by simp)) (hb r (by simp))
    have h2 := ih (fun r' h' => hwf r' (by simp [h'])) (fun r' h' => hb r' (by simp [h']))
    simp only [serRuns, runsVals, List.flatMap_cons, List.length_append] at h2 ⊢
    omega

/-! ### the length-prefixed section -/

theorem le32_length (n : Nat) : (le32 n).length = 4 := leBytes_length 4 n

theorem le32_take (n : Nat) (h : n < 2 ^ 32) (rest : Bytes) :
    fromLE ((le32 n ++ rest).take 4) = n ∧ (le32 n ++ rest).drop 4 = rest := by
  have hl : (le32 n).length = 4 := le32_length n
  refine ⟨?_, ?_⟩
  · rw [List.take_left' hl]
    exact fromLE_leBytes 4 n (by
      have : (256 : Nat) ^ 4 = 2 ^ 32 := by decide
      omega)
  · exact List.drop_left' hl

/-- the specification decoder accepts every well-formed stream and consumes exactly its bytes -/
theorem specDecode_ser (w : Nat) (runs : List Run) (hwf : ∀ r ∈ runs, r.WF w)
    (hn : (serRuns w runs).length < 2 ^ 32) (rest : Bytes) :
    specDecode w (le32 (serRuns w runs).length ++ (serRuns w runs ++ rest))
      = some (runsVals runs, 4 + (serRuns w runs).length) := by
  obtain ⟨ht, hd⟩ := le32_take (serRuns w runs).length hn (serRuns w runs ++ rest)
  unfold specDecode
  have hge : ¬ ((le32 (serRuns w runs).length ++ (serRuns w runs ++ rest)).length < 4) := by
    simp only [List.length_append, le32_length]; omega
  rw [if_neg hge]
  simp only [ht, hd, List.take_left]
  have hrl := runs_length_le w runs
  simp only [Nat.lt_irrefl, if_false]
  rw [specRuns_ser w runs hwf _ (by omega)]

theorem spec_decode_encode (w : Nat) (hw : 1 ≤ w ∧ w ≤ 4) (xs : List Nat)
    (hx : ∀ x ∈ xs, x < 2 ^ w) (hlen : xs.length + 8 ≤ 2 ^ 30) :
    ∃ pad, pad < 8 ∧ specDecode w (encode w xs) = some (xs ++ List.replicate pad 0, (encode w xs).length) := by
  obtain ⟨runs, pad, henc, hwfs, hb, hvals, hpad⟩ := encode_runs w hw xs hx hlen
  refine ⟨pad, hpad, ?_⟩
  have hvlen : (runsVals runs).length = xs.length + pad := by rw [hvals]; simp
  have h30 : (2 : Nat) ^ 32 = 4 * 2 ^ 30 := by decide
  have hsl := serRuns_length_le w (by omega) runs hwfs hb
  have hn : (serRuns w runs).length < 2 ^ 32 := by omega
  have hwf : ∀ r ∈ runs, r.WF w := fun r hr => wf_of w r (hwfs r hr) (hb r hr)
  have := specDecode_ser w runs hwf hn []
  rw [List.append_nil] at this
  rw [henc, this, hvals]
  simp [le32_length]

end PQ
