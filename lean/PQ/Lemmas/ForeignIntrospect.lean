import PQ.Lemmas.ForeignRT
import PQ.Lemmas.IntrospectRT
/-!
# The introspection calls on the files of the independent spec writer (C16)

`ReadMetaData`, `PageHeadersAtOffset` and `PageHeaders` (`PQ/Model/Introspect.lean`) on the files
`specWrite cfg compress none cs rowGroups` emits, for every choice stream (every page split, every run
segmentation), per-column codecs, statistics / unknown thrift fields present or not, row groups without
records anywhere in the file.

The right-hand sides replay the writer:

* `spPageHdr` – the decoded header of one page; `spEmitHdrs` – of the consecutive pages of a chunk
  (each written with the choices its predecessors left); `spChunkHdrs` – of the chunk of one column of a
  row group (pages split by the choices);
* `spChunkMetas` / `spRGMetas` – the footer's `ColumnChunk`s / `RowGroup`s as decoded, with the offsets
  at which the chunks lie; `spChunkHdrss` / `spFileHdrss` – per chunk, in file order, the headers of its
  pages; `spFileHdrs` – all of them, flattened.
-/
namespace PQ
open PQ.Thrift

/-! ## one page -/

/-- the statistics `PageHeader.Read` finds in a page header of the spec writer -/
def spStatsOpt (cfg : SWCfg) (c : Col) (es : PageEntries) : Option (List (Nat × TVal)) :=
  if cfg.withStats then some (statsFields (cfg.pageStatsResult c es)) else none

/-- `PageHeader.Read` on the spec writer's header, with the statistics named -/
theorem decPHdr_spHdr_stats (cfg : SWCfg) (c : Col) (es : PageEntries) (u z : Nat) :
    decPHdr (spHdr cfg c es u z) = some (spPH u z es.length (cfg.defLabel c) (cfg.repLabel c) (spStatsOpt cfg c es)) := by
  cases hs : cfg.withStats <;> cases he : cfg.withExtras
  · simp [decPHdr, spHdr, spDph, spStats, spExtra, hs, he, spPH, spStatsOpt, TVal.fieldsOf, getI32, getStruct, List.lookup]
  · simp [decPHdr, spHdr, spDph, spStats, spExtra, extraField, hs, he, spPH, spStatsOpt, TVal.fieldsOf, getI32, getStruct, List.lookup]
  · simp [decPHdr, spHdr, spDph, spStats, spExtra, hs, he, spPH, spStatsOpt, TVal.fieldsOf, getI32, getStruct, List.lookup, statsT_eq]
  · simp [decPHdr, spHdr, spDph, spStats, spExtra, extraField, hs, he, spPH, spStatsOpt, TVal.fieldsOf, getI32, getStruct, List.lookup, statsT_eq]

/-- the decoded header of the page holding `es`, written with the choices `cs`: uncompressed length,
stored length, `num_values`, the labels of the level encodings (`SWCfg.defLabel`, `SWCfg.repLabel`: RLE, or
BIT_PACKED for levels the column does not have when `cfg.mrLabels`), statistics -/
def spPageHdr (cfg : SWCfg) (c : Col) (codec : Nat) (compress : Bytes → Bytes) (cs : Choices) (es : PageEntries) : PHdr :=
  spPH (spRaw cfg c cs es).length (spComp codec compress (spRaw cfg c cs es)).length es.length (cfg.defLabel c) (cfg.repLabel c)
    (spStatsOpt cfg c es)

/-- one turn of the loop of `PageHeadersAtOffset` on a page of the spec writer -/
theorem pageHeadersAt_go_spStep (cfg : SWCfg) (c : Col) (codec : Nat) (compress : Bytes → Bytes) (cs : Choices)
    (es : PageEntries) (n : Int) (pre rest : Bytes) (fuel : Nat) (nRead : Int) (readOne : Bool) (acc : List PHdr)
    (hcond : (!readOne || nRead < n) = true) :
    pageHeadersAt.go (pre ++ (spPage cfg c codec compress cs es).1 ++ (spPage cfg c codec compress cs es).2 ++ rest) n
        (fuel + 1) pre.length nRead readOne acc =
      pageHeadersAt.go (pre ++ (spPage cfg c codec compress cs es).1 ++ (spPage cfg c codec compress cs es).2 ++ rest) n fuel
        (pre.length + ((spPage cfg c codec compress cs es).1.length + (spPage cfg c codec compress cs es).2.length))
        (nRead + (es.length : Int)) true (acc ++ [spPageHdr cfg c codec compress cs es]) := by
  have h1 := readStruct_spHdr cfg c es (spRaw cfg c cs es).length (spComp codec compress (spRaw cfg c cs es)).length pre
    ((spPage cfg c codec compress cs es).2 ++ rest)
  have h2 := decPHdr_spHdr_stats cfg c es (spRaw cfg c cs es).length (spComp codec compress (spRaw cfg c cs es)).length
  simp only [← List.append_assoc] at h1
  rw [pageHeadersAt.go, if_pos hcond]
  simp only [spPage] at h1 ⊢
  simp only [h1, h2]
  have hc : (spPH (spRaw cfg c cs es).length (spComp codec compress (spRaw cfg c cs es)).length es.length
      (cfg.defLabel c) (cfg.repLabel c) (spStatsOpt cfg c es)).compressed =
        (((spComp codec compress (spRaw cfg c cs es)).length : Nat) : Int) := rfl
  have hd : (spPH (spRaw cfg c cs es).length (spComp codec compress (spRaw cfg c cs es)).length es.length
      (cfg.defLabel c) (cfg.repLabel c) (spStatsOpt cfg c es)).dph =
        some (((es.length : Nat) : Int), 0, ((cfg.defLabel c : Nat) : Int), ((cfg.repLabel c : Nat) : Int), spStatsOpt cfg c es) := rfl
  rw [hc, if_neg (by omega)]
  simp only [hd, spPageHdr]
  congr 1
  omega

/-! ## the pages of one chunk -/

/-- the decoded headers of consecutive pages (each written with the choices its predecessors left) -/
def spEmitHdrs (cfg : SWCfg) (c : Col) (codec : Nat) (compress : Bytes → Bytes) : List PageEntries → Choices → List PHdr
  | [], _ => []
  | p :: ps, cs => spPageHdr cfg c codec compress cs p :: spEmitHdrs cfg c codec compress ps (spDefSeg cfg c cs p).2

theorem spEmitHdrs_length (cfg : SWCfg) (c : Col) (codec : Nat) (compress : Bytes → Bytes) :
    ∀ (ess : List PageEntries) (cs : Choices), (spEmitHdrs cfg c codec compress ess cs).length = ess.length
  | [], _ => rfl
  | p :: ps, cs => by simp [spEmitHdrs, spEmitHdrs_length cfg c codec compress ps]

/-- **The loop of `PageHeadersAtOffset` on the pages of one chunk of the spec writer**, started anywhere in
the walk: the headers of the pages of `coverPrefix`. -/
theorem pageHeadersAt_go_spPages (cfg : SWCfg) (c : Col) (codec : Nat) (compress : Bytes → Bytes) (n : Int) :
    ∀ (ess : List PageEntries) (cs : Choices) (pre post : Bytes) (fuel : Nat) (nRead : Int) (readOne : Bool) (acc : List PHdr),
      ess.length < fuel →
      n ≤ nRead + (((ess.map List.length).sum : Nat) : Int) →
      (readOne = true ∨ ess ≠ []) →
      pageHeadersAt.go (pre ++ (spEmit cfg c codec compress ess cs).1 ++ post) n fuel pre.length nRead readOne acc =
        .ok (acc ++ spEmitHdrs cfg c codec compress (coverPrefix n nRead readOne ess) cs)
  | [], cs, pre, post, fuel, nRead, readOne, acc, hf, hn, hr => by
    cases fuel with
    | zero => omega
    | succ f =>
      have hro : readOne = true := by
        cases hr with
        | inl h => exact h
        | inr h => exact absurd rfl h
      subst hro
      simp only [List.map_nil, List.sum_nil, Int.natCast_zero, Int.add_zero] at hn
      rw [pageHeadersAt.go, if_neg (by simp; omega)]
      simp [coverPrefix, spEmitHdrs]
  | es :: ess, cs, pre, post, fuel, nRead, readOne, acc, hf, hn, _ => by
    cases fuel with
    | zero => omega
    | succ f =>
      by_cases hcond : (!readOne || nRead < n) = true
      · simp only [List.map_cons, List.sum_cons, Int.natCast_add] at hn
        generalize hcs' : (spDefSeg cfg c cs es).2 = cs'
        have hfile : pre ++ (spEmit cfg c codec compress (es :: ess) cs).1 ++ post =
            pre ++ (spPage cfg c codec compress cs es).1 ++ (spPage cfg c codec compress cs es).2 ++
              ((spEmit cfg c codec compress ess cs').1 ++ post) := by
          rw [spEmit_cons, hcs']; simp only [List.append_assoc]
        have hfile2 : pre ++ (spEmit cfg c codec compress (es :: ess) cs).1 ++ post =
            (pre ++ (spPage cfg c codec compress cs es).1 ++ (spPage cfg c codec compress cs es).2) ++
              (spEmit cfg c codec compress ess cs').1 ++ post := by
          rw [spEmit_cons, hcs']; simp only [List.append_assoc]
        have hl2 : (pre ++ (spPage cfg c codec compress cs es).1 ++ (spPage cfg c codec compress cs es).2).length =
            pre.length + ((spPage cfg c codec compress cs es).1.length + (spPage cfg c codec compress cs es).2.length) := by
          simp only [List.length_append]; omega
        have ih := pageHeadersAt_go_spPages cfg c codec compress n ess cs'
          (pre ++ (spPage cfg c codec compress cs es).1 ++ (spPage cfg c codec compress cs es).2) post f
          (nRead + (es.length : Int)) true (acc ++ [spPageHdr cfg c codec compress cs es])
          (by simp only [List.length_cons] at hf; omega) (by omega) (Or.inl rfl)
        rw [← hfile2, hl2] at ih
        have hstep := pageHeadersAt_go_spStep cfg c codec compress cs es n pre
          ((spEmit cfg c codec compress ess cs').1 ++ post) f nRead readOne acc hcond
        rw [← hfile] at hstep
        rw [hstep, ih, coverPrefix, if_pos hcond, spEmitHdrs, hcs']
        simp only [List.append_assoc, List.cons_append, List.nil_append]
      · rw [pageHeadersAt.go, if_neg hcond, coverPrefix, if_neg hcond]
        simp [spEmitHdrs]

theorem spEmit_fuel (cfg : SWCfg) (c : Col) (codec : Nat) (compress : Bytes → Bytes) (ess : List PageEntries) (cs : Choices)
    (pre post : Bytes) : ess.length < (pre ++ (spEmit cfg c codec compress ess cs).1 ++ post).length + 2 := by
  have := spEmit_length_ge cfg c codec compress ess cs
  simp only [List.length_append]; omega

/-- **`PageHeadersAtOffset(r, o, n)` at the first page of a chunk of the spec writer**, for any `n` up to the
chunk's `num_values`: the headers of the pages of `coverPrefix` (the shortest non-empty prefix of the
chunk's pages whose `num_values` reach `n`, `coverPrefix_eq_take`). -/
theorem pageHeadersAt_spCover (cfg : SWCfg) (c : Col) (codec : Nat) (compress : Bytes → Bytes) (ess : List PageEntries)
    (cs : Choices) (pre post : Bytes) (n : Int) (hne : ess ≠ []) (hn : n ≤ (((ess.map List.length).sum : Nat) : Int)) :
    pageHeadersAt (pre ++ (spEmit cfg c codec compress ess cs).1 ++ post) (pre.length : Nat) n =
      .ok (spEmitHdrs cfg c codec compress (coverPrefix n 0 (decide (n > 0)) ess) cs) := by
  unfold pageHeadersAt
  rw [if_neg (by omega)]
  show pageHeadersAt.go (pre ++ (spEmit cfg c codec compress ess cs).1 ++ post) n
    ((pre ++ (spEmit cfg c codec compress ess cs).1 ++ post).length + 2) ((pre.length : Nat) : Int).toNat 0 (decide (n > 0)) [] = _
  rw [Int.toNat_natCast,
    pageHeadersAt_go_spPages cfg c codec compress n ess cs pre post _ 0 (decide (n > 0)) []
      (spEmit_fuel cfg c codec compress ess cs pre post) (by omega) (Or.inr hne)]
  rfl

/-- asked for the chunk's `num_values`, with no page empty: one header per page, in order -/
theorem pageHeadersAt_spAll (cfg : SWCfg) (c : Col) (codec : Nat) (compress : Bytes → Bytes) (ess : List PageEntries)
    (cs : Choices) (pre post : Bytes) (hne : ess ≠ []) (hpages : ∀ es ∈ ess, es ≠ []) :
    pageHeadersAt (pre ++ (spEmit cfg c codec compress ess cs).1 ++ post) (pre.length : Nat)
        (((ess.map List.length).sum : Nat) : Int) =
      .ok (spEmitHdrs cfg c codec compress ess cs) := by
  rw [pageHeadersAt_spCover cfg c codec compress ess cs pre post _ hne (by omega),
    coverPrefix_all _ ess 0 _ hpages (by omega)]

/-- asked for `n ≤ 0` values: exactly one header, the one at the offset -/
theorem pageHeadersAt_spZero (cfg : SWCfg) (c : Col) (codec : Nat) (compress : Bytes → Bytes) (es : PageEntries)
    (ess : List PageEntries) (cs : Choices) (pre post : Bytes) (n : Int) (hn : n ≤ 0) :
    pageHeadersAt (pre ++ (spEmit cfg c codec compress (es :: ess) cs).1 ++ post) (pre.length : Nat) n =
      .ok [spPageHdr cfg c codec compress cs es] := by
  rw [pageHeadersAt_spCover cfg c codec compress (es :: ess) cs pre post n (by simp)
    (by have : (0 : Int) ≤ ((((es :: ess).map List.length).sum : Nat) : Int) := Int.natCast_nonneg _
        omega)]
  have h := coverPrefix_eq_take n (es :: ess) 1 (by omega) (by simp) (by simp; omega) (fun i h1 h2 => by omega)
  rw [h]
  rfl

/-- the pages of a chunk are emitted one after the other; the later ones see the choices the earlier ones left -/
theorem spEmit_append (cfg : SWCfg) (c : Col) (codec : Nat) (compress : Bytes → Bytes) :
    ∀ (a b : List PageEntries) (cs : Choices),
      (spEmit cfg c codec compress (a ++ b) cs).1 =
        (spEmit cfg c codec compress a cs).1 ++ (spEmit cfg c codec compress b (spEmit cfg c codec compress a cs).2).1
  | [], b, cs => by simp [spEmit]
  | p :: ps, b, cs => by
    simp only [List.cons_append, spEmit, spEmit_append cfg c codec compress ps b, List.append_assoc]

/-- **`PageHeadersAtOffset` started at ANY page of a chunk of the spec writer** (`before` = the pages of the
chunk in front of the offset): the headers of the shortest non-empty prefix of the remaining pages `ess`
whose `num_values` reach `n`. -/
theorem pageHeadersAt_spPageCover (cfg : SWCfg) (c : Col) (codec : Nat) (compress : Bytes → Bytes)
    (before ess : List PageEntries) (cs : Choices) (pre post : Bytes) (n : Int) (hne : ess ≠ [])
    (hn : n ≤ (((ess.map List.length).sum : Nat) : Int)) :
    pageHeadersAt (pre ++ (spEmit cfg c codec compress (before ++ ess) cs).1 ++ post)
        ((pre.length + (spEmit cfg c codec compress before cs).1.length : Nat) : Int) n =
      .ok (spEmitHdrs cfg c codec compress (coverPrefix n 0 (decide (n > 0)) ess) (spEmit cfg c codec compress before cs).2) := by
  have h := pageHeadersAt_spCover cfg c codec compress ess (spEmit cfg c codec compress before cs).2
    (pre ++ (spEmit cfg c codec compress before cs).1) post n hne hn
  rw [List.length_append] at h
  rw [← h, spEmit_append]
  simp only [List.append_assoc]

/-! ## the chunk of one column of a row group -/

/-- the pages of the chunk of column `ci` of the row group `recs` (cut at record boundaries by the choices)
and the choices left after the split -/
def spSplit (recs : List Rec) (ci : Nat) (cs : Choices) : List PageEntries × Choices :=
  splitPages ((recs.map fun r => r.getD ci []).length + 1) cs (recs.map fun r => r.getD ci [])

/-- the decoded headers of the pages of that chunk, in file order -/
def spChunkHdrs (cfg : SWCfg) (compress : Nat → Bytes → Bytes) (recs : List Rec) (c : Col) (codec ci : Nat) (cs : Choices) :
    List PHdr :=
  spEmitHdrs cfg c codec (compress codec) (spSplit recs ci cs).1 (spSplit recs ci cs).2

theorem spGChunk_bytes (cfg : SWCfg) (compress : Nat → Bytes → Bytes) (recs : List Rec) (c : Col) (codec ci : Nat)
    (cs : Choices) :
    (spGChunk cfg compress recs c codec ci cs).bytes =
      (spEmit cfg c codec (compress codec) (spSplit recs ci cs).1 (spSplit recs ci cs).2).1 := rfl

/-- uncompressed minus stored payload lengths, summed over the pages: what the writer adds to the chunk's
length to get `total_uncompressed_size` -/
def spEmitDelta (cfg : SWCfg) (c : Col) (codec : Nat) (compress : Bytes → Bytes) : List PageEntries → Choices → Int
  | [], _ => 0
  | p :: ps, cs =>
    spEmitDelta cfg c codec compress ps (spDefSeg cfg c cs p).2 + ((spRaw cfg c cs p).length : Int) -
      ((spComp codec compress (spRaw cfg c cs p)).length : Int)

theorem emit_delta (cfg : SWCfg) (compress : Nat → Bytes → Bytes) (rgi : Nat) (c : Col) (codec ci : Nat) :
    ∀ (pages : List PageEntries) (pi : Nat) (cs : Choices),
      (specWriteLog.chunks.emit cfg compress none rgi c codec ci pages pi cs).2.2.1 =
        spEmitDelta cfg c codec (compress codec) pages cs
  | [], pi, cs => rfl
  | p :: ps, pi, cs => by
    have ih := emit_delta cfg compress rgi c codec ci ps (pi + 1) (spDefSeg cfg c cs p).2
    rw [specWriteLog.chunks.emit]
    simp only [specPageBytes_spPage, spEmitDelta]
    rw [ih]
    rfl

/-- the footer's `ColumnChunk` of that chunk, lying at offset `pos`, as `ColumnChunk.Read` decodes it:
codec, `num_values` (the entries the records hold for the column), `total_uncompressed_size`,
`total_compressed_size` (the chunk's length), `data_page_offset` -/
def spChunkMetaAt (cfg : SWCfg) (compress : Nat → Bytes → Bytes) (recs : List Rec) (c : Col) (codec ci : Nat) (cs : Choices)
    (pos : Nat) : ChunkMeta :=
  spChunkMeta cfg c codec ((recs.map fun r => r.getD ci []).map List.length).sum
    (((spGChunk cfg compress recs c codec ci cs).bytes.length : Int) +
      spEmitDelta cfg c codec (compress codec) (spSplit recs ci cs).1 (spSplit recs ci cs).2)
    (spGChunk cfg compress recs c codec ci cs).bytes.length pos

/-- the footer's `ColumnChunk`s of a row group whose chunks are laid out from `pos` -/
def spChunkMetas (cfg : SWCfg) (compress : Nat → Bytes → Bytes) (recs : List Rec) :
    List (Col × Nat) → Nat → Choices → Nat → List ChunkMeta
  | [], _, _, _ => []
  | (c, codec) :: rest, ci, cs, pos =>
    spChunkMetaAt cfg compress recs c codec ci cs pos ::
      spChunkMetas cfg compress recs rest (ci + 1) (spChunkCs cfg compress recs c codec ci cs)
        (pos + (spGChunk cfg compress recs c codec ci cs).bytes.length)

/-- per chunk of a row group, in file order, the decoded headers of its pages -/
def spChunkHdrss (cfg : SWCfg) (compress : Nat → Bytes → Bytes) (recs : List Rec) :
    List (Col × Nat) → Nat → Choices → List (List PHdr)
  | [], _, _ => []
  | (c, codec) :: rest, ci, cs =>
    spChunkHdrs cfg compress recs c codec ci cs ::
      spChunkHdrss cfg compress recs rest (ci + 1) (spChunkCs cfg compress recs c codec ci cs)

/-- **The footer entries of the chunks of one row group as `specWriteLog` emits them** decode to
`spChunkMetas`. -/
theorem chunks_metas (cfg : SWCfg) (compress : Nat → Bytes → Bytes) (rgi : Nat) (recs : List Rec) :
    ∀ (ccs : List (Col × Nat)) (ci : Nat) (cs : Choices) (pos : Nat),
      (specWriteLog.chunks cfg compress none rgi recs ccs ci cs pos).1.mapM decChunk =
        some (spChunkMetas cfg compress recs ccs ci cs pos)
  | [], ci, cs, pos => by
    rw [chunks_nil]
    rfl
  | (c, codec) :: rest, ci, cs, pos => by
    rw [chunks_cons]
    simp only
    obtain ⟨e1, e2⟩ := emit_none cfg compress rgi c codec ci (spSplit recs ci cs).1 0 (spSplit recs ci cs).2
    have e3 := emit_delta cfg compress rgi c codec ci (spSplit recs ci cs).1 0 (spSplit recs ci cs).2
    have hcs : spChunkCs cfg compress recs c codec ci cs =
        (spEmit cfg c codec (compress codec) (spSplit recs ci cs).1 (spSplit recs ci cs).2).2 := rfl
    change (spChunkT cfg c codec ((recs.map fun r => r.getD ci []).map List.length).sum
        (((specWriteLog.chunks.emit cfg compress none rgi c codec ci (spSplit recs ci cs).1 0 (spSplit recs ci cs).2).1.length : Int) +
          (specWriteLog.chunks.emit cfg compress none rgi c codec ci (spSplit recs ci cs).1 0 (spSplit recs ci cs).2).2.2.1)
        (specWriteLog.chunks.emit cfg compress none rgi c codec ci (spSplit recs ci cs).1 0 (spSplit recs ci cs).2).1.length pos ::
      (specWriteLog.chunks cfg compress none rgi recs rest (ci + 1)
        (specWriteLog.chunks.emit cfg compress none rgi c codec ci (spSplit recs ci cs).1 0 (spSplit recs ci cs).2).2.2.2
        (pos + (specWriteLog.chunks.emit cfg compress none rgi c codec ci (spSplit recs ci cs).1 0 (spSplit recs ci cs).2).1.length)).1).mapM
        decChunk = _
    rw [e1, e2, e3, ← hcs, ← spGChunk_bytes]
    have ih := chunks_metas cfg compress rgi recs rest (ci + 1) (spChunkCs cfg compress recs c codec ci cs)
      (pos + (spGChunk cfg compress recs c codec ci cs).bytes.length)
    simp only [List.mapM_cons, decChunk_spChunkT, ih, bind, Option.bind, pure]
    rfl

/-! ## what the calls report of one footer `ColumnChunk` -/

/-- `hs` is what the introspection calls report of the column chunk `ch` of `file`: a chunk without bytes
(`total_compressed_size = 0`, a row group without rows) is skipped by `PageHeaders`; for any other,
`PageHeadersAtOffset` at the chunk's `data_page_offset` asked for the chunk's `num_values` returns `hs`, and
asked for 0 values it returns just the first of them. -/
def ChunkListed (file : Bytes) (ch : ChunkMeta) (hs : List PHdr) : Prop :=
  ∃ m, ch.md = some m ∧
    ((m.totalCompressed = 0 ∧ hs = []) ∨
     (m.totalCompressed ≠ 0 ∧ pageHeadersAt file m.dataPageOffset m.numValues = .ok hs ∧
       ∃ h tl, hs = h :: tl ∧ pageHeadersAt file m.dataPageOffset 0 = .ok [h]))

/-- the two lists have the same length and corresponding elements are related -/
inductive Forall2 {α β : Type} (R : α → β → Prop) : List α → List β → Prop
  | nil : Forall2 R [] []
  | cons {a : α} {b : β} {l₁ : List α} {l₂ : List β} : R a b → Forall2 R l₁ l₂ → Forall2 R (a :: l₁) (b :: l₂)

theorem phStep_listed (file : Bytes) (ch : ChunkMeta) (hs : List PHdr) (h : ChunkListed file ch hs) (acc : List PHdr) :
    phStep file acc ch = .ok (acc ++ hs) := by
  obtain ⟨m, hm, h⟩ := h
  rcases h with ⟨h0, rfl⟩ | ⟨h0, h1, _⟩
  · simp only [phStep, hm, if_pos h0, List.append_nil]
  · simp only [phStep, hm, if_neg h0, h1]

theorem foldlM_phStep_listed (file : Bytes) :
    ∀ (chs : List ChunkMeta) (hss : List (List PHdr)), Forall2 (ChunkListed file) chs hss →
      ∀ acc : List PHdr, chs.foldlM (phStep file) acc = .ok (acc ++ hss.flatten)
  | _, _, .nil, acc => by simp [pure, Except.pure]
  | _, _, .cons (a := ch) (b := hs) (l₁ := chs) (l₂ := hss) h1 h2, acc => by
    simp only [List.foldlM_cons, phStep_listed file ch hs h1 acc, bind, Except.bind,
      foldlM_phStep_listed file chs hss h2, List.flatten_cons, List.append_assoc]

theorem forall2_append {α β : Type} {R : α → β → Prop} :
    ∀ {a c : List α} {b d : List β}, Forall2 R a b → Forall2 R c d → Forall2 R (a ++ c) (b ++ d)
  | _, _, _, _, .nil, h => h
  | _, _, _, _, .cons h1 h2, h => .cons h1 (forall2_append h2 h)

theorem splitPages_ne_nil (fuel : Nat) (cs : Choices) (r : PageEntries) (rs : List PageEntries) :
    (splitPages (fuel + 1) cs (r :: rs)).1 ≠ [] := by
  rw [splitPages_cons]
  simp

/-- **One chunk of the spec writer, wherever it lies in the file.**  A chunk of a row group without records
has no bytes and no pages; any other has at least one page, no page is empty (every record holds at least
one entry for the column), and the `num_values` of its pages add up to the footer's `num_values`. -/
theorem chunkListed_sp (cfg : SWCfg) (compress : Nat → Bytes → Bytes) (recs : List Rec) (c : Col) (codec ci : Nat)
    (cs : Choices) (hne : ∀ r ∈ recs, r.getD ci [] ≠ []) (pre post : Bytes) :
    ChunkListed (pre ++ (spGChunk cfg compress recs c codec ci cs).bytes ++ post)
      (spChunkMetaAt cfg compress recs c codec ci cs pre.length) (spChunkHdrs cfg compress recs c codec ci cs) := by
  refine ⟨_, rfl, ?_⟩
  simp only
  rw [spGChunk_bytes]
  unfold spChunkHdrs
  have hspec := splitPages_spec ((recs.map fun r => r.getD ci []).length + 1) cs (recs.map fun r => r.getD ci [])
    (by omega)
  have hnv : ((spSplit recs ci cs).1.map List.length).sum = ((recs.map fun r => r.getD ci []).map List.length).sum := by
    rw [← List.length_flatten, ← List.length_flatten]
    exact congrArg List.length hspec.1
  have hpages : ∀ es ∈ (spSplit recs ci cs).1, es ≠ [] := by
    intro es hes
    apply (hspec.2 es hes).2
    intro r hr
    obtain ⟨r', hr', rfl⟩ := List.mem_map.mp hr
    exact hne r' hr'
  rw [← hnv]
  generalize hsp : spSplit recs ci cs = sp at hpages
  obtain ⟨ess, cs'⟩ := sp
  simp only at hpages ⊢
  cases ess with
  | nil => left; exact ⟨rfl, rfl⟩
  | cons es ess =>
    right
    have hlen := spEmit_length_ge cfg c codec (compress codec) (es :: ess) cs'
    simp only [List.length_cons] at hlen
    refine ⟨by omega, pageHeadersAt_spAll cfg c codec (compress codec) (es :: ess) cs' pre post (by simp) hpages, _, _, rfl, ?_⟩
    exact pageHeadersAt_spZero cfg c codec (compress codec) es ess cs' pre post 0 (by omega)

/-- the chunks of one row group, laid out from `pre.length` -/
theorem chunksListed_sp (cfg : SWCfg) (compress : Nat → Bytes → Bytes) (recs : List Rec) :
    ∀ (ccs : List (Col × Nat)) (ci : Nat) (cs : Choices) (pre post : Bytes),
      (∀ i, ci ≤ i → i < ci + ccs.length → ∀ r ∈ recs, r.getD i [] ≠ []) →
      Forall2 (ChunkListed (pre ++ gBytes (spChunks cfg compress recs ccs ci cs).1 ++ post))
        (spChunkMetas cfg compress recs ccs ci cs pre.length) (spChunkHdrss cfg compress recs ccs ci cs)
  | [], ci, cs, pre, post, _ => .nil
  | (c, codec) :: rest, ci, cs, pre, post, h => by
    have hfile : pre ++ gBytes (spChunks cfg compress recs ((c, codec) :: rest) ci cs).1 ++ post =
        pre ++ (spGChunk cfg compress recs c codec ci cs).bytes ++
          (gBytes (spChunks cfg compress recs rest (ci + 1) (spChunkCs cfg compress recs c codec ci cs)).1 ++ post) := by
      simp only [spChunks, gBytes_cons, List.append_assoc]
    rw [hfile]
    simp only [spChunkMetas, spChunkHdrss]
    refine .cons (chunkListed_sp cfg compress recs c codec ci cs (h ci (by omega) (by simp)) pre _) ?_
    have ih := chunksListed_sp cfg compress recs rest (ci + 1) (spChunkCs cfg compress recs c codec ci cs)
      (pre ++ (spGChunk cfg compress recs c codec ci cs).bytes) post
      (fun i h1 h2 => h i (by omega) (by simp only [List.length_cons]; omega))
    rw [List.length_append] at ih
    simpa only [List.append_assoc] using ih

/-! ## row groups and the whole file -/

/-- the footer's `RowGroup`s as decoded, the row groups laid out from `pos` -/
def spRGMetas (cfg : SWCfg) (compress : Nat → Bytes → Bytes) : List (List Rec) → Choices → Nat → List RGMeta
  | [], _, _ => []
  | recs :: rest, cs, pos =>
    { columns := spChunkMetas cfg compress recs (cfg.cols.zip cfg.codecs) 0 cs pos,
      totalByteSize := ((gBytes (spChunks cfg compress recs (cfg.cols.zip cfg.codecs) 0 cs).1).length : Nat),
      numRows := (recs.length : Nat) } ::
    spRGMetas cfg compress rest (spChunks cfg compress recs (cfg.cols.zip cfg.codecs) 0 cs).2
      (pos + (gBytes (spChunks cfg compress recs (cfg.cols.zip cfg.codecs) 0 cs).1).length)

/-- the data region: the chunks of all row groups back to back -/
def spData (cfg : SWCfg) (compress : Nat → Bytes → Bytes) : List (List Rec) → Choices → Bytes
  | [], _ => []
  | recs :: rest, cs =>
    gBytes (spChunks cfg compress recs (cfg.cols.zip cfg.codecs) 0 cs).1 ++
      spData cfg compress rest (spChunks cfg compress recs (cfg.cols.zip cfg.codecs) 0 cs).2

/-- per chunk of the file, in file order (row group by row group, column by column), the decoded headers
of the chunk's pages -/
def spFileHdrss (cfg : SWCfg) (compress : Nat → Bytes → Bytes) : List (List Rec) → Choices → List (List PHdr)
  | [], _ => []
  | recs :: rest, cs =>
    spChunkHdrss cfg compress recs (cfg.cols.zip cfg.codecs) 0 cs ++
      spFileHdrss cfg compress rest (spChunks cfg compress recs (cfg.cols.zip cfg.codecs) 0 cs).2

/-- the decoded header of every page the writer emits, in file order -/
def spFileHdrs (cfg : SWCfg) (compress : Nat → Bytes → Bytes) (rowGroups : List (List Rec)) (cs : Choices) : List PHdr :=
  (spFileHdrss cfg compress rowGroups cs).flatten

/-- **The row groups as `specWriteLog` emits them**: the data region and the decoded footer entries -/
theorem groups_metas (cfg : SWCfg) (compress : Nat → Bytes → Bytes) :
    ∀ (rowGroups : List (List Rec)) (rgi : Nat) (cs : Choices) (pos : Nat),
      (specWriteLog.groups cfg compress none rowGroups rgi cs pos).2.1 = spData cfg compress rowGroups cs ∧
      (specWriteLog.groups cfg compress none rowGroups rgi cs pos).1.mapM decRG = some (spRGMetas cfg compress rowGroups cs pos) ∧
      (∀ t ∈ (specWriteLog.groups cfg compress none rowGroups rgi cs pos).1, t.ecode = tStruct ∧ t.WF ∧ t.dep ≤ 5)
  | [], rgi, cs, pos => by
    rw [groups_nil]
    exact ⟨rfl, rfl, by simp⟩
  | recs :: rest, rgi, cs, pos => by
    rw [groups_cons]
    simp only
    obtain ⟨c1, c2, _, c5⟩ := chunks_spec cfg compress rgi recs (cfg.cols.zip cfg.codecs) 0 cs pos
    have c3 := chunks_metas cfg compress rgi recs (cfg.cols.zip cfg.codecs) 0 cs pos
    generalize specWriteLog.chunks cfg compress none rgi recs (cfg.cols.zip cfg.codecs) 0 cs pos = ch at c1 c2 c3 c5
    rw [c1, c2]
    obtain ⟨g1, g2, g3⟩ := groups_metas cfg compress rest (rgi + 1) (spChunks cfg compress recs (cfg.cols.zip cfg.codecs) 0 cs).2
      (pos + (gBytes (spChunks cfg compress recs (cfg.cols.zip cfg.codecs) 0 cs).1).length)
    refine ⟨?_, ?_, ?_⟩
    · rw [spData, g1]
    · simp only [List.mapM_cons, decRG_spRgT _ _ _ _ c3, g2, bind, Option.bind, pure, spRGMetas]
    · intro t ht
      rcases List.mem_cons.mp ht with rfl | ht
      · exact spRgT_wf _ _ _ c5
      · exact g3 t ht

/-- the chunks of all row groups, laid out from `pre.length` -/
theorem groupsListed_sp (cfg : SWCfg) (compress : Nat → Bytes → Bytes) :
    ∀ (rowGroups : List (List Rec)) (cs : Choices) (pre post : Bytes),
      (∀ rg ∈ rowGroups, ∀ r ∈ rg, ∀ i, i < (cfg.cols.zip cfg.codecs).length → r.getD i [] ≠ []) →
      Forall2 (ChunkListed (pre ++ spData cfg compress rowGroups cs ++ post))
        ((spRGMetas cfg compress rowGroups cs pre.length).flatMap (·.columns)) (spFileHdrss cfg compress rowGroups cs)
  | [], cs, pre, post, _ => .nil
  | recs :: rest, cs, pre, post, h => by
    have hfile : pre ++ spData cfg compress (recs :: rest) cs ++ post =
        pre ++ gBytes (spChunks cfg compress recs (cfg.cols.zip cfg.codecs) 0 cs).1 ++
          (spData cfg compress rest (spChunks cfg compress recs (cfg.cols.zip cfg.codecs) 0 cs).2 ++ post) := by
      simp only [spData, List.append_assoc]
    rw [hfile]
    simp only [spRGMetas, spFileHdrss, List.flatMap_cons]
    refine forall2_append (chunksListed_sp cfg compress recs _ 0 cs pre _
      (fun i _ h2 r hr => h recs List.mem_cons_self r hr i (by omega))) ?_
    have ih := groupsListed_sp cfg compress rest (spChunks cfg compress recs (cfg.cols.zip cfg.codecs) 0 cs).2
      (pre ++ gBytes (spChunks cfg compress recs (cfg.cols.zip cfg.codecs) 0 cs).1) post
      (fun rg hrg => h rg (List.mem_cons_of_mem _ hrg))
    rw [List.length_append] at ih
    simpa only [List.append_assoc] using ih

/-! ## `ReadMetaData` -/

/-- **`ReadMetaData` on `PAR1 ‖ data ‖ footer ‖ length ‖ PAR1`, any footer**: if the thrift decoder returns
`t` from the footer bytes (with the fuel the call gives it) and `FileMetaData.Read` makes `f` of it, the
call returns `f`. -/
theorem readMetaData_gen (t : TVal) (f : FMD) (hf : decFMD t = some f)
    (file data fenc : Bytes) (hfile : file = par1 ++ data ++ (fenc ++ le32 fenc.length ++ par1))
    (hn : fenc.length < 2 ^ 32)
    (hdec : decVal tStruct ((fenc ++ (le32 fenc.length ++ par1)).length + 2) (fenc ++ (le32 fenc.length ++ par1)) =
      some (t, le32 fenc.length ++ par1)) :
    readMetaData file = .ok f := by
  have hp : par1.length = 4 := rfl
  have hlen : file.length = 4 + data.length + fenc.length + 8 := by
    rw [hfile]; simp only [List.length_append, le32_length, hp]; omega
  have h2 : file.drop (file.length - 4) = par1 := by
    have e : file = (par1 ++ data ++ (fenc ++ le32 fenc.length)) ++ par1 := by rw [hfile]; simp only [List.append_assoc]
    have l : (par1 ++ data ++ (fenc ++ le32 fenc.length)).length = file.length - 4 := by
      rw [hlen]; simp only [List.length_append, le32_length, hp]; omega
    rw [← l]
    conv => lhs; arg 2; rw [e]
    exact List.drop_left
  have h3 : (file.drop (file.length - 8)).take 4 = le32 fenc.length := by
    have e : file = (par1 ++ data ++ fenc) ++ (le32 fenc.length ++ par1) := by rw [hfile]; simp only [List.append_assoc]
    have l : (par1 ++ data ++ fenc).length = file.length - 8 := by
      rw [hlen]; simp only [List.length_append, hp]; omega
    rw [← l]
    conv => lhs; arg 2; arg 2; rw [e]
    rw [List.drop_left, List.take_left' (le32_length _)]
  have h3' : fromLE ((file.drop (file.length - 8)).take 4) = fenc.length := by
    rw [h3]
    exact fromLE_leBytes 4 _ (by have : (256 : Nat) ^ 4 = 2 ^ 32 := by decide
                                 omega)
  have h4 : file.drop (file.length - (fenc.length + 8)) = fenc ++ (le32 fenc.length ++ par1) := by
    have e : file = (par1 ++ data) ++ (fenc ++ (le32 fenc.length ++ par1)) := by rw [hfile]; simp only [List.append_assoc]
    have l : (par1 ++ data).length = file.length - (fenc.length + 8) := by
      rw [hlen]; simp only [List.length_append, hp]; omega
    rw [← l]
    conv => lhs; arg 2; rw [e]
    exact List.drop_left
  unfold readMetaData
  rw [if_neg (by omega), if_neg (by rw [h2]; simp [par1]), h3', if_neg (by omega)]
  simp only [Src.readStruct, h4, hdec, hf]

/-! ## the whole file -/

/-- the footer of the file `specWrite cfg compress none cs rowGroups`, as `FileMetaData.Read` decodes it
(`sd`: the decoded schema elements): version 1, the number of records, and per row group its `num_rows`,
its byte size and, per column, the `ColumnChunk` with codec, `num_values`, sizes and `data_page_offset` -/
def spFMD (cfg : SWCfg) (compress : Nat → Bytes → Bytes) (cs : Choices) (rowGroups : List (List Rec)) (sd : List SElemD) : FMD :=
  { version := 1, schema := sd, numRows := ((rowGroups.map List.length).sum : Nat),
    rowGroups := spRGMetas cfg compress rowGroups cs 4 }

/-- **C16 on the files of the independent writer**, from the one fact about the records that matters here:
every record holds at least one entry for every column. -/
theorem introspection_specWrite_ne (cfg : SWCfg) (compress : Nat → Bytes → Bytes) (cs : Choices) (rowGroups : List (List Rec))
    (hne : ∀ rg ∈ rowGroups, ∀ r ∈ rg, ∀ i, i < cfg.cols.length → r.getD i [] ≠ [])
    (hsize : (specWrite cfg compress none cs rowGroups).length < 2 ^ 32) :
    ∃ sd, (specSchema cfg.cols).mapM decSElem = some sd ∧
      readMetaData (specWrite cfg compress none cs rowGroups) = .ok (spFMD cfg compress cs rowGroups sd) ∧
      pageHeaders (specWrite cfg compress none cs rowGroups) (spFMD cfg compress cs rowGroups sd) =
        .ok (spFileHdrs cfg compress rowGroups cs) ∧
      Forall2 (ChunkListed (specWrite cfg compress none cs rowGroups))
        ((spFMD cfg compress cs rowGroups sd).rowGroups.flatMap (·.columns)) (spFileHdrss cfg compress rowGroups cs) := by
  obtain ⟨g1, g2, g3⟩ := groups_metas cfg compress rowGroups 0 cs 4
  obtain ⟨sd, hsd⟩ := mapM_some_of_isSome decSElem (specSchema cfg.cols)
    (fun t ht => ((specSchema_ok cfg.cols).1 t ht).2.2.2)
  have hfile := specWriteLog_eq cfg compress cs rowGroups
  rw [g1] at hfile
  generalize hR : (specWriteLog.groups cfg compress none rowGroups 0 cs 4).1 = rgs at hfile g2 g3
  generalize hfe : (spFooter cfg (rowGroups.map List.length).sum rgs).enc = fenc at hfile
  have hn : fenc.length < 2 ^ 32 := by
    unfold specWrite at hsize
    rw [hfile] at hsize
    simp only [List.length_append] at hsize
    omega
  have hdec := decVal_spFooter cfg (rowGroups.map List.length).sum rgs g3 (le32 fenc.length ++ par1)
    ((fenc ++ (le32 fenc.length ++ par1)).length + 2) (by rw [hfe]; simp only [List.length_append]; omega)
  rw [hfe] at hdec
  have hfmd := decFMD_spFooter cfg (rowGroups.map List.length).sum rgs sd _ hsd g2
  have hmeta := readMetaData_gen _ _ hfmd _ _ fenc hfile hn hdec
  have hzip : (cfg.cols.zip cfg.codecs).length ≤ cfg.cols.length := by
    rw [List.length_zip]; exact Nat.min_le_left _ _
  have hlisted := groupsListed_sp cfg compress rowGroups cs par1 (fenc ++ le32 fenc.length ++ par1)
    (fun rg hrg r hr i hi => hne rg hrg r hr i (by omega))
  rw [← hfile] at hlisted
  refine ⟨sd, hsd, hmeta, ?_, hlisted⟩
  rw [pageHeaders_eq]
  have := foldlM_phStep_listed _ _ _ hlisted []
  rw [List.nil_append] at this
  exact this

/-- **C16 on the files of the independent writer.**  For every choice stream `cs` (every page split of
every column at record boundaries, independently per column; every run segmentation of every level
stream), any per-column codec ids and compressors, with or without statistics and unknown / optional
thrift fields, any `file_offset` mode, row groups without records anywhere in the file:

* `ReadMetaData` returns the footer the writer wrote (`spFMD`: one row group per input row group with its
  `num_rows`; per column one `ColumnChunk` with the codec, `num_values`, sizes and `data_page_offset` of the
  chunk);
* `PageHeaders` on that footer returns exactly one header per page the writer emitted, in file order
  (`spFileHdrs`), each `spPH rawLen storedLen num_values defLabel repLabel statistics` of its page
  (`spPageHdr`; the level-encoding labels are RLE = 3, or — for the levels a column does not have, when
  `cfg.mrLabels` — BIT_PACKED = 4, as parquet-mr writes them: `SWCfg.defLabel`, `SWCfg.repLabel`);
* per `ColumnChunk` of the footer (`ChunkListed`): a chunk without bytes has no pages and is skipped; for
  any other, `PageHeadersAtOffset` at its `data_page_offset` returns the headers of exactly the chunk's pages
  when asked for the chunk's `num_values`, and the first of them when asked for 0.

`hrecs`: every record holds, per column, the entries of one record (`RecColOK`; only the fact that there is
at least one is used);  `hsize`: the file is smaller than 4 GiB. -/
theorem introspection_specWrite (cfg : SWCfg) (compress : Nat → Bytes → Bytes) (cs : Choices) (rowGroups : List (List Rec))
    (hrecs : ∀ rg ∈ rowGroups, ∀ r ∈ rg, ∀ x ∈ cfg.cols.zipIdx, RecColOK x.1 (r.getD x.2 []))
    (hsize : (specWrite cfg compress none cs rowGroups).length < 2 ^ 32) :
    ∃ fmd sd, readMetaData (specWrite cfg compress none cs rowGroups) = .ok fmd ∧
      ((specSchema cfg.cols).mapM decSElem = some sd ∧ fmd = spFMD cfg compress cs rowGroups sd) ∧
      pageHeaders (specWrite cfg compress none cs rowGroups) fmd = .ok (spFileHdrs cfg compress rowGroups cs) ∧
      Forall2 (ChunkListed (specWrite cfg compress none cs rowGroups))
        (fmd.rowGroups.flatMap (·.columns)) (spFileHdrss cfg compress rowGroups cs) := by
  obtain ⟨sd, h1, h2, h3, h4⟩ := introspection_specWrite_ne cfg compress cs rowGroups (by
    intro rg hrg r hr i hi
    have hx : (cfg.cols[i], i) ∈ cfg.cols.zipIdx := by
      rw [List.mem_zipIdx_iff_getElem?]
      simp [hi]
    obtain ⟨e, tl, h, _⟩ := (hrecs rg hrg r hr _ hx).start
    simp only at h
    rw [h]
    simp) hsize
  exact ⟨_, sd, h2, ⟨h1, rfl⟩, h3, h4⟩

/-! ## reading the right-hand sides -/

theorem Forall2.length_eq {α β : Type} {R : α → β → Prop} : ∀ {a : List α} {b : List β}, Forall2 R a b → a.length = b.length
  | _, _, .nil => rfl
  | _, _, .cons _ h => by simp [Forall2.length_eq h]

theorem Forall2.of_mem_left {α β : Type} {R : α → β → Prop} :
    ∀ {a : List α} {b : List β}, Forall2 R a b → ∀ x ∈ a, ∃ y ∈ b, R x y
  | _, _, .nil, x, hx => by simp at hx
  | _, _, .cons (b := y) h1 h2, x, hx => by
    rcases List.mem_cons.mp hx with rfl | hx
    · exact ⟨y, List.mem_cons_self, h1⟩
    · obtain ⟨y', hy', hr⟩ := Forall2.of_mem_left h2 x hx
      exact ⟨y', List.mem_cons_of_mem _ hy', hr⟩

/-- one row group in the footer per input row group … -/
theorem spRGMetas_length (cfg : SWCfg) (compress : Nat → Bytes → Bytes) :
    ∀ (rowGroups : List (List Rec)) (cs : Choices) (pos : Nat), (spRGMetas cfg compress rowGroups cs pos).length = rowGroups.length
  | [], _, _ => rfl
  | _ :: rest, _, _ => by simp [spRGMetas, spRGMetas_length cfg compress rest]

/-- … with its `num_rows` -/
theorem spRGMetas_numRows (cfg : SWCfg) (compress : Nat → Bytes → Bytes) :
    ∀ (rowGroups : List (List Rec)) (cs : Choices) (pos : Nat),
      (spRGMetas cfg compress rowGroups cs pos).map (·.numRows) = rowGroups.map fun rg => ((rg.length : Nat) : Int)
  | [], _, _ => rfl
  | _ :: rest, _, _ => by simp [spRGMetas, spRGMetas_numRows cfg compress rest]

/-- one `ColumnChunk` per (column, codec) pair -/
theorem spChunkMetas_length (cfg : SWCfg) (compress : Nat → Bytes → Bytes) (recs : List Rec) :
    ∀ (ccs : List (Col × Nat)) (ci : Nat) (cs : Choices) (pos : Nat), (spChunkMetas cfg compress recs ccs ci cs pos).length = ccs.length
  | [], _, _, _ => rfl
  | (_, _) :: rest, _, _, _ => by simp [spChunkMetas, spChunkMetas_length cfg compress recs rest]

/-- every row group of the footer lists one chunk per column (when there is a codec for every column) -/
theorem spRGMetas_columns_length (cfg : SWCfg) (compress : Nat → Bytes → Bytes) (hcodecs : cfg.codecs.length = cfg.cols.length) :
    ∀ (rowGroups : List (List Rec)) (cs : Choices) (pos : Nat),
      ∀ rg ∈ spRGMetas cfg compress rowGroups cs pos, rg.columns.length = cfg.cols.length
  | [], _, _, rg, h => by simp [spRGMetas] at h
  | recs :: rest, cs, pos, rg, h => by
    simp only [spRGMetas, List.mem_cons] at h
    rcases h with rfl | h
    · simp only [spChunkMetas_length, List.length_zip, hcodecs, Nat.min_self]
    · exact spRGMetas_columns_length cfg compress hcodecs rest _ _ rg h

/-- what the footer says of one chunk: the column's type and path, the codec, the entries the records hold
for the column, the chunk's length, and where it lies -/
theorem spChunkMetaAt_md (cfg : SWCfg) (compress : Nat → Bytes → Bytes) (recs : List Rec) (c : Col) (codec ci : Nat)
    (cs : Choices) (pos : Nat) :
    ∃ m, (spChunkMetaAt cfg compress recs c codec ci cs pos).md = some m ∧ m.ty = c.ty.phys ∧
      m.path = c.path.map strBytes ∧ m.codec = (codec : Nat) ∧
      m.numValues = (((recs.flatMap (·.getD ci [])).length : Nat) : Int) ∧
      m.totalCompressed = (((spGChunk cfg compress recs c codec ci cs).bytes.length : Nat) : Int) ∧
      m.dataPageOffset = ((pos : Nat) : Int) := by
  refine ⟨_, rfl, rfl, rfl, rfl, ?_, rfl, rfl⟩
  simp only [List.flatMap_def, List.length_flatten]

/-- a header of the spec writer's page says: `num_values`, PLAIN values, the level-encoding labels, stored size,
uncompressed size, statistics -/
theorem hdrFacts_spPageHdr (cfg : SWCfg) (c : Col) (codec : Nat) (compress : Bytes → Bytes) (cs : Choices) (es : PageEntries) :
    (spPageHdr cfg c codec compress cs es).dph =
      some (((es.length : Nat) : Int), 0, ((cfg.defLabel c : Nat) : Int), ((cfg.repLabel c : Nat) : Int), spStatsOpt cfg c es) ∧
    (spPageHdr cfg c codec compress cs es).uncompressed = (((spRaw cfg c cs es).length : Nat) : Int) ∧
    (spPageHdr cfg c codec compress cs es).compressed = (((spPage cfg c codec compress cs es).2.length : Nat) : Int) :=
  ⟨rfl, rfl, rfl⟩

/-- one header per page, in order, each with its page's `num_values` -/
theorem spEmitHdrs_numValues (cfg : SWCfg) (c : Col) (codec : Nat) (compress : Bytes → Bytes) :
    ∀ (ess : List PageEntries) (cs : Choices),
      (spEmitHdrs cfg c codec compress ess cs).map (fun h => h.dph.map (·.1)) = ess.map fun es => some ((es.length : Nat) : Int)
  | [], _ => rfl
  | p :: ps, cs => by
    simp only [spEmitHdrs, List.map_cons, spEmitHdrs_numValues cfg c codec compress ps]
    rfl

/-- **`PageHeadersAtOffset` from the offsets the footer gives** (the per-chunk statement, by membership):
every `ColumnChunk` the footer of a spec-writer file lists has its pages' headers `hs` among `spFileHdrss`;
a chunk with `total_compressed_size = 0` has none, for any other the call at the chunk's `data_page_offset`
returns `hs` for the chunk's `num_values` and `[hs.head]` for 0. -/
theorem pageHeadersAt_specWrite (cfg : SWCfg) (compress : Nat → Bytes → Bytes) (cs : Choices) (rowGroups : List (List Rec))
    (hrecs : ∀ rg ∈ rowGroups, ∀ r ∈ rg, ∀ x ∈ cfg.cols.zipIdx, RecColOK x.1 (r.getD x.2 []))
    (hsize : (specWrite cfg compress none cs rowGroups).length < 2 ^ 32) (fmd : FMD)
    (hfmd : readMetaData (specWrite cfg compress none cs rowGroups) = .ok fmd) :
    ∀ ch ∈ fmd.rowGroups.flatMap (·.columns), ∃ hs ∈ spFileHdrss cfg compress rowGroups cs, ∃ m, ch.md = some m ∧
      (m.totalCompressed = 0 → hs = []) ∧
      (m.totalCompressed ≠ 0 →
        pageHeadersAt (specWrite cfg compress none cs rowGroups) m.dataPageOffset m.numValues = .ok hs ∧
        ∃ h tl, hs = h :: tl ∧ pageHeadersAt (specWrite cfg compress none cs rowGroups) m.dataPageOffset 0 = .ok [h]) := by
  obtain ⟨fmd', sd, h1, _, _, h4⟩ := introspection_specWrite cfg compress cs rowGroups hrecs hsize
  rw [hfmd] at h1
  cases h1
  intro ch hch
  obtain ⟨hs, hhs, m, hm, h⟩ := h4.of_mem_left ch hch
  refine ⟨hs, hhs, m, hm, ?_, ?_⟩
  · intro h0
    rcases h with ⟨_, h⟩ | ⟨hn, _⟩
    · exact h
    · exact absurd h0 hn
  · intro hn
    rcases h with ⟨h0, _⟩ | ⟨_, h⟩
    · exact absurd h0 hn
    · exact h

/-! ## Non-vacuity: two columns (codec ids 1 and 2), statistics and unknown fields on, three row groups — the
second without records.  The "compressors" prepend two bytes: no decompressor is needed to list headers. -/
section NonVacuity

private def fiCols : List Col :=
  [{ path := ["a"], reps := [.req], ty := .i32 }, { path := ["b"], reps := [.rpt], ty := .i32 }]
private def fiCfg : SWCfg := { cols := fiCols, codecs := [1, 2], withStats := true, withExtras := true, padv := 3 }
/-- record `k`: `a = k`, `b = [k, k + 256]` for even `k` and `[]` for odd `k` -/
private def fiRec (k : Nat) : Rec :=
  [[{ rep := 0, dl := 0, val := some [k, 0, 0, 0] }],
   if k % 2 = 0 then [{ rep := 0, dl := 1, val := some [k, 0, 0, 0] }, { rep := 1, dl := 1, val := some [k, 1, 0, 0] }]
   else [{ rep := 0, dl := 0, val := none }]]
private def fiGroups : List (List Rec) := [[fiRec 1, fiRec 2, fiRec 3], [], [fiRec 4]]
private def fiCs : Choices := [1, 0, 1, 1, 0, 2, 1, 5, 3, 0, 0, 1, 7, 2, 8, 1]
private def fiComp : Nat → Bytes → Bytes := fun k b => k :: k :: b
/-- `num_values`, uncompressed size, stored size -/
private def fiFacts (h : PHdr) : Option Int × Int × Int := (h.dph.map (·.1), h.uncompressed, h.compressed)

private theorem fi_hx : ∀ x ∈ fiCols.zipIdx, x = (⟨["a"], [.req], .i32⟩, 0) ∨ x = (⟨["b"], [.rpt], .i32⟩, 1) := by
  intro x hx; simpa [fiCols] using hx

private theorem fi_recOK (k : Nat) (hk : k < 10) : ∀ x ∈ fiCols.zipIdx, RecColOK x.1 ((fiRec k).getD x.2 []) := by
  intro x hx
  have hk' : k = 0 ∨ k = 1 ∨ k = 2 ∨ k = 3 ∨ k = 4 ∨ k = 5 ∨ k = 6 ∨ k = 7 ∨ k = 8 ∨ k = 9 := by omega
  rcases fi_hx x hx with rfl | rfl <;> rcases hk' with rfl | rfl | rfl | rfl | rfl | rfl | rfl | rfl | rfl | rfl <;>
    exact ⟨⟨_, _, rfl, rfl, by simp⟩, by decide, by decide⟩

private theorem fi_recs : ∀ rg ∈ fiGroups, ∀ r ∈ rg, ∀ x ∈ fiCfg.cols.zipIdx, RecColOK x.1 (r.getD x.2 []) := by
  intro rg hrg r hr
  have hrg' : rg = [fiRec 1, fiRec 2, fiRec 3] ∨ rg = [] ∨ rg = [fiRec 4] := by simpa [fiGroups] using hrg
  rcases hrg' with rfl | rfl | rfl
  · have hr' : r = fiRec 1 ∨ r = fiRec 2 ∨ r = fiRec 3 := by simpa using hr
    rcases hr' with rfl | rfl | rfl
    · exact fi_recOK 1 (by decide)
    · exact fi_recOK 2 (by decide)
    · exact fi_recOK 3 (by decide)
  · simp at hr
  · have hr' : r = fiRec 4 := by simpa using hr
    subst hr'; exact fi_recOK 4 (by decide)

/-- the theorem applied — all hypotheses discharged: the footer reports 4 rows in row groups of 3, 0 and 1
rows, and `PageHeaders` lists the six pages in file order: column `a`'s pages of 2 and 1 values and column
`b`'s of 3 and 1 (a different split per column), nothing for the row group without records, then one page
per column — each with the uncompressed size and the (two bytes larger) stored size of its page. -/
example : ∃ fmd hs, readMetaData (specWrite fiCfg fiComp none fiCs fiGroups) = .ok fmd ∧
    fmd.numRows = 4 ∧ fmd.rowGroups.map (·.numRows) = [3, 0, 1] ∧
    pageHeaders (specWrite fiCfg fiComp none fiCs fiGroups) fmd = .ok hs ∧
    hs.map fiFacts = [(some 2, 8, 10), (some 1, 4, 6), (some 3, 22, 24), (some 1, 12, 14), (some 1, 4, 6), (some 2, 24, 26)] := by
  obtain ⟨fmd, sd, h1, ⟨_, h2⟩, h3, _⟩ := introspection_specWrite fiCfg fiComp fiCs fiGroups fi_recs (by decide +kernel)
  refine ⟨fmd, _, h1, ?_, ?_, h3, ?_⟩
  · rw [h2]; rfl
  · rw [h2]; simp only [spFMD, spRGMetas_numRows]; rfl
  · decide +kernel

/-- the per-chunk listing: six `ColumnChunk`s, the two of the row group without records without pages -/
example : (spFileHdrss fiCfg fiComp fiGroups fiCs).map (·.map fiFacts) =
    [[(some 2, 8, 10), (some 1, 4, 6)], [(some 3, 22, 24), (some 1, 12, 14)], [], [], [(some 1, 4, 6)], [(some 2, 24, 26)]] := by
  decide +kernel

/-- the same by kernel evaluation of the writer model and the models of the calls alone (not through the
theorem): `ReadMetaData`, `PageHeaders`; `PageHeadersAtOffset` at the first chunk (offset 4) asked for its 3
values, for 2 of them, for none -/
example : (match readMetaData (specWrite fiCfg fiComp none fiCs fiGroups) with
    | .ok fmd => (match pageHeaders (specWrite fiCfg fiComp none fiCs fiGroups) fmd with
      | .ok hs => some (fmd.numRows, fmd.rowGroups.map (·.numRows), hs.map fiFacts)
      | .error _ => none)
    | .error _ => none) =
    some (4, [3, 0, 1],
      [(some 2, 8, 10), (some 1, 4, 6), (some 3, 22, 24), (some 1, 12, 14), (some 1, 4, 6), (some 2, 24, 26)]) := by
  decide +kernel
example : (match pageHeadersAt (specWrite fiCfg fiComp none fiCs fiGroups) 4 3 with
    | .ok hs => some (hs.map fiFacts) | .error _ => none) = some [(some 2, 8, 10), (some 1, 4, 6)] := by decide +kernel
example : (match pageHeadersAt (specWrite fiCfg fiComp none fiCs fiGroups) 4 2 with
    | .ok hs => some (hs.map fiFacts) | .error _ => none) = some [(some 2, 8, 10)] := by decide +kernel
example : (match pageHeadersAt (specWrite fiCfg fiComp none fiCs fiGroups) 4 0 with
    | .ok hs => some (hs.map fiFacts) | .error _ => none) = some [(some 2, 8, 10)] := by decide +kernel
/-- a file with nothing but row groups without records: no headers -/
example : (match readMetaData (specWrite fiCfg fiComp none fiCs [[], []]) with
    | .ok fmd => (match pageHeaders (specWrite fiCfg fiComp none fiCs [[], []]) fmd with
      | .ok hs => some (fmd.rowGroups.length, hs.length)
      | .error _ => none)
    | .error _ => none) = some (2, 0) := by
  decide +kernel

/-! ### parquet-mr style labels: a required, an optional and a repeated column, `mrLabels := true` -/

private def fiMrCols : List Col :=
  [{ path := ["a"], reps := [.req], ty := .i32 }, { path := ["b"], reps := [.opt], ty := .i32 },
   { path := ["c"], reps := [.rpt], ty := .i32 }]
private def fiMrCfg : SWCfg :=
  { cols := fiMrCols, codecs := [0, 1, 2], withStats := true, withExtras := true, padv := 3, mrLabels := true }
/-- record `k`: `a = k`; `b = k` for even `k`, null for odd `k`; `c = [k, k + 256]` for even `k`, `[]` for odd `k` -/
private def fiMrRec (k : Nat) : Rec :=
  [[{ rep := 0, dl := 0, val := some [k, 0, 0, 0] }],
   if k % 2 = 0 then [{ rep := 0, dl := 1, val := some [k, 0, 0, 0] }] else [{ rep := 0, dl := 0, val := none }],
   if k % 2 = 0 then [{ rep := 0, dl := 1, val := some [k, 0, 0, 0] }, { rep := 1, dl := 1, val := some [k, 1, 0, 0] }]
   else [{ rep := 0, dl := 0, val := none }]]
private def fiMrGroups : List (List Rec) := [[fiMrRec 1, fiMrRec 2], [fiMrRec 4]]
/-- `num_values` and the three encoding ids: values, definition levels, repetition levels -/
private def fiEncs (h : PHdr) : Option (Int × Int × Int × Int) := h.dph.map fun d => (d.1, d.2.1, d.2.2.1, d.2.2.2.1)

private theorem fiMr_hx : ∀ x ∈ fiMrCols.zipIdx,
    x = (⟨["a"], [.req], .i32⟩, 0) ∨ x = (⟨["b"], [.opt], .i32⟩, 1) ∨ x = (⟨["c"], [.rpt], .i32⟩, 2) := by
  intro x hx; simpa [fiMrCols] using hx

private theorem fiMr_recs : ∀ rg ∈ fiMrGroups, ∀ r ∈ rg, ∀ x ∈ fiMrCfg.cols.zipIdx, RecColOK x.1 (r.getD x.2 []) := by
  intro rg hrg r hr x hx
  have hrg' : rg = [fiMrRec 1, fiMrRec 2] ∨ rg = [fiMrRec 4] := by simpa [fiMrGroups] using hrg
  rcases hrg' with rfl | rfl
  · have hr' : r = fiMrRec 1 ∨ r = fiMrRec 2 := by simpa using hr
    rcases fiMr_hx x hx with rfl | rfl | rfl <;> rcases hr' with rfl | rfl <;>
      exact ⟨⟨_, _, rfl, rfl, by simp⟩, by decide, by decide⟩
  · have hr' : r = fiMrRec 4 := by simpa using hr
    subst hr'
    rcases fiMr_hx x hx with rfl | rfl | rfl <;> exact ⟨⟨_, _, rfl, rfl, by simp⟩, by decide, by decide⟩

/-- **the theorem applied to a file with parquet-mr style labels**: `PageHeaders` lists, per page, the labels as
they stand in the file — BIT_PACKED (4) for both level encodings of the required column `a`, for the
repetition-level encoding of the optional column `b`, RLE (3) throughout for the repeated column `c` -/
example : ∃ fmd hs, readMetaData (specWrite fiMrCfg fiComp none fiCs fiMrGroups) = .ok fmd ∧
    fmd.numRows = 3 ∧ fmd.rowGroups.map (·.numRows) = [2, 1] ∧
    pageHeaders (specWrite fiMrCfg fiComp none fiCs fiMrGroups) fmd = .ok hs ∧
    hs.map fiEncs = (spFileHdrs fiMrCfg fiComp fiMrGroups fiCs).map fiEncs ∧
    (spFileHdrss fiMrCfg fiComp fiMrGroups fiCs).map (·.map fiEncs) =
      [[some (2, 0, 4, 4)], [some (1, 0, 3, 4), some (1, 0, 3, 4)], [some (3, 0, 3, 3)],
       [some (1, 0, 4, 4)], [some (1, 0, 3, 4)], [some (2, 0, 3, 3)]] := by
  obtain ⟨fmd, sd, h1, ⟨_, h2⟩, h3, _⟩ := introspection_specWrite fiMrCfg fiComp fiCs fiMrGroups fiMr_recs (by decide +kernel)
  refine ⟨fmd, _, h1, ?_, ?_, h3, rfl, ?_⟩
  · rw [h2]; rfl
  · rw [h2]; simp only [spFMD, spRGMetas_numRows]; rfl
  · decide +kernel

/-- the same by kernel evaluation of the writer model and the models of the calls alone -/
example : (match readMetaData (specWrite fiMrCfg fiComp none fiCs fiMrGroups) with
    | .ok fmd => (match pageHeaders (specWrite fiMrCfg fiComp none fiCs fiMrGroups) fmd with
      | .ok hs => some (hs.map fiEncs)
      | .error _ => none)
    | .error _ => none) =
    some [some (2, 0, 4, 4), some (1, 0, 3, 4), some (1, 0, 3, 4), some (3, 0, 3, 3),
          some (1, 0, 4, 4), some (1, 0, 3, 4), some (2, 0, 3, 3)] := by
  decide +kernel

end NonVacuity

end PQ
