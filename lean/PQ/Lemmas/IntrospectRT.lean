import PQ.Model.Introspect
import PQ.Lemmas.ReaderRT
/-!
# The introspection calls on the files the writer lays out

* `readMetaData_layout` – `ReadMetaData` on `PAR1 ‖ data ‖ footer ‖ length ‖ PAR1` locates the footer
  and decodes it;
* `pageHeadersAt_go_pages` – the loop of `PageHeadersAtOffset` started at the first of the pages the
  writer laid out for one column chunk (`chunkBytes k c ess`) returns the headers of the pages of
  `coverPrefix`: it walks from header to header over the compressed payloads and stops as soon as
  the accumulated `num_values` reach `n` (after at least one header);
* `coverPrefix_eq_take`, `coverPrefix_all` – `coverPrefix` is the shortest non-empty prefix whose
  `num_values` reach `n`; all pages when `n` is the chunk's `num_values` and no page is empty;
* `pageHeaders_prgs` – the fold of `PageHeaders` over the chunks of all row groups laid out back to back.
-/
namespace PQ
open PQ.Thrift

/-! ## `ReadMetaData` -/

theorem readMetaData_layout (se : List SElem) (hse : se ≠ []) (N : Nat) (rgs : List TVal)
    (hrwf : ∀ t ∈ rgs, t.ecode = tStruct ∧ t.WF ∧ t.dep ≤ 5) (sd : List SElemD) (rms : List RGMeta)
    (hsd : (se.map SElem.toT).mapM decSElem = some sd) (hrdec : rgs.mapM decRG = some rms)
    (file data : Bytes)
    (hfile : file = par1 ++ data ++ ((footerOf se N rgs).enc ++ le32 (footerOf se N rgs).enc.length ++ par1))
    (hn : (footerOf se N rgs).enc.length < 2 ^ 32) :
    readMetaData file = .ok { version := 1, schema := sd, numRows := (N : Nat), rowGroups := rms } := by
  generalize hfe : (footerOf se N rgs).enc = fenc at hfile hn
  have hp : par1.length = 4 := rfl
  have hlen : file.length = 4 + data.length + fenc.length + 8 := by
    rw [hfile]; simp only [List.length_append, le32_length, hp]; omega
  have h2 : file.drop (file.length - 4) = par1 := by
    have e : file = (par1 ++ data ++ (fenc ++ le32 fenc.length)) ++ par1 := by rw [hfile]; simp only [List.append_assoc]
    have l : (par1 ++ data ++ (fenc ++ le32 fenc.length)).length = file.length - 4 := by
      rw [hlen]; simp only [List.length_append, le32_length, hp]; omega
    rw [← l]
    conv => lhs; arg 2; rw [e]
    exact List.drop_left
  have h3 : (file.drop (file.length - 8)).take 4 = le32 fenc.length := by
    have e : file = (par1 ++ data ++ fenc) ++ (le32 fenc.length ++ par1) := by rw [hfile]; simp only [List.append_assoc]
    have l : (par1 ++ data ++ fenc).length = file.length - 8 := by
      rw [hlen]; simp only [List.length_append, hp]; omega
    rw [← l]
    conv => lhs; arg 2; arg 2; rw [e]
    rw [List.drop_left, List.take_left' (le32_length _)]
  have h3' : fromLE ((file.drop (file.length - 8)).take 4) = fenc.length := by
    rw [h3]
    exact fromLE_leBytes 4 _ (by have : (256 : Nat) ^ 4 = 2 ^ 32 := by decide
                                 omega)
  have h4 : file.drop (file.length - (fenc.length + 8)) = fenc ++ (le32 fenc.length ++ par1) := by
    have e : file = (par1 ++ data) ++ (fenc ++ (le32 fenc.length ++ par1)) := by rw [hfile]; simp only [List.append_assoc]
    have l : (par1 ++ data).length = file.length - (fenc.length + 8) := by
      rw [hlen]; simp only [List.length_append, hp]; omega
    rw [← l]
    conv => lhs; arg 2; rw [e]
    exact List.drop_left
  have hdec : decVal tStruct ((fenc ++ (le32 fenc.length ++ par1)).length + 2) (fenc ++ (le32 fenc.length ++ par1)) =
      some (footerOf se N rgs, le32 fenc.length ++ par1) := by
    have := decVal_enc_need (footerOf se N rgs) (footerOf_wf se N rgs fun t ht => ⟨(hrwf t ht).1, (hrwf t ht).2.1⟩)
      ((fenc ++ (le32 fenc.length ++ par1)).length + 2) (le32 fenc.length ++ par1)
      (by
        have := footerOf_need se hse N rgs fun t ht => (hrwf t ht).2.2
        rw [hfe] at this
        simp only [List.length_append]; omega)
    rw [hfe] at this
    simpa [footerOf, TVal.ecode, TVal.code] using this
  have hfmd := decFMD_footerOf se N rgs sd rms hsd hrdec
  unfold readMetaData
  rw [if_neg (by omega), if_neg (by rw [h2]; simp [par1]), h3', if_neg (by omega)]
  simp only [Src.readStruct, h4, hdec, hfmd]

/-! ## `PageHeadersAtOffset` on the pages of one chunk -/

/-- the pages whose headers `PageHeadersAtOffset` lists: pages are taken while no header was read
yet or the `num_values` read so far are short of `n` -/
def coverPrefix (n : Int) : Int → Bool → List PageEntries → List PageEntries
  | _, _, [] => []
  | nRead, readOne, es :: ess =>
    if !readOne || nRead < n then es :: coverPrefix n (nRead + (es.length : Int)) true ess else []

/-- one turn of the loop on a written page -/
theorem pageHeadersAt_go_step (k : Codec) (c : Col) (es : PageEntries) (n : Int) (pre rest : Bytes) (fuel : Nat)
    (nRead : Int) (readOne : Bool) (acc : List PHdr) (hcond : (!readOne || nRead < n) = true) :
    pageHeadersAt.go (pre ++ (pageBytes k c es).1 ++ (pageBytes k c es).2 ++ rest) n (fuel + 1) pre.length nRead readOne acc =
      pageHeadersAt.go (pre ++ (pageBytes k c es).1 ++ (pageBytes k c es).2 ++ rest) n fuel
        (pre.length + ((pageBytes k c es).1.length + (pageBytes k c es).2.length)) (nRead + (es.length : Int)) true
        (acc ++ [phOf k c es]) := by
  have h1 := readStruct_page k c es pre ((pageBytes k c es).2 ++ rest)
  simp only [← List.append_assoc] at h1
  rw [pageHeadersAt.go, if_pos hcond]
  simp only [h1, decPHdr_hdrT]
  have hc : (phOf k c es).compressed = (((pageBytes k c es).2.length : Nat) : Int) := rfl
  have hd : (phOf k c es).dph = some (((es.length : Nat) : Int), 0, 3, 3, some (pageStatsFields c es)) := rfl
  rw [hc, if_neg (by omega)]
  simp only [hd]
  congr 1
  omega

/-- **The loop of `PageHeadersAtOffset` on the pages of one chunk**, started anywhere in the walk. -/
theorem pageHeadersAt_go_pages (k : Codec) (c : Col) (n : Int) :
    ∀ (ess : List PageEntries) (pre post : Bytes) (fuel : Nat) (nRead : Int) (readOne : Bool) (acc : List PHdr),
      ess.length < fuel →
      n ≤ nRead + (((ess.map List.length).sum : Nat) : Int) →
      (readOne = true ∨ ess ≠ []) →
      pageHeadersAt.go (pre ++ chunkBytes k c ess ++ post) n fuel pre.length nRead readOne acc =
        .ok (acc ++ (coverPrefix n nRead readOne ess).map (phOf k c))
  | [], pre, post, fuel, nRead, readOne, acc, hf, hn, hr => by
    cases fuel with
    | zero => omega
    | succ f =>
      have hro : readOne = true := by
        cases hr with
        | inl h => exact h
        | inr h => exact absurd rfl h
      subst hro
      simp only [List.map_nil, List.sum_nil, Int.natCast_zero, Int.add_zero] at hn
      rw [pageHeadersAt.go, if_neg (by simp; omega)]
      simp [coverPrefix]
  | es :: ess, pre, post, fuel, nRead, readOne, acc, hf, hn, _ => by
    cases fuel with
    | zero => omega
    | succ f =>
      by_cases hcond : (!readOne || nRead < n) = true
      · simp only [List.map_cons, List.sum_cons, Int.natCast_add] at hn
        have hfile : pre ++ chunkBytes k c (es :: ess) ++ post =
            pre ++ (pageBytes k c es).1 ++ (pageBytes k c es).2 ++ (chunkBytes k c ess ++ post) := by
          rw [chunkBytes_cons]; simp only [List.append_assoc]
        have hfile2 : pre ++ chunkBytes k c (es :: ess) ++ post =
            (pre ++ (pageBytes k c es).1 ++ (pageBytes k c es).2) ++ chunkBytes k c ess ++ post := by
          rw [chunkBytes_cons]; simp only [List.append_assoc]
        have hl2 : (pre ++ (pageBytes k c es).1 ++ (pageBytes k c es).2).length =
            pre.length + ((pageBytes k c es).1.length + (pageBytes k c es).2.length) := by
          simp only [List.length_append]; omega
        have ih := pageHeadersAt_go_pages k c n ess (pre ++ (pageBytes k c es).1 ++ (pageBytes k c es).2) post f
          (nRead + (es.length : Int)) true (acc ++ [phOf k c es])
          (by simp only [List.length_cons] at hf; omega) (by omega) (Or.inl rfl)
        rw [← hfile2, hl2] at ih
        have hstep := pageHeadersAt_go_step k c es n pre (chunkBytes k c ess ++ post) f nRead readOne acc hcond
        rw [← hfile] at hstep
        rw [hstep, ih, coverPrefix, if_pos hcond]
        simp only [List.map_cons, List.append_assoc, List.cons_append, List.nil_append]
      · rw [pageHeadersAt.go, if_neg hcond, coverPrefix, if_neg hcond]
        simp

/-! ## which pages are covered -/

theorem sum_lengths_take_succ (es : PageEntries) (ess : List PageEntries) (j : Nat) :
    (((es :: ess).take (j + 1)).map List.length).sum = es.length + ((ess.take j).map List.length).sum := by
  simp only [List.take_succ_cons, List.map_cons, List.sum_cons]

/-- `coverPrefix` is the shortest prefix whose `num_values` reach `n` (non-empty when no header was read yet) -/
theorem coverPrefix_eq_take_aux (n : Int) :
    ∀ (ess : List PageEntries) (nRead : Int) (readOne : Bool) (j : Nat),
      (readOne = false → 1 ≤ j) → j ≤ ess.length →
      n ≤ nRead + ((((ess.take j).map List.length).sum : Nat) : Int) →
      (∀ i, (readOne = false → 1 ≤ i) → i < j → nRead + ((((ess.take i).map List.length).sum : Nat) : Int) < n) →
      coverPrefix n nRead readOne ess = ess.take j
  | [], nRead, readOne, j, _, hj, _, _ => by
    have : j = 0 := by simpa using hj
    subst this
    rfl
  | es :: ess, nRead, readOne, 0, h1, _, hn, _ => by
    have hro : readOne = true := by
      cases readOne with
      | true => rfl
      | false => exact absurd (h1 rfl) (by omega)
    subst hro
    simp only [List.take_zero, List.map_nil, List.sum_nil, Int.natCast_zero, Int.add_zero] at hn
    rw [coverPrefix, if_neg (by simp; omega)]
    rfl
  | es :: ess, nRead, readOne, j + 1, _, hj, hn, hmin => by
    have hcond : (!readOne || nRead < n) = true := by
      cases readOne with
      | false => rfl
      | true =>
        have := hmin 0 (fun h => by cases h) (by omega)
        simp only [List.take_zero, List.map_nil, List.sum_nil, Int.natCast_zero, Int.add_zero] at this
        simp [this]
    rw [sum_lengths_take_succ, Int.natCast_add] at hn
    rw [coverPrefix, if_pos hcond, List.take_succ_cons]
    congr 1
    apply coverPrefix_eq_take_aux n ess (nRead + (es.length : Int)) true j (fun h => by cases h)
      (by simp only [List.length_cons] at hj; omega) (by omega)
    intro i _ hi
    have := hmin (i + 1) (fun _ => by omega) (by omega)
    rw [sum_lengths_take_succ, Int.natCast_add] at this
    omega

/-- **`coverPrefix` from the start of a chunk is the shortest non-empty prefix of the chunk's pages
whose `num_values` reach `n`.** -/
theorem coverPrefix_eq_take (n : Int) (ess : List PageEntries) (j : Nat) (h1 : 1 ≤ j) (hj : j ≤ ess.length)
    (hn : n ≤ ((((ess.take j).map List.length).sum : Nat) : Int))
    (hmin : ∀ i, 1 ≤ i → i < j → ((((ess.take i).map List.length).sum : Nat) : Int) < n) :
    coverPrefix n 0 (decide (n > 0)) ess = ess.take j := by
  apply coverPrefix_eq_take_aux n ess 0 (decide (n > 0)) j (fun _ => h1) hj (by omega)
  intro i hi hij
  cases i with
  | zero =>
    have : ¬ decide (n > 0) = false := fun h => absurd (hi h) (by omega)
    simp only [List.take_zero, List.map_nil, List.sum_nil, Int.natCast_zero, Int.add_zero]
    simpa using this
  | succ i =>
    have := hmin (i + 1) (by omega) hij
    omega

/-- all pages are covered when `n` is their total `num_values` and no page is empty -/
theorem coverPrefix_all (n : Int) :
    ∀ (ess : List PageEntries) (nRead : Int) (readOne : Bool), (∀ es ∈ ess, es ≠ []) →
      nRead + (((ess.map List.length).sum : Nat) : Int) = n → coverPrefix n nRead readOne ess = ess
  | [], _, _, _, _ => rfl
  | es :: ess, nRead, readOne, hne, hn => by
    have hpos : 1 ≤ es.length := by
      cases es with
      | nil => exact absurd rfl (hne [] List.mem_cons_self)
      | cons a b => simp
    simp only [List.map_cons, List.sum_cons, Int.natCast_add] at hn
    have hcond : (!readOne || nRead < n) = true := by
      have : nRead < n := by omega
      simp [this]
    rw [coverPrefix, if_pos hcond,
      coverPrefix_all n ess (nRead + (es.length : Int)) true (fun e he => hne e (List.mem_cons_of_mem _ he)) (by omega)]

/-! ## `PageHeadersAtOffset` from the start of a chunk -/

/-- **`PageHeadersAtOffset(r, o, n)` at the first page of a chunk**, for any `n` up to the chunk's
`num_values`: the headers of the pages of `coverPrefix`. -/
theorem pageHeadersAt_cover (k : Codec) (c : Col) (ess : List PageEntries) (pre post : Bytes) (n : Int)
    (hne : ess ≠ []) (hn : n ≤ (((ess.map List.length).sum : Nat) : Int)) :
    pageHeadersAt (pre ++ chunkBytes k c ess ++ post) (pre.length : Nat) n =
      .ok ((coverPrefix n 0 (decide (n > 0)) ess).map (phOf k c)) := by
  unfold pageHeadersAt
  rw [if_neg (by omega)]
  show pageHeadersAt.go (pre ++ chunkBytes k c ess ++ post) n ((pre ++ chunkBytes k c ess ++ post).length + 2)
    ((pre.length : Nat) : Int).toNat 0 (decide (n > 0)) [] = _
  rw [Int.toNat_natCast,
    pageHeadersAt_go_pages k c n ess pre post _ 0 (decide (n > 0)) [] (chunk_fuel k c ess pre post) (by omega) (Or.inr hne)]
  rfl

/-! ## `PageHeaders` -/

/-- the body of the loop of `PageHeaders` -/
def phStep (file : Bytes) (acc : List PHdr) (ch : ChunkMeta) : R (List PHdr) :=
  match ch.md with
  | none => .error .panic
  | some m =>
    if m.totalCompressed = 0 then .ok acc else
    match pageHeadersAt file m.dataPageOffset m.numValues with
    | .error e => .error e
    | .ok hs => .ok (acc ++ hs)

theorem pageHeaders_eq (file : Bytes) (f : FMD) :
    pageHeaders file f = (f.rowGroups.flatMap (·.columns)).foldlM (phStep file) [] := rfl

/-- the headers of the pages of one chunk, of one row group, of all row groups: in file order -/
def chunkHdrs (k : Codec) (p : PItem) : List PHdr := p.2.map (phOf k p.1)
def rgHdrs (k : Codec) (pits : List PItem) : List PHdr := pits.flatMap (chunkHdrs k)
def fileHdrs (k : Codec) (prgs : List (Nat × List PItem)) : List PHdr := prgs.flatMap fun g => rgHdrs k g.2

/-- what `PageHeaders` needs of a chunk: it has a page, and no page is empty -/
def PagesNE (p : PItem) : Prop := p.2 ≠ [] ∧ ∀ es ∈ p.2, es ≠ []

/-- `PageHeadersAtOffset` with the offset and `num_values` the footer records for a chunk -/
theorem phStep_chunk (k : Codec) (p : PItem) (hp : PagesNE p) (pre post : Bytes) (acc : List PHdr) :
    phStep (pre ++ chunkBytes k p.1 p.2 ++ post) acc (chunkMetaOf p.1 k.id (colChunk k p.1 p.2) pre.length) =
      .ok (acc ++ chunkHdrs k p) := by
  have h := pageHeadersAt_cover k p.1 p.2 pre post (((p.2.map List.length).sum : Nat) : Int) hp.1 (by omega)
  rw [coverPrefix_all _ p.2 0 _ hp.2 (by omega)] at h
  have hpos : ¬ (((colChunk k p.1 p.2).totalCompressed : Nat) : Int) = 0 := by
    rw [colChunk_totalCompressed]
    obtain ⟨es, rest, hes⟩ := List.exists_cons_of_ne_nil hp.1
    have h1 := pageHeader_length_pos k p.1 es
    have h2 : (chunkBytes k p.1 p.2).length =
        (pageBytes k p.1 es).1.length + ((pageBytes k p.1 es).2.length + (chunkBytes k p.1 rest).length) := by
      rw [hes]; simp [chunkBytes, pageWrites]
    omega
  simp only [phStep, chunkMetaOf, colChunk_numValues, h, chunkHdrs, if_neg hpos]

/-- the chunk walk of `PageHeaders` over the chunks of one row group laid out from `pre.length` -/
theorem phStep_items (k : Codec) :
    ∀ (pits : List PItem) (pre post : Bytes) (acc : List PHdr), (∀ p ∈ pits, PagesNE p) →
      (rgMetas k pits pre.length).foldlM (phStep (pre ++ pitemsBytes k pits ++ post)) acc = .ok (acc ++ rgHdrs k pits)
  | [], pre, post, acc, _ => by simp [rgMetas, rgHdrs, pure, Except.pure]
  | p :: rest, pre, post, acc, h => by
    have hfile : pre ++ pitemsBytes k (p :: rest) ++ post = pre ++ chunkBytes k p.1 p.2 ++ (pitemsBytes k rest ++ post) := by
      rw [pitemsBytes_cons]; simp only [List.append_assoc]
    have hfile2 : pre ++ pitemsBytes k (p :: rest) ++ post = (pre ++ chunkBytes k p.1 p.2) ++ pitemsBytes k rest ++ post := by
      rw [pitemsBytes_cons]; simp only [List.append_assoc]
    have h1 := phStep_chunk k p (h p List.mem_cons_self) pre (pitemsBytes k rest ++ post) acc
    have ih := phStep_items k rest (pre ++ chunkBytes k p.1 p.2) post (acc ++ chunkHdrs k p)
      (fun q hq => h q (List.mem_cons_of_mem _ hq))
    rw [← hfile] at h1
    rw [← hfile2, List.length_append] at ih
    simp only [rgMetas, List.foldlM_cons, h1, bind, Except.bind, ih]
    simp only [rgHdrs, List.flatMap_cons, List.append_assoc]

/-- **The walk of `PageHeaders` over all row groups laid out back to back from `pre.length`.** -/
theorem phStep_prgs (k : Codec) :
    ∀ (prgs : List (Nat × List PItem)) (pre post : Bytes) (acc : List PHdr), (∀ g ∈ prgs, ∀ p ∈ g.2, PagesNE p) →
      ((fileMetas k prgs pre.length).flatMap (·.columns)).foldlM (phStep (pre ++ prgsBytes k prgs ++ post)) acc =
        .ok (acc ++ fileHdrs k prgs)
  | [], pre, post, acc, _ => by simp [fileMetas, fileHdrs, pure, Except.pure]
  | g :: rest, pre, post, acc, h => by
    have hfile : pre ++ prgsBytes k (g :: rest) ++ post = pre ++ pitemsBytes k g.2 ++ (prgsBytes k rest ++ post) := by
      rw [prgsBytes_cons]; simp only [List.append_assoc]
    have hfile2 : pre ++ prgsBytes k (g :: rest) ++ post = (pre ++ pitemsBytes k g.2) ++ prgsBytes k rest ++ post := by
      rw [prgsBytes_cons]; simp only [List.append_assoc]
    have h1 := phStep_items k g.2 pre (prgsBytes k rest ++ post) acc (h g List.mem_cons_self)
    have ih := phStep_prgs k rest (pre ++ pitemsBytes k g.2) post (acc ++ rgHdrs k g.2)
      (fun q hq => h q (List.mem_cons_of_mem _ hq))
    rw [← hfile] at h1
    rw [← hfile2, List.length_append] at ih
    simp only [fileMetas, List.flatMap_cons, List.foldlM_append, rgMetaOf, h1, bind, Except.bind, ih]
    simp only [fileHdrs, List.flatMap_cons, List.append_assoc]

/-! ## the file of a history -/

/-- the layout of the file of a `Close`d history, in the terms of the lemmas above -/
theorem runWriter_introspect_layout (k : Codec) (cols : List Col) (max : Nat) (body : List Op)
    (hmax : 1 ≤ max) (hcols : cols ≠ []) (hbody : ∀ op ∈ body, op.isClose = false)
    (se : List SElem) (hschema : schemaElems cols = some se) :
    ∃ rgs : List TVal,
      fileBytes (runWriter cols max k (body ++ [Op.close])) =
        par1 ++ prgsBytes k (histPrgs cols max body) ++
          ((footerOf se ((batches body).map List.length).sum rgs).enc ++
            le32 (footerOf se ((batches body).map List.length).sum rgs).enc.length ++ par1) ∧
      (∀ t ∈ rgs, t.ecode = tStruct ∧ t.WF ∧ t.dep ≤ 5) ∧
      rgs.mapM decRG = some (fileMetas k (histPrgs cols max body) 4) := by
  have ot := PQ.C06.offsets_truthful hmax cols hcols k body hbody se hschema
  simp only at ot
  obtain ⟨_, _, hfile, _, _, _⟩ := ot
  have hdata : ((batches body).map (batchItems cols max k)).flatMap itemsBytes = prgsBytes k (histPrgs cols max body) := by
    unfold prgsBytes histPrgs pitemsBytes
    rw [List.flatMap_map, List.flatMap_map]
    simp only [batchItems_eq]
  have hrgs : rgTs k.id ((batches body).map fun b => (b.length, batchItems cols max k b)) 4 =
      rgTs k.id ((histPrgs cols max body).map fun g => (g.1, g.2.map (mkItem k))) 4 := by
    unfold histPrgs
    rw [List.map_map]
    simp only [batchItems_eq]
    rfl
  rw [hdata, hrgs] at hfile
  exact ⟨_, hfile, rgTs_wf _ _ _, mapM_decRG_rgTs k _ 4⟩

/-- every chunk of a written file has a page, and no written page is empty -/
theorem histPrgs_pagesNE (dc : Decomp) (k : Codec) (cols : List Col) {max : Nat} (hmax : 1 ≤ max) (body : List Op)
    (hok : ∀ b ∈ batches body, BatchOK dc k cols max b) :
    ∀ g ∈ histPrgs cols max body, ∀ p ∈ g.2, PagesNE p := by
  intro g hg p hp
  obtain ⟨b, hb, rfl⟩ := List.mem_map.mp hg
  have hne : b ≠ [] := batchesAux_ne_nil body [] b hb
  refine ⟨?_, fun es hes => ((batch_rd dc k cols hmax b hne (hok b hb)).2.1 p hp es hes).ne⟩
  simp only at hp
  obtain ⟨x, hx, rfl⟩ := List.mem_map.mp hp
  obtain ⟨c, i⟩ := x
  simp only
  rw [colEntries_chain hmax cols.length i (List.mem_zipIdx' hx).1 b hne (hok b hb).width]
  intro h
  have hc : chunksOf max b = [] := by simpa using h
  have := chunksOf_flatten hmax b
  rw [hc] at this
  exact hne this.symm

/-! ## every chunk the footer lists sits where the footer says -/

theorem rgMetas_located (k : Codec) :
    ∀ (pits : List PItem) (pre post : Bytes) (ch : ChunkMeta), ch ∈ rgMetas k pits pre.length →
      ∃ p ∈ pits, ∃ pre' post' : Bytes, pre ++ pitemsBytes k pits ++ post = pre' ++ chunkBytes k p.1 p.2 ++ post' ∧
        ch = chunkMetaOf p.1 k.id (colChunk k p.1 p.2) pre'.length
  | [], _, _, ch, h => by simp [rgMetas] at h
  | p :: rest, pre, post, ch, h => by
    simp only [rgMetas, List.mem_cons] at h
    cases h with
    | inl h =>
      refine ⟨p, List.mem_cons_self, pre, pitemsBytes k rest ++ post, ?_, h⟩
      rw [pitemsBytes_cons]; simp only [List.append_assoc]
    | inr h =>
      rw [← List.length_append] at h
      obtain ⟨q, hq, pre', post', hf, hc⟩ := rgMetas_located k rest (pre ++ chunkBytes k p.1 p.2) post ch h
      refine ⟨q, List.mem_cons_of_mem _ hq, pre', post', ?_, hc⟩
      rw [← hf, pitemsBytes_cons]; simp only [List.append_assoc]

theorem fileMetas_located (k : Codec) :
    ∀ (prgs : List (Nat × List PItem)) (pre post : Bytes) (ch : ChunkMeta),
      ch ∈ (fileMetas k prgs pre.length).flatMap (·.columns) →
      ∃ g ∈ prgs, ∃ p ∈ g.2, ∃ pre' post' : Bytes,
        pre ++ prgsBytes k prgs ++ post = pre' ++ chunkBytes k p.1 p.2 ++ post' ∧
        ch = chunkMetaOf p.1 k.id (colChunk k p.1 p.2) pre'.length
  | [], _, _, ch, h => by simp [fileMetas] at h
  | g :: rest, pre, post, ch, h => by
    simp only [fileMetas, List.flatMap_cons, List.mem_append, rgMetaOf] at h
    cases h with
    | inl h =>
      obtain ⟨p, hp, pre', post', hf, hc⟩ := rgMetas_located k g.2 pre (prgsBytes k rest ++ post) ch h
      refine ⟨g, List.mem_cons_self, p, hp, pre', post', ?_, hc⟩
      rw [← hf, prgsBytes_cons]; simp only [List.append_assoc]
    | inr h =>
      rw [← List.length_append] at h
      obtain ⟨g', hg', p, hp, pre', post', hf, hc⟩ := fileMetas_located k rest (pre ++ pitemsBytes k g.2) post ch h
      refine ⟨g', List.mem_cons_of_mem _ hg', p, hp, pre', post', ?_, hc⟩
      rw [← hf, prgsBytes_cons]; simp only [List.append_assoc]

end PQ
