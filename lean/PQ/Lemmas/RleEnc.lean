import PQ.Model.Rle
import PQ.Lemmas.BitpackNat
/-!
# The RLE encoder invariant

`EInv e a xs`: after writing `xs`, the encoder state `e` abstracts to closed runs `a.runs`, an open
bit-packed run with groups `a.gs`, and the pending values.  The serialisation used here
(`Run.serEnc`) is the encoder's own: Go's `leb128`, `valBytes`, the table `pack`, a one-byte
bit-packed header.  `serEnc_eq_ser` at the end identifies it with the specification's `Run.ser`.
-/
namespace PQ
open PQ.Gen

/-- the encoder's own serialisation of a run -/
def Run.serEnc (w : Nat) : Run → Bytes
  | .rle c v => leb128 (c * 2) ++ valBytes w v
  | .packed gs => [gs.length * 2 + 1] ++ gs.flatMap (pack w)

def serRunsEnc (w : Nat) (rs : List Run) : Bytes := rs.flatMap (Run.serEnc w)

structure EAbs where
  runs : List Run
  gs : List (List Nat)

/-- structural part of the invariant: how `out` is laid out -/
structure EShape (e : Enc) (a : EAbs) : Prop where
  closed : e.headerPointer = none → e.out = serRunsEnc e.w a.runs ∧ a.gs = [] ∧ e.groupCount = 0
  opened : ∀ p, e.headerPointer = some p →
      e.out = serRunsEnc e.w a.runs ++ 0 :: a.gs.flatMap (pack e.w) ∧ p = (serRunsEnc e.w a.runs).length
      ∧ a.gs.length = e.groupCount ∧ 1 ≤ e.groupCount ∧ e.groupCount ≤ 63

theorem set_mid (l r : List Nat) (x y : Nat) : (l ++ x :: r).set l.length y = l ++ y :: r := by
  induction l with
  | nil => rfl
  | cons a l ih => simp [ih]

theorem serRuns_append (w : Nat) (a b : List Run) : serRunsEnc w (a ++ b) = serRunsEnc w a ++ serRunsEnc w b := by
  simp [serRunsEnc]

theorem runsVals_append (a b : List Run) : runsVals (a ++ b) = runsVals a ++ runsVals b := by
  simp [runsVals]

/-- closing the open run -/
def EAbs.close (a : EAbs) (e : Enc) : EAbs :=
  match e.headerPointer with
  | none => a
  | some _ => { runs := a.runs ++ [.packed a.gs], gs := [] }

theorem endPrev_none (e : Enc) (h : e.headerPointer = none) : e.endPrev = e := by
  simp [Enc.endPrev, h]

theorem endPrev_some (e : Enc) (p : Nat) (h : e.headerPointer = some p) :
    e.endPrev = { e with out := e.out.set p ((e.groupCount * 2 + 1) % 256), headerPointer := none, groupCount := 0 } := by
  simp [Enc.endPrev, h]

theorem close_none (a : EAbs) (e : Enc) (h : e.headerPointer = none) : a.close e = a := by
  simp [EAbs.close, h]

theorem close_some (a : EAbs) (e : Enc) (p : Nat) (h : e.headerPointer = some p) :
    a.close e = { runs := a.runs ++ [.packed a.gs], gs := [] } := by
  simp [EAbs.close, h]

theorem endPrev_fields (e : Enc) : e.endPrev.headerPointer = none ∧ e.endPrev.w = e.w
    ∧ e.endPrev.prev = e.prev ∧ e.endPrev.pending = e.pending ∧ e.endPrev.repeatCount = e.repeatCount
    ∧ e.endPrev.groupCount = 0 ∨ e.headerPointer = none := by
  cases hp : e.headerPointer with
  | none => exact Or.inr rfl
  | some p => rw [endPrev_some e p hp]; exact Or.inl ⟨rfl, rfl, rfl, rfl, rfl, rfl⟩

theorem endPrev_shape (e : Enc) (a : EAbs) (h : EShape e a) :
    EShape e.endPrev (a.close e) ∧ e.endPrev.headerPointer = none ∧ e.endPrev.w = e.w
    ∧ e.endPrev.prev = e.prev ∧ e.endPrev.pending = e.pending ∧ e.endPrev.repeatCount = e.repeatCount
    ∧ e.endPrev.groupCount = 0
    ∧ runsVals (a.close e).runs ++ (a.close e).gs.flatten = runsVals a.runs ++ a.gs.flatten := by
  cases hp : e.headerPointer with
  | none =>
    have hc := h.closed hp
    rw [endPrev_none e hp, close_none a e hp]
    exact ⟨h, hp, rfl, rfl, rfl, rfl, hc.2.2, rfl⟩
  | some p =>
    obtain ⟨ho, hpp, hl, h1, h63⟩ := h.opened p hp
    rw [endPrev_some e p hp, close_some a e p hp]
    refine ⟨⟨?_, ?_⟩, rfl, rfl, rfl, rfl, rfl, rfl, ?_⟩
    · intro _
      refine ⟨?_, rfl, rfl⟩
      have h2 : (e.groupCount * 2 + 1) % 256 = a.gs.length * 2 + 1 := by omega
      show e.out.set p _ = _
      rw [ho, hpp, set_mid, serRuns_append, h2]
      simp [serRunsEnc, Run.serEnc]
    · intro p' hp'; simp at hp'
    · simp [runsVals, Run.vals]

/-- second half of flushGroup: open a run if needed and append the packed group -/
def Enc.appendGroup (e : Enc) (g : List Nat) : Enc :=
  let e := match e.headerPointer with
    | none => { e with out := e.out ++ [0], headerPointer := some e.out.length }
    | some _ => e
  { e with out := e.out ++ pack e.w g, pending := [], repeatCount := 0, groupCount := e.groupCount + 1 }

theorem flushGroup_eq (e : Enc) (g : List Nat) :
    e.flushGroup g = (if e.groupCount ≥ 63 then e.endPrev else e).appendGroup g := rfl

theorem appendGroup_shape (e : Enc) (a : EAbs) (h : EShape e a) (hlt : e.groupCount < 63) (g : List Nat) :
    EShape (e.appendGroup g) { runs := a.runs, gs := a.gs ++ [g] }
    ∧ (e.appendGroup g).w = e.w ∧ (e.appendGroup g).prev = e.prev
    ∧ (e.appendGroup g).pending = [] ∧ (e.appendGroup g).repeatCount = 0 := by
  cases hp : e.headerPointer with
  | none =>
    obtain ⟨ho, hg, hc⟩ := h.closed hp
    have : e.appendGroup g = { e with out := e.out ++ [0] ++ pack e.w g, headerPointer := some e.out.length, pending := [], repeatCount := 0, groupCount := e.groupCount + 1 } := by
      simp [Enc.appendGroup, hp]
    rw [this]
    refine ⟨⟨?_, ?_⟩, rfl, rfl, rfl, rfl⟩
    · intro hn; simp at hn
    · intro p hp'
      simp only [Option.some.injEq] at hp'
      subst hp'
      refine ⟨?_, ?_, ?_, ?_, ?_⟩
      · show e.out ++ [0] ++ pack e.w g = _
        simp [ho, hg]
      · show e.out.length = _
        rw [ho]
      · show (a.gs ++ [g]).length = e.groupCount + 1
        simp [hg, hc]
      · show 1 ≤ e.groupCount + 1
        omega
      · show e.groupCount + 1 ≤ 63
        omega
  | some p =>
    obtain ⟨ho, hpp, hl, h1, h63⟩ := h.opened p hp
    have : e.appendGroup g = { e with out := e.out ++ pack e.w g, pending := [], repeatCount := 0, groupCount := e.groupCount + 1 } := by
      simp [Enc.appendGroup, hp]
    rw [this]
    refine ⟨⟨?_, ?_⟩, rfl, rfl, rfl, rfl⟩
    · intro hn
      have : e.headerPointer = none := hn
      simp [hp] at this
    · intro p' hp'
      have hp'' : e.headerPointer = some p' := hp'
      rw [hp] at hp''
      simp only [Option.some.injEq] at hp''
      subst hp''
      refine ⟨?_, hpp, ?_, ?_, ?_⟩
      · show e.out ++ pack e.w g = _
        simp [ho]
      · show (a.gs ++ [g]).length = e.groupCount + 1
        simp [hl]
      · show 1 ≤ e.groupCount + 1
        omega
      · show e.groupCount + 1 ≤ 63
        omega

theorem flushGroup_shape (e : Enc) (a : EAbs) (h : EShape e a) (g : List Nat) :
    ∃ a', EShape (e.flushGroup g) a'
      ∧ runsVals a'.runs ++ a'.gs.flatten = runsVals a.runs ++ a.gs.flatten ++ g
      ∧ (e.flushGroup g).w = e.w ∧ (e.flushGroup g).prev = e.prev
      ∧ (e.flushGroup g).pending = [] ∧ (e.flushGroup g).repeatCount = 0 := by
  rw [flushGroup_eq]
  by_cases hge : e.groupCount ≥ 63
  · simp only [hge, if_true]
    obtain ⟨hs, _, hw, hpv, _, _, hgc, hv⟩ := endPrev_shape e a h
    obtain ⟨hs', h1, h2, h3, h4⟩ := appendGroup_shape e.endPrev (a.close e) hs (by omega) g
    refine ⟨_, hs', ?_, by rw [h1, hw], by rw [h2, hpv], h3, h4⟩
    simp only [List.flatten_append, List.flatten_cons, List.flatten_nil, List.append_nil]
    rw [← List.append_assoc, hv]
  · simp only [hge, if_false]
    obtain ⟨hs', h1, h2, h3, h4⟩ := appendGroup_shape e a h (by omega) g
    refine ⟨_, hs', ?_, h1, h2, h3, h4⟩
    simp [List.append_assoc]

theorem writeRLERun_shape (e : Enc) (a : EAbs) (h : EShape e a) :
    EShape e.writeRLERun { runs := (a.close e).runs ++ [.rle e.repeatCount e.prev], gs := [] }
    ∧ e.writeRLERun.w = e.w ∧ e.writeRLERun.prev = e.prev
    ∧ e.writeRLERun.pending = [] ∧ e.writeRLERun.repeatCount = 0
    ∧ runsVals ((a.close e).runs ++ [.rle e.repeatCount e.prev])
        = runsVals a.runs ++ a.gs.flatten ++ List.replicate e.repeatCount e.prev := by
  obtain ⟨hs, hn, hw, hpv, _, hrc, hgc, hv⟩ := endPrev_shape e a h
  obtain ⟨ho, hg, _⟩ := hs.closed hn
  have : e.writeRLERun = { e.endPrev with out := e.endPrev.out ++ leb128 (e.endPrev.repeatCount * 2) ++ valBytes e.endPrev.w e.endPrev.prev, repeatCount := 0, pending := [] } := rfl
  rw [this]
  refine ⟨⟨?_, ?_⟩, hw, hpv, rfl, rfl, ?_⟩
  · intro _
    refine ⟨?_, rfl, hgc⟩
    show e.endPrev.out ++ leb128 (e.endPrev.repeatCount * 2) ++ valBytes e.endPrev.w e.endPrev.prev = _
    rw [ho, serRuns_append, hrc, hpv]
    simp [serRunsEnc, Run.serEnc, hw]
  · intro p hp
    have : e.endPrev.headerPointer = some p := hp
    rw [hn] at this; simp at this
  · rw [runsVals_append]
    rw [hg] at hv
    simp only [List.flatten_nil, List.append_nil] at hv
    rw [hv]
    simp [runsVals, Run.vals]

def Run.WFs : Run → Prop
  | .rle c _ => 8 ≤ c
  | .packed gs => 1 ≤ gs.length ∧ gs.length ≤ 63 ∧ ∀ g ∈ gs, g.length = 8

structure EAWF (a : EAbs) : Prop where
  runs : ∀ r ∈ a.runs, r.WFs
  gs : ∀ g ∈ a.gs, g.length = 8

theorem close_awf (e : Enc) (a : EAbs) (h : EShape e a) (hw : EAWF a) : EAWF (a.close e) := by
  cases hp : e.headerPointer with
  | none => rw [close_none a e hp]; exact ⟨hw.runs, hw.gs⟩
  | some p =>
    obtain ⟨_, _, hl, h1, h63⟩ := h.opened p hp
    rw [close_some a e p hp]
    refine ⟨?_, by simp⟩
    intro r hr
    simp only [List.mem_append, List.mem_singleton] at hr
    rcases hr with hr | hr
    · exact hw.runs r hr
    · subst hr; exact ⟨by omega, by omega, hw.gs⟩

theorem shape_congr (e e' : Enc) (a : EAbs) (h : EShape e a) (h1 : e'.out = e.out) (h2 : e'.w = e.w)
    (h3 : e'.headerPointer = e.headerPointer) (h4 : e'.groupCount = e.groupCount) : EShape e' a := by
  constructor
  · intro hn; rw [h1, h2, h4]; exact h.closed (h3 ▸ hn)
  · intro p hp; rw [h1, h2, h4]; exact h.opened p (h3 ▸ hp)

theorem flushGroup_inv (e : Enc) (a : EAbs) (h : EShape e a) (hw : EAWF a) (g : List Nat) (hg : g.length = 8) :
    ∃ a', EShape (e.flushGroup g) a' ∧ EAWF a'
      ∧ runsVals a'.runs ++ a'.gs.flatten = runsVals a.runs ++ a.gs.flatten ++ g
      ∧ (e.flushGroup g).w = e.w ∧ (e.flushGroup g).prev = e.prev
      ∧ (e.flushGroup g).pending = [] ∧ (e.flushGroup g).repeatCount = 0 := by
  rw [flushGroup_eq]
  by_cases hge : e.groupCount ≥ 63
  · rw [if_pos hge]
    obtain ⟨hs, _, hw1, hpv, _, _, hgc, hv⟩ := endPrev_shape e a h
    have hcw := close_awf e a h hw
    obtain ⟨hs', h1, h2, h3, h4⟩ := appendGroup_shape e.endPrev (a.close e) hs (by omega) g
    refine ⟨_, hs', ?_, ?_, by rw [h1, hw1], by rw [h2, hpv], h3, h4⟩
    · refine ⟨hcw.runs, ?_⟩
      intro g' hg'
      simp only [List.mem_append, List.mem_singleton] at hg'
      rcases hg' with h' | h'
      · exact hcw.gs g' h'
      · rw [h']; exact hg
    · simp only [List.flatten_append, List.flatten_cons, List.flatten_nil, List.append_nil]
      rw [← List.append_assoc, hv]
  · rw [if_neg hge]
    obtain ⟨hs', h1, h2, h3, h4⟩ := appendGroup_shape e a h (by omega) g
    refine ⟨_, hs', ?_, ?_, h1, h2, h3, h4⟩
    · refine ⟨hw.runs, ?_⟩
      intro g' hg'
      simp only [List.mem_append, List.mem_singleton] at hg'
      rcases hg' with h' | h'
      · exact hw.gs g' h'
      · rw [h']; exact hg
    · simp [List.append_assoc]

structure EInv (e : Enc) (a : EAbs) (xs : List Nat) : Prop where
  shape : EShape e a
  awf : EAWF a
  lt8 : e.repeatCount < 8 → xs = runsVals a.runs ++ a.gs.flatten ++ e.pending ∧ e.pending.length < 8
        ∧ e.repeatCount ≤ e.pending.length
        ∧ ∀ x ∈ e.pending.drop (e.pending.length - e.repeatCount), x = e.prev
  ge8 : 8 ≤ e.repeatCount → xs = runsVals a.runs ++ a.gs.flatten ++ List.replicate e.repeatCount e.prev
        ∧ e.pending = List.replicate 7 e.prev

theorem push_eq (e : Enc) (v : Nat) : e.push v =
    if (e.pending ++ [v]).length = 8 then ({ e with pending := e.pending ++ [v] }).flushGroup (e.pending ++ [v])
    else { e with pending := e.pending ++ [v] } := rfl

theorem push_inv (e : Enc) (a : EAbs) (ys : List Nat) (v : Nat)
    (hs : EShape e a) (hw : EAWF a)
    (hxs : ys = runsVals a.runs ++ a.gs.flatten ++ e.pending) (hlen : e.pending.length < 8)
    (hv : v = e.prev) (hrc1 : 1 ≤ e.repeatCount) (hrc8 : e.repeatCount < 8)
    (hrc : e.repeatCount ≤ e.pending.length + 1)
    (hsuf : ∀ x ∈ e.pending.drop (e.pending.length + 1 - e.repeatCount), x = e.prev) :
    ∃ a', EInv (e.push v) a' (ys ++ [v]) ∧ (e.push v).w = e.w := by
  rw [push_eq]
  by_cases h8 : (e.pending ++ [v]).length = 8
  · rw [if_pos h8]
    have hs' : EShape { e with pending := e.pending ++ [v] } a := shape_congr e _ a hs rfl rfl rfl rfl
    obtain ⟨a', hsh, hawf, hvals, hw', hp', hpe, hr0⟩ := flushGroup_inv _ a hs' hw (e.pending ++ [v]) h8
    refine ⟨a', ⟨hsh, hawf, ?_, ?_⟩, hw'⟩
    · intro _
      rw [hpe, hr0]
      refine ⟨?_, by simp, by simp, by simp⟩
      rw [hvals, hxs]; simp
    · intro h; rw [hr0] at h; omega
  · rw [if_neg h8]
    refine ⟨a, ⟨shape_congr e _ a hs rfl rfl rfl rfl, hw, ?_, ?_⟩, rfl⟩
    · intro _
      refine ⟨?_, ?_, ?_, ?_⟩
      · show ys ++ [v] = _ ++ (e.pending ++ [v]); rw [hxs]; simp
      · show (e.pending ++ [v]).length < 8
        simp only [List.length_append, List.length_singleton] at h8 ⊢; omega
      · show e.repeatCount ≤ (e.pending ++ [v]).length
        simp only [List.length_append, List.length_singleton]; omega
      · show ∀ x ∈ (e.pending ++ [v]).drop ((e.pending ++ [v]).length - e.repeatCount), x = e.prev
        intro x hx
        simp only [List.length_append, List.length_singleton] at hx
        rw [List.drop_append_of_le_length (by omega)] at hx
        simp only [List.mem_append, List.mem_singleton] at hx
        rcases hx with hx | hx
        · exact hsuf x hx
        · rw [hx, hv]
    · intro h
      have : 8 ≤ e.repeatCount := h
      omega

theorem write_eq (e : Enc) (v : Nat) : e.write v =
    if v = e.prev then
      if e.repeatCount + 1 ≥ 8 then { e with repeatCount := e.repeatCount + 1 }
      else ({ e with repeatCount := e.repeatCount + 1 }).push v
    else
      ({ (if e.repeatCount ≥ 8 then e.writeRLERun else e) with repeatCount := 1, prev := v }).push v := by
  rfl

theorem replicate_of_all (l : List Nat) (p : Nat) (h : ∀ x ∈ l, x = p) : l = List.replicate l.length p := by
  induction l with
  | nil => rfl
  | cons a l ih =>
    simp only [List.length_cons, List.replicate_succ]
    rw [h a (by simp), ← ih (fun x hx => h x (by simp [hx]))]

theorem write_inv (e : Enc) (a : EAbs) (xs : List Nat) (v : Nat) (h : EInv e a xs) :
    ∃ a', EInv (e.write v) a' (xs ++ [v]) ∧ (e.write v).w = e.w := by
  rw [write_eq]
  by_cases hv : v = e.prev
  · rw [if_pos hv]
    by_cases h8 : e.repeatCount + 1 ≥ 8
    · rw [if_pos h8]
      refine ⟨a, ⟨shape_congr e _ a h.shape rfl rfl rfl rfl, h.awf, ?_, ?_⟩, rfl⟩
      · intro hlt
        have : e.repeatCount + 1 < 8 := hlt
        omega
      · intro _
        show xs ++ [v] = runsVals a.runs ++ a.gs.flatten ++ List.replicate (e.repeatCount + 1) e.prev
            ∧ e.pending = List.replicate 7 e.prev
        by_cases h7 : e.repeatCount < 8
        · obtain ⟨hx, hl, hr, hsuf⟩ := h.lt8 h7
          have hlen : e.pending.length = 7 := by omega
          have hrc : e.repeatCount = 7 := by omega
          have hall : ∀ x ∈ e.pending, x = e.prev := by
            intro x hx'
            apply hsuf
            rw [hlen, hrc]; simpa using hx'
          have hp := replicate_of_all e.pending e.prev hall
          rw [hlen] at hp
          refine ⟨?_, hp⟩
          rw [hx, hp, hrc, hv]
          simp [List.replicate_succ']
        · obtain ⟨hx, hp⟩ := h.ge8 (by omega)
          refine ⟨?_, hp⟩
          rw [hx, hv]
          simp [List.replicate_succ', List.append_assoc]
    · rw [if_neg h8]
      have h7 : e.repeatCount < 8 := by omega
      obtain ⟨hx, hl, hr, hsuf⟩ := h.lt8 h7
      exact push_inv { e with repeatCount := e.repeatCount + 1 } a xs v
        (shape_congr e _ a h.shape rfl rfl rfl rfl) h.awf hx hl hv
        (by show 1 ≤ e.repeatCount + 1; omega) (by show e.repeatCount + 1 < 8; omega)
        (by show e.repeatCount + 1 ≤ e.pending.length + 1; omega)
        (by
          show ∀ x ∈ e.pending.drop (e.pending.length + 1 - (e.repeatCount + 1)), x = e.prev
          have : e.pending.length + 1 - (e.repeatCount + 1) = e.pending.length - e.repeatCount := by omega
          rw [this]; exact hsuf)
  · rw [if_neg hv]
    by_cases h8 : e.repeatCount ≥ 8
    · rw [if_pos h8]
      obtain ⟨hx, hp⟩ := h.ge8 h8
      obtain ⟨hs, hw, hpv, hpe, hrc, hvals⟩ := writeRLERun_shape e a h.shape
      have hcw := close_awf e a h.shape h.awf
      have hawf : EAWF { runs := (a.close e).runs ++ [Run.rle e.repeatCount e.prev], gs := [] } := by
        refine ⟨?_, by simp⟩
        intro r hr
        simp only [List.mem_append, List.mem_singleton] at hr
        rcases hr with hr | hr
        · exact hcw.runs r hr
        · subst hr; exact h8
      obtain ⟨a', hinv, hw'⟩ := push_inv { e.writeRLERun with repeatCount := 1, prev := v } _ xs v
        (shape_congr e.writeRLERun _ _ hs rfl rfl rfl rfl) hawf
        (by show xs = _ ++ e.writeRLERun.pending; rw [hpe, hvals, hx]; simp)
        (by show e.writeRLERun.pending.length < 8; rw [hpe]; simp)
        rfl (by show 1 ≤ 1; omega) (by show 1 < 8; omega)
        (by show 1 ≤ e.writeRLERun.pending.length + 1; omega)
        (by show ∀ x ∈ e.writeRLERun.pending.drop _, x = v; rw [hpe]; simp)
      exact ⟨a', hinv, by rw [hw']; exact hw⟩
    · rw [if_neg h8]
      have h7 : e.repeatCount < 8 := by omega
      obtain ⟨hx, hl, hr, hsuf⟩ := h.lt8 h7
      exact push_inv { e with repeatCount := 1, prev := v } a xs v
        (shape_congr e _ a h.shape rfl rfl rfl rfl) h.awf hx hl rfl
        (by show 1 ≤ 1; omega) (by show 1 < 8; omega)
        (by show 1 ≤ e.pending.length + 1; omega)
        (by
          show ∀ x ∈ e.pending.drop (e.pending.length + 1 - 1), x = v
          have : e.pending.length + 1 - 1 = e.pending.length := by omega
          rw [this]; simp)

theorem init_inv (w : Nat) : EInv { w := w } { runs := [], gs := [] } [] := by
  refine ⟨⟨?_, ?_⟩, ⟨by simp, by simp⟩, ?_, ?_⟩
  · intro _; exact ⟨rfl, rfl, rfl⟩
  · intro p hp; simp at hp
  · intro _; simp [runsVals]
  · intro h; simp at h

theorem foldl_inv (w : Nat) (xs : List Nat) :
    ∃ a, EInv (xs.foldl Enc.write { w := w }) a xs ∧ (xs.foldl Enc.write { w := w }).w = w := by
  suffices ∀ (ys : List Nat) (e : Enc) (a : EAbs) (pre : List Nat), EInv e a pre → e.w = w →
      ∃ a', EInv (ys.foldl Enc.write e) a' (pre ++ ys) ∧ (ys.foldl Enc.write e).w = w by
    simpa using this xs { w := w } _ [] (init_inv w) rfl
  intro ys
  induction ys with
  | nil => intro e a pre h hw; exact ⟨a, by simpa using h, hw⟩
  | cons y ys ih =>
    intro e a pre h hw
    obtain ⟨a', h', hw'⟩ := write_inv e a pre y h
    obtain ⟨a'', h'', hw''⟩ := ih (e.write y) a' (pre ++ [y]) h' (by rw [hw', hw])
    exact ⟨a'', by simpa using h'', hw''⟩

/-- the encoder state after finalisation (what `Bytes()` does before adding the length prefix) -/
def Enc.finish (e : Enc) : Enc :=
  if e.repeatCount ≥ 8 then e.writeRLERun
  else if e.pending.length > 0 then
    (e.flushGroup (e.pending ++ List.replicate (8 - e.pending.length) 0)).endPrev
  else e.endPrev

theorem bytes_eq (e : Enc) : e.bytes = le32 e.finish.out.length ++ e.finish.out := rfl

theorem finish_spec (e : Enc) (a : EAbs) (xs : List Nat) (h : EInv e a xs) :
    ∃ runs pad, e.finish.out = serRunsEnc e.w runs ∧ (∀ r ∈ runs, r.WFs)
      ∧ runsVals runs = xs ++ List.replicate pad 0 ∧ pad < 8 := by
  unfold Enc.finish
  by_cases h8 : e.repeatCount ≥ 8
  · rw [if_pos h8]
    obtain ⟨hx, _⟩ := h.ge8 h8
    obtain ⟨hs, hw, _, _, _, hvals⟩ := writeRLERun_shape e a h.shape
    have hcw := close_awf e a h.shape h.awf
    have hnone : e.writeRLERun.headerPointer = none := by
      obtain ⟨_, hn, _⟩ := endPrev_shape e a h.shape
      exact hn
    obtain ⟨ho, _, _⟩ := hs.closed hnone
    refine ⟨_, 0, by rw [ho, hw], ?_, by rw [hvals, hx]; simp, by omega⟩
    intro r hr
    simp only [List.mem_append, List.mem_singleton] at hr
    rcases hr with hr | hr
    · exact hcw.runs r hr
    · subst hr; exact h8
  · rw [if_neg h8]
    obtain ⟨hx, hl, _, _⟩ := h.lt8 (by omega)
    by_cases hp : e.pending.length > 0
    · rw [if_pos hp]
      obtain ⟨a', hsh, hawf, hvals, hw', _, _, _⟩ := flushGroup_inv e a h.shape h.awf
        (e.pending ++ List.replicate (8 - e.pending.length) 0) (by simp; omega)
      obtain ⟨hs2, hn2, hw2, _, _, _, _, hv2⟩ := endPrev_shape _ a' hsh
      have hcw := close_awf _ a' hsh hawf
      obtain ⟨ho, hg, _⟩ := hs2.closed hn2
      refine ⟨_, 8 - e.pending.length, by rw [ho, hw2, hw'], hcw.runs, ?_, by omega⟩
      rw [hg] at hv2
      simp only [List.flatten_nil, List.append_nil] at hv2
      rw [hv2, hvals, hx]; simp [List.append_assoc]
    · rw [if_neg hp]
      obtain ⟨hs2, hn2, hw2, _, _, _, _, hv2⟩ := endPrev_shape e a h.shape
      have hcw := close_awf e a h.shape h.awf
      obtain ⟨ho, hg, _⟩ := hs2.closed hn2
      have hpe : e.pending = [] := by
        cases hpp : e.pending with
        | nil => rfl
        | cons x l => rw [hpp] at hp; simp at hp
      refine ⟨_, 0, by rw [ho, hw2], hcw.runs, ?_, by omega⟩
      rw [hg] at hv2
      simp only [List.flatten_nil, List.append_nil] at hv2
      rw [hv2, hx, hpe]; simp

/-- C07 (encoder half), for every width and every level sequence -/
theorem encode_struct (w : Nat) (xs : List Nat) :
    ∃ runs pad, encode w xs = le32 (serRunsEnc w runs).length ++ serRunsEnc w runs
      ∧ (∀ r ∈ runs, r.WFs) ∧ runsVals runs = xs ++ List.replicate pad 0 ∧ pad < 8 := by
  obtain ⟨a, hinv, hw⟩ := foldl_inv w xs
  obtain ⟨runs, pad, ho, hwf, hv, hp⟩ := finish_spec _ a xs hinv
  refine ⟨runs, pad, ?_, hwf, hv, hp⟩
  unfold encode
  rw [bytes_eq, ho, hw]


/-- wherever the encoder back-patches a header (`endPrev`: `out.set p _`), `p` is inside `out`, so
`List.set` is Go's `writeAt([]byte{h}, p)` (see `WriteBuffer.writeAt_one_abs`) -/
theorem shape_header_lt (e : Enc) (a : EAbs) (h : EShape e a) (p : Nat) (hp : e.headerPointer = some p) :
    p < e.out.length := by
  obtain ⟨ho, hpp, _⟩ := h.opened p hp
  rw [ho, hpp]
  simp

theorem reachable_header_lt (w : Nat) (xs : List Nat) (p : Nat)
    (hp : (xs.foldl Enc.write { w := w }).headerPointer = some p) :
    p < (xs.foldl Enc.write { w := w }).out.length := by
  obtain ⟨a, hinv, _⟩ := foldl_inv w xs
  exact shape_header_lt _ a hinv.shape p hp

/-! ## the encoder's serialisation is the specification's -/

/-- Go's `leb128` (32-bit loop test) is ULEB128 below 2^32 -/
theorem leb128_eq_uleb (n : Nat) (hn : n < 2 ^ 32) : leb128 n = uleb n := by
  induction n using Nat.strongRecOn with
  | _ n ih =>
    rw [leb128, uleb]
    have hmod : n % 2 ^ 32 = n := Nat.mod_eq_of_lt hn
    by_cases h : n / 128 ≠ 0
    · have h' : (n % 2 ^ 32) / 128 ≠ 0 := by rw [hmod]; exact h
      rw [dif_pos h, dif_pos h', ih (n / 128) (by omega) (by omega)]
    · have h' : ¬ ((n % 2 ^ 32) / 128 ≠ 0) := by rw [hmod]; exact h
      rw [dif_neg h, dif_neg h']

theorem valBytes_one (w v : Nat) (h1 : 1 ≤ w) (h8 : w ≤ 8) : valBytes w v = leBytes ((w + 7) / 8) v := by
  unfold valBytes
  have : (w + 7) / 8 = 1 := by omega
  rw [this]
  rfl

/-- value and header bounds under which the two serialisations coincide -/
def Run.Bounded (w : Nat) : Run → Prop
  | .rle c v => c * 2 < 2 ^ 32 ∧ v < 2 ^ w
  | .packed gs => ∀ g ∈ gs, ∀ x ∈ g, x < 2 ^ w

theorem uleb_small (n : Nat) (h : n < 128) : uleb n = [n] := by
  rw [uleb]
  have : ¬ (n / 128 ≠ 0) := by omega
  rw [dif_neg this, Nat.mod_eq_of_lt h]

theorem flatMap_pack_eq (w : Nat) (hw : 1 ≤ w ∧ w ≤ 4) (gs : List (List Nat)) (h8 : ∀ g ∈ gs, g.length = 8) :
    gs.flatMap (pack w) = gs.flatMap (packSpec w) := by
  induction gs with
  | nil => rfl
  | cons g gs ih =>
    rw [List.flatMap_cons, List.flatMap_cons, pack_eq_packSpec' w hw g (h8 g (by simp)),
      ih (fun g' h' => h8 g' (by simp [h']))]

theorem serEnc_eq_ser (w : Nat) (hw : 1 ≤ w ∧ w ≤ 4) (r : Run) (hs : r.WFs) (hb : r.Bounded w) :
    r.serEnc w = r.ser w := by
  cases r with
  | rle c v =>
    obtain ⟨hc, _⟩ := hb
    simp only [Run.serEnc, Run.ser]
    rw [leb128_eq_uleb _ hc, valBytes_one w v hw.1 (by omega)]
  | packed gs =>
    obtain ⟨_, h63, h8⟩ := hs
    simp only [Run.serEnc, Run.ser]
    rw [uleb_small _ (by omega), flatMap_pack_eq w hw gs h8]

theorem serRunsEnc_eq_serRuns (w : Nat) (hw : 1 ≤ w ∧ w ≤ 4) (runs : List Run)
    (hs : ∀ r ∈ runs, r.WFs) (hb : ∀ r ∈ runs, r.Bounded w) : serRunsEnc w runs = serRuns w runs := by
  induction runs with
  | nil => rfl
  | cons r rs ih =>
    simp only [serRunsEnc, serRuns, List.flatMap_cons] at ih ⊢
    rw [serEnc_eq_ser w hw r (hs r (by simp)) (hb r (by simp)),
      ih (fun r' h' => hs r' (by simp [h'])) (fun r' h' => hb r' (by simp [h']))]

theorem vals_length_le (runs : List Run) (r : Run) (hr : r ∈ runs) :
    r.vals.length ≤ (runsVals runs).length := by
  induction runs with
  | nil => simp at hr
  | cons r' rs ih =>
    simp only [runsVals, List.flatMap_cons, List.length_append]
    simp only [List.mem_cons] at hr
    rcases hr with h | h
    · subst h; omega
    · have := ih h; simp only [runsVals] at this; omega

theorem bounded_of_vals (w : Nat) (runs : List Run) (hwf : ∀ r ∈ runs, r.WFs)
    (hv : ∀ x ∈ runsVals runs, x < 2 ^ w) (hlen : (runsVals runs).length * 2 < 2 ^ 32) :
    ∀ r ∈ runs, r.Bounded w := by
  intro r hr
  have hsub : ∀ x ∈ r.vals, x ∈ runsVals runs := by
    intro x hx; simp only [runsVals, List.mem_flatMap]; exact ⟨r, hr, hx⟩
  have hlenr := vals_length_le runs r hr
  cases r with
  | rle c v =>
    have hc : 8 ≤ c := hwf _ hr
    simp only [Run.vals, List.length_replicate] at hlenr
    refine ⟨by omega, hv v (hsub v ?_)⟩
    simp only [Run.vals, List.mem_replicate]; exact ⟨by omega, trivial⟩
  | packed gs =>
    intro g hg x hx
    exact hv x (hsub x (by simp only [Run.vals, List.mem_flatten]; exact ⟨g, hg, hx⟩))

theorem wfenc_of (w : Nat) (r : Run) (hs : r.WFs) (hb : r.Bounded w) : r.WFenc w := by
  cases r with
  | rle c v => exact ⟨hs, hb.2⟩
  | packed gs => exact hs

theorem wf_of (w : Nat) (r : Run) (hs : r.WFs) (hb : r.Bounded w) : r.WF w := by
  cases r with
  | rle c v =>
    have hc : 8 ≤ c := hs
    exact ⟨by omega, hb.2⟩
  | packed gs => exact ⟨hs.1, fun g hg => ⟨hs.2.2 g hg, hb g hg⟩⟩

/-- everything the later proofs need about `encode`, against the specification serialisation -/
theorem encode_runs (w : Nat) (hw : 1 ≤ w ∧ w ≤ 4) (xs : List Nat)
    (hx : ∀ x ∈ xs, x < 2 ^ w) (hlen : xs.length + 8 ≤ 2 ^ 30) :
    ∃ runs pad, encode w xs = le32 (serRuns w runs).length ++ serRuns w runs
      ∧ (∀ r ∈ runs, r.WFs) ∧ (∀ r ∈ runs, r.Bounded w)
      ∧ runsVals runs = xs ++ List.replicate pad 0 ∧ pad < 8 := by
  obtain ⟨runs, pad, henc, hwf, hvals, hpad⟩ := encode_struct w xs
  have hvlen : (runsVals runs).length = xs.length + pad := by rw [hvals]; simp
  have hvlt : ∀ x ∈ runsVals runs, x < 2 ^ w := by
    intro x hx'
    rw [hvals] at hx'
    simp only [List.mem_append, List.mem_replicate] at hx'
    rcases hx' with h | ⟨_, h⟩
    · exact hx x h
    · rw [h]; exact Nat.pow_pos (by omega)
  have h30 : (2 : Nat) ^ 32 = 4 * 2 ^ 30 := by decide
  have hb := bounded_of_vals w runs hwf hvlt (by omega)
  refine ⟨runs, pad, ?_, hwf, hb, hvals, hpad⟩
  rw [henc, serRunsEnc_eq_serRuns w hw runs hwf hb]

end PQ
