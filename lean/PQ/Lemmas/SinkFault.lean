import PQ.Model.SinkFault
import PQ.Props.C09
namespace PQ
open PQ.C09

def allSome (calls : List (Option (List Bytes))) : Prop := ∀ c ∈ calls, c.isSome = true

def writesOf (calls : List (Option (List Bytes))) : List (List Bytes) := calls.map (·.getD [])

/-- **A failing sink write is always reported.**  For every list of API calls none of which panics and every
`k` from 1 to the total number of sink writes: the run over the sink failing at write `k` consists of the
calls before the one that contains write `k` — each completed with exactly its fault-free writes — followed
by that call returning an error after the writes that precede write `k`; that call is `failingCall`. -/
theorem faultRun_reports : ∀ (calls : List (Option (List Bytes))) (k : Nat), allSome calls → 1 ≤ k →
    k ≤ ((writesOf calls).map List.length).sum →
    ∃ i, failingCall (writesOf calls) k = some i ∧ i < calls.length ∧
      faultRun calls k = ((writesOf calls).take i).map CallOut.done ++
        [CallOut.failed (((writesOf calls).getD i []).take (k - 1 - (((writesOf calls).take i).map List.length).sum))]
  | [], k, _, h1, h2 => by simp [writesOf] at h2; omega
  | none :: rest, k, hs, _, _ => by
    have := hs none List.mem_cons_self
    simp at this
  | some ws :: rest, k, hs, h1, h2 => by
    have hk0 : k ≠ 0 := by omega
    by_cases hlt : ws.length < k
    · have hs' : allSome rest := fun c hc => hs c (List.mem_cons_of_mem _ hc)
      have h2' : k - ws.length ≤ ((writesOf rest).map List.length).sum := by
        simp only [writesOf, List.map_cons, Option.getD_some, List.sum_cons] at h2 ⊢
        omega
      obtain ⟨i, hi, hlen, hrun⟩ := faultRun_reports rest (k - ws.length) hs' (by omega) h2'
      refine ⟨i + 1, ?_, by simp only [List.length_cons]; omega, ?_⟩
      · simp only [writesOf, List.map_cons, Option.getD_some]
        unfold failingCall
        rw [if_neg (by omega)]
        simp only [writesOf] at hi
        rw [hi]; rfl
      · unfold faultRun
        rw [if_neg hk0, if_pos hlt, hrun]
        simp only [writesOf, List.map_cons, Option.getD_some, List.take_succ_cons, List.sum_cons, List.cons_append,
          List.getD_cons_succ]
        have e : ∀ S, k - ws.length - 1 - S = k - 1 - (ws.length + S) := fun S => by omega
        rw [e]
    · refine ⟨0, ?_, by simp, ?_⟩
      · simp only [writesOf, List.map_cons, Option.getD_some]
        unfold failingCall
        rw [if_pos (by omega)]
      · unfold faultRun
        rw [if_neg hk0, if_neg hlt]
        simp [writesOf]

/-- the error is never swallowed: the run ends with a call that returned an error -/
theorem faultRun_ends_failed (calls : List (Option (List Bytes))) (k : Nat) (hs : allSome calls) (h1 : 1 ≤ k)
    (h2 : k ≤ ((writesOf calls).map List.length).sum) :
    ∃ ws, (faultRun calls k).getLast? = some (CallOut.failed ws) := by
  obtain ⟨i, _, _, hrun⟩ := faultRun_reports calls k hs h1 h2
  exact ⟨_, by rw [hrun, List.getLast?_append]; rfl⟩

/-- what the sink holds after the failed run: exactly the first `k - 1` writes of the fault-free run, in order
(nothing is written after the failure, nothing is skipped before it) -/
theorem faultRun_sink_prefix : ∀ (calls : List (Option (List Bytes))) (k : Nat), allSome calls → 1 ≤ k →
    k ≤ ((writesOf calls).map List.length).sum →
    (faultRun calls k).flatMap CallOut.writes = ((writesOf calls).flatten).take (k - 1)
  | [], k, _, h1, h2 => by simp [writesOf] at h2; omega
  | none :: rest, k, hs, _, _ => by
    have := hs none List.mem_cons_self
    simp at this
  | some ws :: rest, k, hs, h1, h2 => by
    have hk0 : k ≠ 0 := by omega
    by_cases hlt : ws.length < k
    · have hs' : allSome rest := fun c hc => hs c (List.mem_cons_of_mem _ hc)
      have h2' : k - ws.length ≤ ((writesOf rest).map List.length).sum := by
        simp only [writesOf, List.map_cons, Option.getD_some, List.sum_cons] at h2 ⊢
        omega
      have ih := faultRun_sink_prefix rest (k - ws.length) hs' (by omega) h2'
      unfold faultRun
      rw [if_neg hk0, if_pos hlt]
      simp only [List.flatMap_cons, CallOut.writes, writesOf, List.map_cons, Option.getD_some, List.flatten_cons]
      rw [ih, List.take_append]
      have : ws.take (k - 1) = ws := List.take_of_length_le (by omega)
      rw [this]
      congr 2
      omega
    · unfold faultRun
      rw [if_neg hk0, if_neg hlt]
      simp only [List.flatMap_cons, CallOut.writes, List.flatMap_nil, List.append_nil, writesOf, List.map_cons,
        Option.getD_some, List.flatten_cons]
      rw [List.take_append]
      have : k - 1 - ws.length = 0 := by omega
      simp [this]

/-- a sink that never fails: every call completes with its fault-free writes (up to a panicking call) -/
theorem faultRun_zero : ∀ (calls : List (Option (List Bytes))), allSome calls →
    faultRun calls 0 = (writesOf calls).map CallOut.done
  | [], _ => rfl
  | none :: rest, hs => by
    have := hs none List.mem_cons_self
    simp at this
  | some ws :: rest, hs => by
    unfold faultRun
    rw [if_pos rfl, faultRun_zero rest (fun c hc => hs c (List.mem_cons_of_mem _ hc))]
    simp [writesOf]

example : faultRun [some [[80,65,82,49]], some [], some [[1,2],[3]], some [[4],[5],[6]]] 3 =
    [.done [[80,65,82,49]], .done [], .failed [[1,2]]] := by decide
example : faultRun [some [[80,65,82,49]], some [], some [[1,2],[3]], some [[4],[5],[6]]] 1 = [.failed []] := by decide

end PQ
