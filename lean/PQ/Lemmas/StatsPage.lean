import PQ.Lemmas.PageRT
import PQ.Props.C12
/-!
# C12 on the bytes: the statistics the independent parser reads from a written page are sound

`PQ/Props/C12.lean` proves the property on the accumulator (`pageStats`, `Stats.result`).  This file
carries it to the file: the `Statistics` struct `pageBytes` serialises (`statsT`, thrift fields
3 = null_count, 5 = max_value, 6 = min_value) is read back by the independent parser
(`specPage_pageBytes_codec`: `stats := some (pageStatsFields c es)`), and the executable statement
of C12 on what the parser sees, `statsUnsound` (`PQ/Model/Spec.lean`), answers `none`.

* `statsFields_get` — what `getI64 · 3`, `getBin · 6`, `getBin · 5` read from `statsFields r`;
* `StatsSound c pg` — the four clauses of C12 as a `Prop` on a parsed page, and
  `statsUnsound_eq_none_iff : statsUnsound c pg = none ↔ StatsSound c pg` (the oracle decides it);
* `statsSound_written` (with its four clauses by name: `written_null_count`, `written_absent`,
  `written_min`, `written_max`) and `statsUnsound_written` — a well-formed written page is sound
  (guard: the page of a required numeric column holds at least one entry);
* `statsSound_specPage`, `statsUnsound_specPage` — composed with the page round trip;
* `required_numeric_empty_unsound` — the guard is exactly what is needed.

History: proving `statsUnsound_eq_none_iff` exposed that `statsUnsound` originally parsed its chain
`<|> (presence) <|> (min) <|> (max)` as part of the last arm `| none => none <|> …` of
`match getI64 st 3 with`, so that min / max were never looked at when a null_count was present
(every optional column).  `PQ/Model/Spec.lean` now parenthesises that `match`, and additionally
reports a NaN bound on a page with a non-NaN value (discharged here by `page_stats_sound`: reported
bounds are never NaN); the `example`s at the end pin both (a wrong min next to a right null_count
is reported; a NaN min is reported).
-/
namespace PQ
open PQ.Thrift PQ.C12

/-! ## 1. reading the serialised statistics -/

/-- the parser's three look-ups on the fields `statsT` writes: null_count is field 3 (an i64),
min_value field 6, max_value field 5 (binaries) -/
theorem statsFields_get (r : Option Nat × Option Bytes × Option Bytes) :
    getI64 (statsFields r) 3 = r.1.map (fun (n : Nat) => (n : Int)) ∧
    getBin (statsFields r) 6 = r.2.1 ∧
    getBin (statsFields r) 5 = r.2.2 := by
  obtain ⟨a, b, c⟩ := r
  cases a <;> cases b <;> cases c <;>
    simp [statsFields, statsT, TVal.fieldsOf, getI64, getBin, List.lookup]

theorem getI64_statsFields (r : Option Nat × Option Bytes × Option Bytes) :
    getI64 (statsFields r) 3 = r.1.map (fun (n : Nat) => (n : Int)) := (statsFields_get r).1

theorem getBin_statsFields_min (r : Option Nat × Option Bytes × Option Bytes) :
    getBin (statsFields r) 6 = r.2.1 := (statsFields_get r).2.1

theorem getBin_statsFields_max (r : Option Nat × Option Bytes × Option Bytes) :
    getBin (statsFields r) 5 = r.2.2 := (statsFields_get r).2.2

/-! ## 2. vocabulary bridges -/

/-- the oracle's NaN test is the property's -/
theorem isNaNVal_eq (ty : PType) (v : Bytes) : isNaNVal ty v = isNaN ty v := by
  cases ty <;> rfl

/-- a well-formed page is striped at the level `pageStats` uses (0 for a `RequiredField`) -/
theorem striped_of_wfPage {c : Col} {es : PageEntries} (hwf : WFPage c es) :
    Striped (if c.isRequired then 0 else c.maxDef) es := by
  intro e he
  have h := hwf.entries e he
  by_cases hr : c.isRequired = true
  · rw [if_pos hr] at h ⊢
    obtain ⟨_, hd, hv⟩ := h
    rw [hd]
    exact ⟨Nat.le_refl _, fun _ => rfl, fun _ => hv⟩
  · rw [if_neg hr] at h ⊢
    exact ⟨h.1, h.2.2⟩

/-- a page of a `RequiredField` has a value in every entry -/
theorem required_all_some {c : Col} {es : PageEntries} (hwf : WFPage c es)
    (hr : c.isRequired = true) : ∀ e ∈ es, e.val.isSome = true := by
  intro e he
  have h := hwf.entries e he
  rw [if_pos hr] at h
  exact h.2.2

private theorem mem_nonNull {es : PageEntries} {v : Bytes} :
    v ∈ es.filterMap (·.val) ↔ ∃ e ∈ es, e.val = some v := by
  simp only [List.mem_filterMap]

private theorem nonNull_eq_nil {es : PageEntries} :
    es.filterMap (·.val) = [] ↔ ∀ e ∈ es, e.val = none := by
  simp only [List.filterMap_eq_nil_iff]

/-- `Min()` is reported exactly when `Max()` is -/
theorem result_min_max_isSome (ty : PType) (required : Bool) (s : Stats) :
    (s.result ty required).2.1.isSome = (s.result ty required).2.2.isSome := by
  cases ty <;> cases required <;> simp only [Stats.result] <;>
    first
    | rfl
    | (split <;> rfl)

/-! ## 3. C12 on a parsed page as a proposition; the oracle decides it -/

/-- C12 for one page as the independent parser sees it: null_count, absence, `min ≤ v`, `v ≤ max`.
`le c.ty m v` is `vLt c.ty v m = false`, which holds vacuously against a NaN `m`; hence the second
half of the last two clauses: a NaN bound is only tolerated on a page all of whose values are NaN -/
def StatsSound (c : Col) (pg : SpecPage) : Prop :=
  (∀ n, getI64 (pg.stats.getD []) 3 = some n →
    n = ((pg.entries.filter fun e => e.val.isNone).length : Int)) ∧
  (pg.entries.filterMap (·.val) = [] →
    getBin (pg.stats.getD []) 6 = none ∧ getBin (pg.stats.getD []) 5 = none) ∧
  (∀ m, getBin (pg.stats.getD []) 6 = some m →
    (∀ v ∈ pg.entries.filterMap (·.val), isNaNVal c.ty v = false → le c.ty m v) ∧
    (isNaNVal c.ty m = true → ∀ v ∈ pg.entries.filterMap (·.val), isNaNVal c.ty v = true)) ∧
  (∀ m, getBin (pg.stats.getD []) 5 = some m →
    (∀ v ∈ pg.entries.filterMap (·.val), isNaNVal c.ty v = false → le c.ty v m) ∧
    (isNaNVal c.ty m = true → ∀ v ∈ pg.entries.filterMap (·.val), isNaNVal c.ty v = true))

private theorem orElse_eq_none {α : Type} (a b : Option α) : (a <|> b) = none ↔ a = none ∧ b = none := by
  cases a <;> simp

private theorem any_filter_false {vs : List Bytes} {p q : Bytes → Bool} :
    (vs.filter p).any q = false ↔ ∀ v ∈ vs, p v = true → q v = false := by
  simp only [List.any_eq_false, List.mem_filter]
  constructor
  · intro h v hv hp; simpa using h v ⟨hv, hp⟩
  · intro h v ⟨hv, hp⟩; simp [h v hv hp]

private theorem ite2_eq_none {α : Type} {A B : Prop} [Decidable A] [Decidable B] (x y : α) :
    (if A then some x else if B then some y else none) = none ↔ ¬ A ∧ ¬ B := by
  by_cases hA : A <;> by_cases hB : B <;> simp [hA, hB]

private theorem nan_guard {vs : List Bytes} {p : Bytes → Bool} {b : Bool} :
    ¬ (b = true ∧ (vs.filter fun v => !p v).isEmpty = false) ↔ (b = true → ∀ v ∈ vs, p v = true) := by
  cases b
  · simp
  · simp [List.filter_eq_nil_iff]

/-- **the oracle decides the proposition**: `statsUnsound` answers `none` exactly on the pages whose
statistics satisfy the four clauses -/
theorem statsUnsound_eq_none_iff (c : Col) (pg : SpecPage) :
    statsUnsound c pg = none ↔ StatsSound c pg := by
  unfold statsUnsound StatsSound
  simp only [orElse_eq_none]
  refine and_congr ?_ (and_congr ?_ (and_congr ?_ ?_))
  · cases h : getI64 (pg.stats.getD []) 3 with
    | none => simp
    | some n => simp
  · cases h6 : getBin (pg.stats.getD []) 6 <;> cases h5 : getBin (pg.stats.getD []) 5 <;>
      simp [List.isEmpty_iff]
  · cases h6 : getBin (pg.stats.getD []) 6 with
    | none => simp
    | some m =>
      simp only [ite2_eq_none, nan_guard, Bool.not_eq_true, Option.some.injEq, forall_eq',
        any_filter_false, le, Bool.not_eq_eq_eq_not, Bool.not_true]
  · cases h5 : getBin (pg.stats.getD []) 5 with
    | none => simp
    | some m =>
      simp only [ite2_eq_none, nan_guard, Bool.not_eq_true, Option.some.injEq, forall_eq',
        any_filter_false, le, Bool.not_eq_eq_eq_not, Bool.not_true]

theorem statsUnsound_of_sound {c : Col} {pg : SpecPage} (h : StatsSound c pg) :
    statsUnsound c pg = none := (statsUnsound_eq_none_iff c pg).2 h

/-! ## 4. the written page -/

/-- **C12 on what the parser reads from a written page** (proposition form).  Guard: the page of a
required numeric column is not empty — such a column always reports min / max, so on an empty page
it would report the initial `math.Max<T>` / `0`; `Writer` never writes an empty page. -/
theorem statsSound_written (c : Col) (es : PageEntries) (hwf : WFPage c es)
    (hne : c.isRequired = true → Numeric c.ty → es ≠ []) (h a b : Nat) :
    StatsSound c { numValues := es.length, entries := es, headerLen := h, compressedLen := a,
                   uncompressedLen := b, stats := some (pageStatsFields c es) } := by
  have hs := striped_of_wfPage hwf
  obtain ⟨p1, p2, p3⟩ := page_stats_sound c es hs
  unfold StatsSound
  simp only [Option.getD_some, pageStatsFields, getI64_statsFields, getBin_statsFields_min,
    getBin_statsFields_max]
  refine ⟨?_, ?_, ?_, ?_⟩
  · intro n hn
    cases hr : c.isRequired with
    | true =>
      have h0 := null_count_required c.ty (if c.isRequired then 0 else c.maxDef) es
      rw [← pageStats_eq, ← hr] at h0
      rw [h0] at hn
      cases hn
    | false =>
      rw [p1 hr] at hn
      injection hn with hn
      exact hn.symm
  · intro hnil
    have hnone := nonNull_eq_nil.1 hnil
    by_cases hk : c.isRequired = false ∨ c.ty = .str ∨ c.ty = .bool
    · exact p3 hnone hk
    · have hr : c.isRequired = true := by
        cases hc : c.isRequired with
        | true => rfl
        | false => exact absurd (Or.inl hc) hk
      have hnum : Numeric c.ty := ⟨fun hb => hk (Or.inr (Or.inr hb)), fun hb => hk (Or.inr (Or.inl hb))⟩
      have hes := hne hr hnum
      cases es with
      | nil => exact absurd rfl hes
      | cons e es =>
        have h1 := required_all_some hwf hr e (by simp)
        rw [hnone e (by simp)] at h1
        cases h1
  · intro m hm
    have hx : ((pageStats c es).result c.ty c.isRequired).2.2.isSome = true := by
      rw [← result_min_max_isSome, hm]; rfl
    obtain ⟨mx, hmx⟩ := Option.isSome_iff_exists.1 hx
    refine ⟨fun v hv hnan => ?_, fun hnan => ?_⟩
    · obtain ⟨e, he, hev⟩ := mem_nonNull.1 hv
      rw [isNaNVal_eq] at hnan
      exact ((p2 m mx hm hmx).2.2 e he v hev hnan).1
    · rw [isNaNVal_eq, (p2 m mx hm hmx).1] at hnan
      cases hnan
  · intro m hm
    have hx : ((pageStats c es).result c.ty c.isRequired).2.1.isSome = true := by
      rw [result_min_max_isSome, hm]; rfl
    obtain ⟨mn, hmn⟩ := Option.isSome_iff_exists.1 hx
    refine ⟨fun v hv hnan => ?_, fun hnan => ?_⟩
    · obtain ⟨e, he, hev⟩ := mem_nonNull.1 hv
      rw [isNaNVal_eq] at hnan
      exact ((p2 mn m hmn hm).2.2 e he v hev hnan).2
    · rw [isNaNVal_eq, (p2 mn m hmn hm).2.1] at hnan
      cases hnan

/-! the four clauses by name, on the header fields of the written page -/

/-- clause 1: a written null_count is the number of entries without a value (an `OptionalField`
always writes one, a `RequiredField` never) -/
theorem written_null_count (c : Col) (es : PageEntries) (hwf : WFPage c es) (n : Int)
    (hn : getI64 (pageStatsFields c es) 3 = some n) :
    n = ((es.filter fun e => e.val.isNone).length : Int) ∧ c.isRequired = false := by
  have hs := striped_of_wfPage hwf
  obtain ⟨p1, _, _⟩ := page_stats_sound c es hs
  simp only [pageStatsFields, getI64_statsFields] at hn
  cases hr : c.isRequired with
  | true =>
    have h0 := null_count_required c.ty (if c.isRequired then 0 else c.maxDef) es
    rw [← pageStats_eq, ← hr] at h0
    rw [h0] at hn
    cases hn
  | false =>
    rw [p1 hr] at hn
    injection hn with hn
    exact ⟨hn.symm, rfl⟩

theorem written_null_count_optional (c : Col) (es : PageEntries) (hwf : WFPage c es)
    (hr : c.isRequired = false) :
    getI64 (pageStatsFields c es) 3 = some ((es.filter fun e => e.val.isNone).length : Int) := by
  obtain ⟨p1, _, _⟩ := page_stats_sound c es (striped_of_wfPage hwf)
  simp only [pageStatsFields, getI64_statsFields]
  rw [p1 hr]
  rfl

/-- clause 4: no non-null value, no min / max -/
theorem written_absent (c : Col) (es : PageEntries) (hwf : WFPage c es)
    (hne : c.isRequired = true → Numeric c.ty → es ≠ []) (hnil : es.filterMap (·.val) = []) :
    getBin (pageStatsFields c es) 6 = none ∧ getBin (pageStatsFields c es) 5 = none :=
  (statsSound_written c es hwf hne 0 0 0).2.1 hnil

/-- clause 2: a written min is not above any non-null non-NaN value -/
theorem written_min (c : Col) (es : PageEntries) (hwf : WFPage c es) (m : Bytes)
    (hm : getBin (pageStatsFields c es) 6 = some m) :
    isNaN c.ty m = false ∧ ∀ v ∈ es.filterMap (·.val), isNaN c.ty v = false → le c.ty m v := by
  obtain ⟨_, p2, _⟩ := page_stats_sound c es (striped_of_wfPage hwf)
  simp only [pageStatsFields, getBin_statsFields_min] at hm
  have hx : ((pageStats c es).result c.ty c.isRequired).2.2.isSome = true := by
    rw [← result_min_max_isSome, hm]; rfl
  obtain ⟨mx, hmx⟩ := Option.isSome_iff_exists.1 hx
  refine ⟨(p2 m mx hm hmx).1, fun v hv hnan => ?_⟩
  obtain ⟨e, he, hev⟩ := mem_nonNull.1 hv
  exact ((p2 m mx hm hmx).2.2 e he v hev hnan).1

/-- clause 3: a written max is not below any non-null non-NaN value -/
theorem written_max (c : Col) (es : PageEntries) (hwf : WFPage c es) (m : Bytes)
    (hm : getBin (pageStatsFields c es) 5 = some m) :
    isNaN c.ty m = false ∧ ∀ v ∈ es.filterMap (·.val), isNaN c.ty v = false → le c.ty v m := by
  obtain ⟨_, p2, _⟩ := page_stats_sound c es (striped_of_wfPage hwf)
  simp only [pageStatsFields, getBin_statsFields_max] at hm
  have hx : ((pageStats c es).result c.ty c.isRequired).2.1.isSome = true := by
    rw [result_min_max_isSome, hm]; rfl
  obtain ⟨mn, hmn⟩ := Option.isSome_iff_exists.1 hx
  refine ⟨(p2 mn m hmn hm).2.1, fun v hv hnan => ?_⟩
  obtain ⟨e, he, hev⟩ := mem_nonNull.1 hv
  exact ((p2 mn m hmn hm).2.2 e he v hev hnan).2

/-- **… and for the oracle `statsUnsound` of `PQ/Model/Spec.lean`.** -/
theorem statsUnsound_written (c : Col) (es : PageEntries) (hwf : WFPage c es)
    (hne : c.isRequired = true → Numeric c.ty → es ≠ []) (h a b : Nat) :
    statsUnsound c { numValues := es.length, entries := es, headerLen := h, compressedLen := a,
                     uncompressedLen := b, stats := some (pageStatsFields c es) } = none :=
  statsUnsound_of_sound (statsSound_written c es hwf hne h a b)

/-- the simpler guard "a `RequiredField`'s page is not empty" is enough -/
theorem statsUnsound_written' (c : Col) (es : PageEntries) (hwf : WFPage c es)
    (hne : c.isRequired = true → es ≠ []) (h a b : Nat) :
    statsUnsound c { numValues := es.length, entries := es, headerLen := h, compressedLen := a,
                     uncompressedLen := b, stats := some (pageStatsFields c es) } = none :=
  statsUnsound_written c es hwf (fun hr _ => hne hr) h a b

/-- the guard is exactly what is needed: the empty page of a required numeric column carries
`min = math.Max<T>`, `max = 0` and the oracle rejects it (no such page is ever written) -/
theorem required_numeric_empty_unsound (c : Col) (hr : c.isRequired = true) (hn : Numeric c.ty)
    (h a b : Nat) :
    statsUnsound c { numValues := 0, entries := [], headerLen := h, compressedLen := a,
                     uncompressedLen := b, stats := some (pageStatsFields c []) } =
      some "min/max present on a page without non-null values" := by
  have hres := required_numeric_always_present hn (if c.isRequired then 0 else c.maxDef) []
  rw [← pageStats_eq, ← hr] at hres
  have h0 := null_count_required c.ty (if c.isRequired then 0 else c.maxDef) []
  rw [← pageStats_eq, ← hr] at h0
  unfold statsUnsound
  simp only [Option.getD_some, pageStatsFields, getI64_statsFields, getBin_statsFields_min,
    getBin_statsFields_max, hres.1, hres.2, h0]
  rfl

/-! ## 5. composed with the page round trip -/

/-- **C12 on the bytes.**  Wherever the two `Write`s of a well-formed page land in a file, the page
the independent parser returns there is the page that was written, and its statistics are sound. -/
theorem statsSound_specPage (dc : Decomp) (k : Codec) (codec : Int) (c : Col) (es : PageEntries)
    (hwf : WFPage c es) (hne : c.isRequired = true → Numeric c.ty → es ≠ [])
    (hk : CodecOK dc k codec (pagePayload c es)) (pre rest : Bytes) :
    ∃ pg, specPage dc c codec (pre ++ (pageBytes k c es).1 ++ (pageBytes k c es).2 ++ rest) pre.length
        = .ok pg ∧ pg.entries = es ∧ pg.stats = some (pageStatsFields c es) ∧
      StatsSound c pg ∧ statsUnsound c pg = none :=
  ⟨_, specPage_pageBytes_codec dc k codec c es hwf hk pre rest, rfl, rfl,
    statsSound_written c es hwf hne _ _ _, statsUnsound_written c es hwf hne _ _ _⟩

/-- the same, for whatever `specPage` returns -/
theorem statsUnsound_specPage (dc : Decomp) (k : Codec) (codec : Int) (c : Col) (es : PageEntries)
    (hwf : WFPage c es) (hne : c.isRequired = true → Numeric c.ty → es ≠ [])
    (hk : CodecOK dc k codec (pagePayload c es)) (pre rest : Bytes) (pg : SpecPage)
    (hpg : specPage dc c codec (pre ++ (pageBytes k c es).1 ++ (pageBytes k c es).2 ++ rest) pre.length
        = .ok pg) :
    statsUnsound c pg = none := by
  rw [specPage_pageBytes_codec dc k codec c es hwf hk pre rest] at hpg
  cases hpg
  exact statsUnsound_written c es hwf hne _ _ _

/-! ## 6. concrete pages -/
section examples

/-- the optional int32 page `[1, null, -1]` of `PageRT`: its header carries
`null_count = 1, max = 1, min = -1` … -/
example : pageStatsFields exCol exPage =
    [(3, .int 6 1), (5, .bin [1, 0, 0, 0]), (6, .bin [255, 255, 255, 255])] := by rfl

/-- the page as the parser returns it (23 header bytes, 18 payload bytes) -/
private def exParsed (st : List (Nat × TVal)) : SpecPage :=
  { numValues := 3, entries := exPage, headerLen := 23, compressedLen := 18, uncompressedLen := 18,
    stats := some st }

/-- the oracle accepts the parsed page: by the theorem … -/
example : statsUnsound exCol (exParsed (pageStatsFields exCol exPage)) = none :=
  statsUnsound_written exCol exPage exPage_wf (by decide) _ _ _

/-- … and by evaluation -/
example : statsUnsound exCol (exParsed (pageStatsFields exCol exPage)) = none := by decide

/-- a wrong `min` (1, while the page holds −1) next to a right null_count is reported (it was not
before the first `match` of `statsUnsound` was parenthesised) -/
example : statsUnsound exCol (exParsed [(3, .int 6 1), (5, .bin [1, 0, 0, 0]), (6, .bin [1, 0, 0, 0])]) =
    some "a value is below min" := by decide

/-- a NaN `min` on a float page holding an ordinary value (1.0) is reported too -/
private def exColF : Col := { path := ["f"], reps := [.opt], ty := .f32 }

example : statsUnsound exColF
    { numValues := 1, entries := [⟨0, 1, some [0, 0, 128, 63]⟩], headerLen := 0, compressedLen := 0,
      uncompressedLen := 0,
      stats := some [(3, .int 6 0), (5, .bin [0, 0, 128, 63]), (6, .bin [0, 0, 192, 127])] } =
    some "min is NaN: min <= v is false for every value" := by decide

/-- the repeated optional string page of `PageRT`, through the parser -/
example (dc : Decomp) (pre rest : Bytes) (pg : SpecPage)
    (h : specPage dc exCol2 0 (pre ++ (pageBytes ⟨0, id⟩ exCol2 exPage2).1 ++
      (pageBytes ⟨0, id⟩ exCol2 exPage2).2 ++ rest) pre.length = .ok pg) :
    statsUnsound exCol2 pg = none :=
  statsUnsound_specPage dc ⟨0, id⟩ 0 exCol2 exPage2 exPage2_wf (by decide) (Or.inl ⟨rfl, rfl⟩) pre rest pg h

end examples

end PQ
