import PQ.Model.Pool
/-!
# Lemmas about the shared buffer pool model (C13)

* step equations for `World.step`, one per case;
* a *local* semantics `outOf prog store` of a program (no heap, no pool, no other instances);
* the ownership invariant `Inv w hs` (`hs i` = ghost set of slots instance `i` currently holds:
  each held slot is bound to a buffer id that is `< next`, not in `free`, and bound to no other
  held slot of any instance), its preservation by every step of every instance, and the
  preservation of `pending w inst = inst.out ++ outOf inst.prog (store w inst)` for every instance
  by every step of every instance.
-/
namespace PQ.Pool

/-! ## heap -/

theorem lookup_filter_ne (h : List (BufId × Bytes)) (b b' : BufId) (hne : b' ≠ b) :
    (h.filter (·.1 != b)).lookup b' = h.lookup b' := by
  induction h with
  | nil => rfl
  | cons p t ih =>
    obtain ⟨x, v⟩ := p
    by_cases hx : x = b
    · subst hx
      have h1 : (b' == x) = false := by simpa using hne
      simp [List.filter, List.lookup, h1, ih]
    · have h1 : (x != b) = true := by simpa using hx
      simp only [List.filter, h1, List.lookup_cons, ih]

theorem heapGet_set_same (h : List (BufId × Bytes)) (b : BufId) (v : Bytes) :
    heapGet (heapSet h b v) b = v := by
  simp [heapGet, heapSet]

theorem heapGet_set_other (h : List (BufId × Bytes)) (b b' : BufId) (v : Bytes) (hne : b' ≠ b) :
    heapGet (heapSet h b v) b' = heapGet h b' := by
  have h1 : (b' == b) = false := by simpa using hne
  simp only [heapGet, heapSet, List.lookup_cons, h1, lookup_filter_ne h b b' hne]

/-! ## step equations -/

theorem step_none {w : World} {i k : Nat} (h : w.insts[i]? = none) : w.step i k = w := by
  unfold World.step; rw [h]

theorem step_nil {w : World} {i k : Nat} {inst : Inst} (h : w.insts[i]? = some inst)
    (hp : inst.prog = []) : w.step i k = w := by
  unfold World.step; rw [h]; simp only; rw [hp]

theorem step_get_fresh {w : World} {i k : Nat} {inst : Inst} {s rest} (h : w.insts[i]? = some inst)
    (hp : inst.prog = .get s :: rest) (hf : w.free = []) :
    w.step i k = { heap := heapSet w.heap w.next [], free := w.free, next := w.next + 1, insts := w.insts.set i { prog := rest, slots := (s, w.next) :: inst.slots, out := inst.out } } := by
  unfold World.step; rw [h]; simp only; rw [hp]; simp only [hf, List.isEmpty_nil, if_true]

theorem step_get_reuse {w : World} {i k : Nat} {inst : Inst} {s rest} (h : w.insts[i]? = some inst)
    (hp : inst.prog = .get s :: rest) (hf : w.free ≠ []) :
    w.step i k = { heap := heapSet w.heap (w.free.getD (k % w.free.length) 0) [], free := w.free.eraseIdx (k % w.free.length), next := w.next, insts := w.insts.set i { prog := rest, slots := (s, w.free.getD (k % w.free.length) 0) :: inst.slots, out := inst.out } } := by
  unfold World.step; rw [h]; simp only; rw [hp]
  have : w.free.isEmpty = false := by
    cases hh : w.free with
    | nil => exact absurd hh hf
    | cons _ _ => rfl
  simp only [this, Bool.false_eq_true, if_false]

theorem step_fill {w : World} {i k : Nat} {inst : Inst} {s d rest b} (h : w.insts[i]? = some inst)
    (hp : inst.prog = .fill s d :: rest) (hb : inst.slots.lookup s = some b) :
    w.step i k = { heap := heapSet w.heap b d, free := w.free, next := w.next, insts := w.insts.set i { prog := rest, slots := inst.slots, out := inst.out } } := by
  unfold World.step; rw [h]; simp only; rw [hp]; simp only [hb]

theorem step_emit {w : World} {i k : Nat} {inst : Inst} {s rest b} (h : w.insts[i]? = some inst)
    (hp : inst.prog = .emit s :: rest) (hb : inst.slots.lookup s = some b) :
    w.step i k = { heap := w.heap, free := w.free, next := w.next, insts := w.insts.set i { prog := rest, slots := inst.slots, out := inst.out ++ heapGet w.heap b } } := by
  unfold World.step; rw [h]; simp only; rw [hp]; simp only [hb]

theorem step_put {w : World} {i k : Nat} {inst : Inst} {s rest b} (h : w.insts[i]? = some inst)
    (hp : inst.prog = .put s :: rest) (hb : inst.slots.lookup s = some b) :
    w.step i k = { heap := w.heap, free := b :: w.free, next := w.next, insts := w.insts.set i { prog := rest, slots := inst.slots, out := inst.out } } := by
  unfold World.step; rw [h]; simp only; rw [hp]; simp only [hb]

/-! ## local semantics of a program -/

/-- update of a local store `slot ↦ contents` -/
def upd (st : Nat → Bytes) (s : Nat) (d : Bytes) : Nat → Bytes := fun x => if x = s then d else st x

/-- bytes a program gives to its sink, computed on a private store: no heap, no pool, no ids,
no other instances.  (Coincides with the model on well-bracketed programs.) -/
def outOf : List Step → (Nat → Bytes) → Bytes
  | [], _ => []
  | .get s :: rest, st => outOf rest (upd st s [])
  | .fill s d :: rest, st => outOf rest (upd st s d)
  | .emit s :: rest, st => st s ++ outOf rest st
  | .put _ :: rest, st => outOf rest st

theorem contains_eq_true {held : List Nat} {s : Nat} : held.contains s = true ↔ s ∈ held := by
  simp

/-- a well-bracketed program only looks at the store on the slots it holds -/
theorem outOf_congr : ∀ (prog : List Step) (held : List Nat) (st1 st2 : Nat → Bytes),
    WellBracketed prog held = true → (∀ s ∈ held, st1 s = st2 s) → outOf prog st1 = outOf prog st2
  | [], _, _, _, _, _ => rfl
  | .get s :: rest, held, st1, st2, hwb, hag => by
    simp only [WellBracketed, Bool.and_eq_true] at hwb
    simp only [outOf]
    apply outOf_congr rest (s :: held) _ _ hwb.2
    intro x hx
    simp only [upd]
    by_cases hxs : x = s
    · simp [hxs]
    · simp only [hxs, if_false]
      rcases List.mem_cons.1 hx with h | h
      · exact absurd h hxs
      · exact hag x h
  | .fill s d :: rest, held, st1, st2, hwb, hag => by
    simp only [WellBracketed, Bool.and_eq_true] at hwb
    simp only [outOf]
    apply outOf_congr rest held _ _ hwb.2
    intro x hx
    simp only [upd]
    by_cases hxs : x = s
    · simp [hxs]
    · simp only [hxs, if_false]; exact hag x hx
  | .emit s :: rest, held, st1, st2, hwb, hag => by
    simp only [WellBracketed, Bool.and_eq_true] at hwb
    simp only [outOf]
    rw [hag s (contains_eq_true.1 hwb.1), outOf_congr rest held st1 st2 hwb.2 hag]
  | .put s :: rest, held, st1, st2, hwb, hag => by
    simp only [WellBracketed, Bool.and_eq_true] at hwb
    simp only [outOf]
    apply outOf_congr rest _ _ _ hwb.2
    intro x hx
    exact hag x (List.mem_filter.1 hx).1

/-! ## the ownership invariant -/

/-- the local store of an instance inside a world: slot ↦ contents of the buffer it is bound to -/
def store (w : World) (inst : Inst) : Nat → Bytes :=
  fun s => heapGet w.heap ((inst.slots.lookup s).getD 0)

/-- what the instance has emitted so far followed by what its remaining program emits locally -/
def pending (w : World) (inst : Inst) : Bytes := inst.out ++ outOf inst.prog (store w inst)

/-- instance `i` holds slot `s`, bound to buffer `b` -/
def Own (w : World) (hs : Nat → List Nat) (i s : Nat) (b : BufId) : Prop :=
  ∃ inst, w.insts[i]? = some inst ∧ s ∈ hs i ∧ inst.slots.lookup s = some b

structure Inv (w : World) (hs : Nat → List Nat) : Prop where
  free_nodup : w.free.Nodup
  free_lt : ∀ b ∈ w.free, b < w.next
  wb : ∀ i inst, w.insts[i]? = some inst → WellBracketed inst.prog (hs i) = true
  total : ∀ i inst s, w.insts[i]? = some inst → s ∈ hs i → ∃ b, inst.slots.lookup s = some b
  own_lt : ∀ i s b, Own w hs i s b → b < w.next
  own_nfree : ∀ i s b, Own w hs i s b → b ∉ w.free
  own_inj : ∀ i j s t b, Own w hs i s b → Own w hs j t b → i = j ∧ s = t

/-- the natural well-formedness of an initial world: any heap (arbitrary stale bytes), any pool of
distinct already-allocated ids, instances that hold nothing and follow the discipline -/
structure World.WF (w : World) : Prop where
  free_nodup : w.free.Nodup
  free_lt : ∀ b ∈ w.free, b < w.next
  slots_nil : ∀ inst ∈ w.insts, inst.slots = []
  wb : ∀ inst ∈ w.insts, WellBracketed inst.prog [] = true

theorem World.WF.inv {w : World} (h : w.WF) : Inv w (fun _ => []) where
  free_nodup := h.free_nodup
  free_lt := h.free_lt
  wb := fun _ inst hi => h.wb inst (List.mem_of_getElem? hi)
  total := fun _ _ _ _ hs => absurd hs (List.not_mem_nil)
  own_lt := fun _ _ _ ⟨_, _, hs, _⟩ => absurd hs (List.not_mem_nil)
  own_nfree := fun _ _ _ ⟨_, _, hs, _⟩ => absurd hs (List.not_mem_nil)
  own_inj := fun _ _ _ _ _ ⟨_, _, hs, _⟩ => absurd hs (List.not_mem_nil)

theorem getElem?_set_some {α} {l : List α} {i j : Nat} {a x : α} (h : (l.set i a)[j]? = some x) :
    (j = i ∧ x = a) ∨ (j ≠ i ∧ l[j]? = some x) := by
  rw [List.getElem?_set] at h
  by_cases hij : i = j
  · rw [if_pos hij] at h
    split at h
    · left; exact ⟨hij.symm, (Option.some.inj h).symm⟩
    · cases h
  · rw [if_neg hij] at h
    right; exact ⟨fun e => hij e.symm, h⟩

theorem getElem?_set_of_some {α} {l : List α} {i j : Nat} {a x : α} (h : l[j]? = some x) :
    (l.set i a)[j]? = some (if j = i then a else x) := by
  rw [List.getElem?_set]
  by_cases hij : i = j
  · subst hij
    have hl : i < l.length := by
      cases hlt : Nat.decLt i l.length with
      | isTrue p => exact p
      | isFalse p => rw [List.getElem?_eq_none (Nat.le_of_not_lt p)] at h; cases h
    simp [hl]
  · have : ¬ j = i := fun e => hij e.symm
    simp [hij, this, h]

/-- result of one step: the invariant survives (with an updated ghost), and every instance's
`pending` is unchanged; the acting instance's program loses its head, the others' are untouched -/
def StepOK (w : World) (i : Nat) (w' : World) : Prop :=
  (∃ hs', Inv w' hs') ∧ w'.insts.length = w.insts.length ∧
  ∀ j instj, w.insts[j]? = some instj →
    ∃ inst', w'.insts[j]? = some inst' ∧ pending w' inst' = pending w instj ∧
      inst'.prog = (if j = i then instj.prog.tail else instj.prog)

theorem stepOK_refl {w : World} {hs} (hI : Inv w hs) {i : Nat}
    (h : ∀ inst, w.insts[i]? = some inst → inst.prog = []) : StepOK w i w := by
  refine ⟨⟨hs, hI⟩, rfl, fun j instj hj => ⟨instj, hj, rfl, ?_⟩⟩
  by_cases hji : j = i
  · subst hji; rw [if_pos rfl, h instj hj]; rfl
  · rw [if_neg hji]

/-- a step that does not touch the buffers instance `j ≠ i` owns leaves `j`'s `pending` alone -/
theorem pending_other {w : World} {hs} (hI : Inv w hs) {w' : World} {i : Nat} {inst' : Inst}
    (hins : w'.insts = w.insts.set i inst') {j : Nat} {instj : Inst} (hne : j ≠ i)
    (hj : w.insts[j]? = some instj)
    (hagree : ∀ t c, Own w hs j t c → heapGet w'.heap c = heapGet w.heap c) :
    ∃ inst'', w'.insts[j]? = some inst'' ∧ pending w' inst'' = pending w instj ∧
      inst''.prog = (if j = i then instj.prog.tail else instj.prog) := by
  refine ⟨instj, ?_, ?_, by rw [if_neg hne]⟩
  · rw [hins, List.getElem?_set_ne (fun e => hne e.symm)]; exact hj
  · unfold pending
    congr 1
    apply outOf_congr _ (hs j) _ _ (hI.wb j instj hj)
    intro x hx
    obtain ⟨c, hc⟩ := hI.total j instj x hj hx
    simp only [store, hc, Option.getD_some]
    exact hagree x c ⟨instj, hj, hx, hc⟩

theorem lookup_cons_ne' {s t : Nat} {b : BufId} {l : List (Nat × BufId)} (h : t ≠ s) :
    ((s, b) :: l).lookup t = l.lookup t := by
  have : (t == s) = false := by simpa using h
  simp only [List.lookup_cons, this]

theorem lookup_cons_same' {s : Nat} {b : BufId} {l : List (Nat × BufId)} :
    ((s, b) :: l).lookup s = some b := by
  simp only [List.lookup_cons, beq_self_eq_true]

/-- `get`, for any buffer `b` that is new to everybody (fresh, or taken out of the pool) -/
theorem stepOK_get {w : World} {hs} (hI : Inv w hs) {i : Nat} {inst : Inst} {s : Nat} {rest : List Step}
    (hi : w.insts[i]? = some inst) (hp : inst.prog = .get s :: rest)
    {b : BufId} {free' : List BufId} {next' : Nat}
    (hnext : w.next ≤ next') (hb_lt : b < next') (hb_nf : b ∉ free')
    (hb_new : ∀ j t, ¬ Own w hs j t b) (hf_nd : free'.Nodup) (hf_sub : ∀ x ∈ free', x ∈ w.free) :
    StepOK w i { heap := heapSet w.heap b [], free := free', next := next', insts := w.insts.set i { prog := rest, slots := (s, b) :: inst.slots, out := inst.out } } := by
  have hwb := hI.wb i inst hi
  rw [hp] at hwb
  simp only [WellBracketed, Bool.and_eq_true, Bool.not_eq_true', ← Bool.not_eq_true, contains_eq_true] at hwb
  obtain ⟨hs_new, hwb_rest⟩ := hwb
  let hs' : Nat → List Nat := fun j => if j = i then s :: hs i else hs j
  have hs'_i : hs' i = s :: hs i := by simp only [hs', if_true]
  have hs'_ne : ∀ j, j ≠ i → hs' j = hs j := fun j h => by simp only [hs', if_neg h]
  -- characterisation of ownership after the step
  have hchar : ∀ j t c, Own { heap := heapSet w.heap b [], free := free', next := next', insts := w.insts.set i { prog := rest, slots := (s, b) :: inst.slots, out := inst.out } } hs' j t c →
      (j = i ∧ t = s ∧ c = b) ∨ Own w hs j t c := by
    rintro j t c ⟨x, hx, ht, hl⟩
    rcases getElem?_set_some hx with ⟨rfl, rfl⟩ | ⟨hne, hx'⟩
    · rw [hs'_i] at ht
      by_cases hts : t = s
      · subst hts
        rw [lookup_cons_same'] at hl
        exact Or.inl ⟨rfl, rfl, (Option.some.inj hl).symm⟩
      · rw [lookup_cons_ne' hts] at hl
        rcases List.mem_cons.1 ht with h | h
        · exact absurd h hts
        · exact Or.inr ⟨inst, hi, h, hl⟩
    · rw [hs'_ne j hne] at ht
      exact Or.inr ⟨x, hx', ht, hl⟩
  refine ⟨⟨hs', ?_⟩, List.length_set, ?_⟩
  · constructor
    · exact hf_nd
    · intro x hx; exact Nat.lt_of_lt_of_le (hI.free_lt x (hf_sub x hx)) hnext
    · intro j x hx
      rcases getElem?_set_some hx with ⟨rfl, rfl⟩ | ⟨hne, hx'⟩
      · rw [hs'_i]; exact hwb_rest
      · rw [hs'_ne j hne]; exact hI.wb j x hx'
    · intro j x t hx ht
      rcases getElem?_set_some hx with ⟨rfl, rfl⟩ | ⟨hne, hx'⟩
      · rw [hs'_i] at ht
        by_cases hts : t = s
        · subst hts; exact ⟨b, lookup_cons_same'⟩
        · rcases List.mem_cons.1 ht with h | h
          · exact absurd h hts
          · obtain ⟨c, hc⟩ := hI.total j inst t hi h
            exact ⟨c, by simp only [lookup_cons_ne' hts]; exact hc⟩
      · rw [hs'_ne j hne] at ht
        exact hI.total j x t hx' ht
    · intro j t c ho
      rcases hchar j t c ho with ⟨_, _, rfl⟩ | h
      · exact hb_lt
      · exact Nat.lt_of_lt_of_le (hI.own_lt j t c h) hnext
    · intro j t c ho
      rcases hchar j t c ho with ⟨_, _, rfl⟩ | h
      · exact hb_nf
      · exact fun hm => hI.own_nfree j t c h (hf_sub c hm)
    · intro j1 j2 t1 t2 c ho1 ho2
      rcases hchar j1 t1 c ho1 with ⟨rfl, rfl, rfl⟩ | h1
      · rcases hchar j2 t2 c ho2 with ⟨rfl, rfl, _⟩ | h2
        · exact ⟨rfl, rfl⟩
        · exact absurd h2 (hb_new _ _)
      · rcases hchar j2 t2 c ho2 with ⟨_, _, rfl⟩ | h2
        · exact absurd h1 (hb_new _ _)
        · exact hI.own_inj j1 j2 t1 t2 c h1 h2
  · intro j instj hj
    by_cases hji : j = i
    · subst hji
      rw [hi] at hj; cases hj
      refine ⟨_, by rw [getElem?_set_of_some hi, if_pos rfl], ?_, by rw [if_pos rfl, hp]; rfl⟩
      unfold pending
      rw [hp]
      simp only [outOf]
      congr 1
      apply outOf_congr _ (s :: hs j) _ _ hwb_rest
      intro x hx
      by_cases hxs : x = s
      · subst hxs
        simp only [store, upd, lookup_cons_same', Option.getD_some, heapGet_set_same, if_true]
      · rcases List.mem_cons.1 hx with h | h
        · exact absurd h hxs
        · obtain ⟨c, hc⟩ := hI.total j inst x hi h
          have hcb : c ≠ b := fun e => hb_new j x (e ▸ ⟨inst, hi, h, hc⟩)
          simp only [store, upd, lookup_cons_ne' hxs, hc, Option.getD_some, if_neg hxs,
            heapGet_set_other _ _ _ _ hcb]
    · apply pending_other hI rfl hji hj
      intro t c ho
      have hcb : c ≠ b := fun e => hb_new j t (e ▸ ho)
      exact heapGet_set_other _ _ _ _ hcb

/-- ownership after a step that keeps every instance's slot bindings and held sets -/
theorem own_of_set {w : World} {hs} {w' : World} {i : Nat} {inst inst' : Inst}
    (hi : w.insts[i]? = some inst) (hins : w'.insts = w.insts.set i inst')
    (hsl : inst'.slots = inst.slots) {j t : Nat} {c : BufId} (ho : Own w' hs j t c) : Own w hs j t c := by
  obtain ⟨x, hx, ht, hl⟩ := ho
  rw [hins] at hx
  rcases getElem?_set_some hx with ⟨rfl, rfl⟩ | ⟨_, hx'⟩
  · exact ⟨inst, hi, ht, hsl ▸ hl⟩
  · exact ⟨x, hx', ht, hl⟩

theorem stepOK_fill {w : World} {hs} (hI : Inv w hs) {i : Nat} {inst : Inst} {s : Nat} {d : Bytes}
    {rest : List Step} {b : BufId}
    (hi : w.insts[i]? = some inst) (hp : inst.prog = .fill s d :: rest) (hb : inst.slots.lookup s = some b) :
    StepOK w i { heap := heapSet w.heap b d, free := w.free, next := w.next, insts := w.insts.set i { prog := rest, slots := inst.slots, out := inst.out } } := by
  have hwb := hI.wb i inst hi
  rw [hp] at hwb
  simp only [WellBracketed, Bool.and_eq_true, contains_eq_true] at hwb
  obtain ⟨hs_held, hwb_rest⟩ := hwb
  have hown : Own w hs i s b := ⟨inst, hi, hs_held, hb⟩
  have hback : ∀ j t c, Own { heap := heapSet w.heap b d, free := w.free, next := w.next, insts := w.insts.set i { prog := rest, slots := inst.slots, out := inst.out } } hs j t c → Own w hs j t c :=
    fun j t c ho => own_of_set (inst' := { prog := rest, slots := inst.slots, out := inst.out }) hi rfl rfl ho
  refine ⟨⟨hs, ?_⟩, List.length_set, ?_⟩
  · constructor
    · exact hI.free_nodup
    · exact hI.free_lt
    · intro j x hx
      rcases getElem?_set_some hx with ⟨rfl, rfl⟩ | ⟨hne, hx'⟩
      · exact hwb_rest
      · exact hI.wb j x hx'
    · intro j x t hx ht
      rcases getElem?_set_some hx with ⟨rfl, rfl⟩ | ⟨hne, hx'⟩
      · exact hI.total j inst t hi ht
      · exact hI.total j x t hx' ht
    · intro j t c ho; exact hI.own_lt j t c (hback j t c ho)
    · intro j t c ho; exact hI.own_nfree j t c (hback j t c ho)
    · intro j1 j2 t1 t2 c ho1 ho2; exact hI.own_inj j1 j2 t1 t2 c (hback _ _ _ ho1) (hback _ _ _ ho2)
  · intro j instj hj
    by_cases hji : j = i
    · subst hji
      rw [hi] at hj; cases hj
      refine ⟨_, by rw [getElem?_set_of_some hi, if_pos rfl], ?_, by rw [if_pos rfl, hp]; rfl⟩
      unfold pending
      rw [hp]
      simp only [outOf]
      congr 1
      apply outOf_congr _ (hs j) _ _ hwb_rest
      intro x hx
      by_cases hxs : x = s
      · subst hxs
        simp only [store, upd, hb, Option.getD_some, heapGet_set_same, if_true]
      · obtain ⟨c, hc⟩ := hI.total j inst x hi hx
        have hcb : c ≠ b := fun e => hxs (hI.own_inj j j x s b (e ▸ ⟨inst, hi, hx, hc⟩) hown).2
        simp only [store, upd, hc, Option.getD_some, if_neg hxs, heapGet_set_other _ _ _ _ hcb]
    · apply pending_other hI rfl hji hj
      intro t c ho
      have hcb : c ≠ b := fun e => hji (hI.own_inj j i t s b (e ▸ ho) hown).1
      exact heapGet_set_other _ _ _ _ hcb

theorem stepOK_emit {w : World} {hs} (hI : Inv w hs) {i : Nat} {inst : Inst} {s : Nat}
    {rest : List Step} {b : BufId}
    (hi : w.insts[i]? = some inst) (hp : inst.prog = .emit s :: rest) (hb : inst.slots.lookup s = some b) :
    StepOK w i { heap := w.heap, free := w.free, next := w.next, insts := w.insts.set i { prog := rest, slots := inst.slots, out := inst.out ++ heapGet w.heap b } } := by
  have hwb := hI.wb i inst hi
  rw [hp] at hwb
  simp only [WellBracketed, Bool.and_eq_true, contains_eq_true] at hwb
  obtain ⟨hs_held, hwb_rest⟩ := hwb
  have hback : ∀ j t c, Own { heap := w.heap, free := w.free, next := w.next, insts := w.insts.set i { prog := rest, slots := inst.slots, out := inst.out ++ heapGet w.heap b } } hs j t c → Own w hs j t c :=
    fun j t c ho => own_of_set (inst' := { prog := rest, slots := inst.slots, out := inst.out ++ heapGet w.heap b }) hi rfl rfl ho
  refine ⟨⟨hs, ?_⟩, List.length_set, ?_⟩
  · constructor
    · exact hI.free_nodup
    · exact hI.free_lt
    · intro j x hx
      rcases getElem?_set_some hx with ⟨rfl, rfl⟩ | ⟨hne, hx'⟩
      · exact hwb_rest
      · exact hI.wb j x hx'
    · intro j x t hx ht
      rcases getElem?_set_some hx with ⟨rfl, rfl⟩ | ⟨hne, hx'⟩
      · exact hI.total j inst t hi ht
      · exact hI.total j x t hx' ht
    · intro j t c ho; exact hI.own_lt j t c (hback j t c ho)
    · intro j t c ho; exact hI.own_nfree j t c (hback j t c ho)
    · intro j1 j2 t1 t2 c ho1 ho2; exact hI.own_inj j1 j2 t1 t2 c (hback _ _ _ ho1) (hback _ _ _ ho2)
  · intro j instj hj
    by_cases hji : j = i
    · subst hji
      rw [hi] at hj; cases hj
      refine ⟨_, by rw [getElem?_set_of_some hi, if_pos rfl], ?_, by rw [if_pos rfl, hp]; rfl⟩
      unfold pending
      rw [hp]
      simp only [outOf, store, hb, Option.getD_some, List.append_assoc]
      rfl
    · exact pending_other hI rfl hji hj (fun _ _ _ => rfl)

theorem stepOK_put {w : World} {hs} (hI : Inv w hs) {i : Nat} {inst : Inst} {s : Nat}
    {rest : List Step} {b : BufId}
    (hi : w.insts[i]? = some inst) (hp : inst.prog = .put s :: rest) (hb : inst.slots.lookup s = some b) :
    StepOK w i { heap := w.heap, free := b :: w.free, next := w.next, insts := w.insts.set i { prog := rest, slots := inst.slots, out := inst.out } } := by
  have hwb := hI.wb i inst hi
  rw [hp] at hwb
  simp only [WellBracketed, Bool.and_eq_true, contains_eq_true] at hwb
  obtain ⟨hs_held, hwb_rest⟩ := hwb
  have hown : Own w hs i s b := ⟨inst, hi, hs_held, hb⟩
  let hs' : Nat → List Nat := fun j => if j = i then (hs i).filter (· != s) else hs j
  have hs'_i : hs' i = (hs i).filter (· != s) := by simp only [hs', if_true]
  have hs'_ne : ∀ j, j ≠ i → hs' j = hs j := fun j h => by simp only [hs', if_neg h]
  have hchar : ∀ j t c, Own { heap := w.heap, free := b :: w.free, next := w.next, insts := w.insts.set i { prog := rest, slots := inst.slots, out := inst.out } } hs' j t c →
      Own w hs j t c ∧ ¬ (j = i ∧ t = s) := by
    rintro j t c ⟨x, hx, ht, hl⟩
    rcases getElem?_set_some hx with ⟨rfl, rfl⟩ | ⟨hne, hx'⟩
    · rw [hs'_i] at ht
      have := List.mem_filter.1 ht
      refine ⟨⟨inst, hi, this.1, hl⟩, fun h => ?_⟩
      have h2 := this.2
      rw [h.2] at h2
      simp at h2
    · rw [hs'_ne j hne] at ht
      exact ⟨⟨x, hx', ht, hl⟩, fun h => hne h.1⟩
  refine ⟨⟨hs', ?_⟩, List.length_set, ?_⟩
  · constructor
    · exact List.nodup_cons.2 ⟨hI.own_nfree i s b hown, hI.free_nodup⟩
    · intro x hx
      rcases List.mem_cons.1 hx with rfl | h
      · exact hI.own_lt i s x hown
      · exact hI.free_lt x h
    · intro j x hx
      rcases getElem?_set_some hx with ⟨rfl, rfl⟩ | ⟨hne, hx'⟩
      · rw [hs'_i]; exact hwb_rest
      · rw [hs'_ne j hne]; exact hI.wb j x hx'
    · intro j x t hx ht
      rcases getElem?_set_some hx with ⟨rfl, rfl⟩ | ⟨hne, hx'⟩
      · rw [hs'_i] at ht
        exact hI.total j inst t hi (List.mem_filter.1 ht).1
      · rw [hs'_ne j hne] at ht
        exact hI.total j x t hx' ht
    · intro j t c ho; exact hI.own_lt j t c (hchar j t c ho).1
    · intro j t c ho hm
      obtain ⟨h1, h2⟩ := hchar j t c ho
      rcases List.mem_cons.1 hm with rfl | h
      · exact h2 (hI.own_inj j i t s c h1 hown)
      · exact hI.own_nfree j t c h1 h
    · intro j1 j2 t1 t2 c ho1 ho2
      exact hI.own_inj j1 j2 t1 t2 c (hchar _ _ _ ho1).1 (hchar _ _ _ ho2).1
  · intro j instj hj
    by_cases hji : j = i
    · subst hji
      rw [hi] at hj; cases hj
      refine ⟨_, by rw [getElem?_set_of_some hi, if_pos rfl], ?_, by rw [if_pos rfl, hp]; rfl⟩
      unfold pending
      rw [hp]
      simp only [outOf]
      rfl
    · exact pending_other hI rfl hji hj (fun _ _ _ => rfl)

/-- **one step of any instance** keeps the invariant and every instance's `pending` -/
theorem stepOK_step {w : World} {hs} (hI : Inv w hs) (i k : Nat) : StepOK w i (w.step i k) := by
  cases hi : w.insts[i]? with
  | none => rw [step_none hi]; exact stepOK_refl hI (fun inst h => by rw [hi] at h; cases h)
  | some inst =>
    cases hp : inst.prog with
    | nil =>
      rw [step_nil hi hp]
      exact stepOK_refl hI (fun inst' h => by rw [hi] at h; cases h; exact hp)
    | cons st rest =>
      have hwb := hI.wb i inst hi
      rw [hp] at hwb
      cases st with
      | get s =>
        by_cases hf : w.free = []
        · rw [step_get_fresh hi hp hf]
          apply stepOK_get hI hi hp (Nat.le_succ _) (Nat.lt_succ_self _)
          · rw [hf]; exact List.not_mem_nil
          · intro j t ho; exact Nat.lt_irrefl _ (hI.own_lt j t _ ho)
          · rw [hf]; exact List.nodup_nil
          · intro x hx; exact hx
        · rw [step_get_reuse hi hp hf]
          have hlen : 0 < w.free.length := List.length_pos_iff.2 hf
          have hk : k % w.free.length < w.free.length := Nat.mod_lt _ hlen
          have hget : w.free[k % w.free.length]? = some (w.free.getD (k % w.free.length) 0) := by
            rw [List.getD_eq_getElem?_getD, List.getElem?_eq_getElem hk]; rfl
          have hmem : w.free.getD (k % w.free.length) 0 ∈ w.free := List.mem_of_getElem? hget
          apply stepOK_get hI hi hp (Nat.le_refl _) (hI.free_lt _ hmem)
          · intro hm
            obtain ⟨i', hne, hi'⟩ := List.mem_eraseIdx_iff_getElem?.1 hm
            exact hne (((List.getElem?_inj hk hI.free_nodup).1 (hget.trans hi'.symm)).symm)
          · intro j t ho; exact hI.own_nfree j t _ ho hmem
          · exact hI.free_nodup.eraseIdx _
          · intro x hx; exact List.mem_of_mem_eraseIdx hx
      | fill s d =>
        simp only [WellBracketed, Bool.and_eq_true, contains_eq_true] at hwb
        obtain ⟨b, hb⟩ := hI.total i inst s hi hwb.1
        rw [step_fill hi hp hb]; exact stepOK_fill hI hi hp hb
      | emit s =>
        simp only [WellBracketed, Bool.and_eq_true, contains_eq_true] at hwb
        obtain ⟨b, hb⟩ := hI.total i inst s hi hwb.1
        rw [step_emit hi hp hb]; exact stepOK_emit hI hi hp hb
      | put s =>
        simp only [WellBracketed, Bool.and_eq_true, contains_eq_true] at hwb
        obtain ⟨b, hb⟩ := hI.total i inst s hi hwb.1
        rw [step_put hi hp hb]; exact stepOK_put hI hi hp hb

/-! ## schedules -/

/-- how many times instance `j` is scheduled -/
def turns (j : Nat) (sched : List (Nat × Nat)) : Nat := sched.countP (fun p => p.1 == j)

/-- **any schedule** keeps the invariant and every instance's `pending`; an instance's remaining
program is its original program minus one step per turn it got -/
theorem run_ok : ∀ (sched : List (Nat × Nat)) {w : World} {hs : Nat → List Nat}, Inv w hs →
    (∃ hs', Inv (w.run sched) hs') ∧ (w.run sched).insts.length = w.insts.length ∧
    ∀ j instj, w.insts[j]? = some instj →
      ∃ inst', (w.run sched).insts[j]? = some inst' ∧ pending (w.run sched) inst' = pending w instj ∧
        inst'.prog = instj.prog.drop (turns j sched)
  | [], w, hs, hI => ⟨⟨hs, hI⟩, rfl, fun j instj hj => ⟨instj, hj, rfl, rfl⟩⟩
  | (i, k) :: rest, w, hs, hI => by
    obtain ⟨⟨hs1, hI1⟩, hlen1, hstep⟩ := stepOK_step hI i k
    obtain ⟨hinv, hlen, hrest⟩ := run_ok rest hI1
    refine ⟨hinv, hlen.trans hlen1, ?_⟩
    intro j instj hj
    obtain ⟨inst1, h1, hp1, hprog1⟩ := hstep j instj hj
    obtain ⟨inst', h', hp', hprog'⟩ := hrest j inst1 h1
    refine ⟨inst', h', hp'.trans hp1, ?_⟩
    rw [hprog', hprog1]
    unfold turns
    by_cases hji : j = i
    · subst hji
      rw [if_pos rfl, List.drop_tail, List.countP_cons_of_pos (by simp)]
    · rw [if_neg hji, List.countP_cons_of_neg (by simpa using fun e => hji e.symm)]

/-- on a world where nobody holds anything, `pending` is the local semantics on any store -/
theorem pending_of_wf {w : World} (hwf : w.WF) {inst : Inst} (hm : inst ∈ w.insts) (st : Nat → Bytes) :
    pending w inst = inst.out ++ outOf inst.prog st := by
  unfold pending
  congr 1
  exact outOf_congr _ [] _ _ (hwf.wb inst hm) (fun _ h => absurd h List.not_mem_nil)

theorem turns_replicate (j n k : Nat) : turns j (List.replicate n (j, k)) = n := by
  unfold turns
  rw [List.countP_replicate]
  simp

/-- `seqOut` of a well-bracketed program is its local semantics -/
theorem seqOut_eq_outOf (prog : List Step) (hwb : WellBracketed prog [] = true) (st : Nat → Bytes) :
    seqOut prog = outOf prog st := by
  have hwf : World.WF { heap := [], free := [], next := 0, insts := [{ prog := prog }] } := by
    constructor
    · exact List.nodup_nil
    · intro b hb; exact absurd hb List.not_mem_nil
    · intro inst hm; rw [List.mem_singleton.1 hm]
    · intro inst hm; rw [List.mem_singleton.1 hm]; exact hwb
  obtain ⟨_, _, h⟩ := run_ok (List.replicate prog.length (0, 0)) hwf.inv
  obtain ⟨inst', h1, h2, h3⟩ := h 0 { prog := prog } rfl
  rw [turns_replicate] at h3
  have h3' : inst'.prog = [] := by rw [h3]; exact List.drop_of_length_le (Nat.le_refl _)
  have hout : inst'.out = outOf prog st := by
    have := h2
    rw [pending_of_wf hwf (List.mem_singleton.2 rfl) st] at this
    unfold pending at this
    rw [h3'] at this
    simpa [outOf] using this
  unfold seqOut
  simp only [List.headD_eq_head?_getD, List.head?_eq_getElem?, h1, Option.getD_some]
  exact hout

/-! ## a schedule that completes every program -/

def maxLen : List Inst → Nat
  | [] => 0
  | a :: l => max a.prog.length (maxLen l)

theorem le_maxLen : ∀ {l : List Inst} {a : Inst}, a ∈ l → a.prog.length ≤ maxLen l
  | b :: l, a, h => by
    rcases List.mem_cons.1 h with rfl | h
    · exact Nat.le_max_left _ _
    · exact Nat.le_trans (le_maxLen h) (Nat.le_max_right _ _)

/-- round robin in blocks: every listed instance gets `n` consecutive turns -/
def blocks (n : Nat) : List Nat → List (Nat × Nat)
  | [] => []
  | j :: js => List.replicate n (j, 0) ++ blocks n js

theorem turns_blocks (n : Nat) : ∀ (js : List Nat) (j : Nat), j ∈ js → n ≤ turns j (blocks n js)
  | j' :: js, j, h => by
    unfold blocks turns
    rw [List.countP_append]
    rcases List.mem_cons.1 h with rfl | h
    · have := turns_replicate j n 0
      unfold turns at this
      rw [this]; exact Nat.le_add_right _ _
    · exact Nat.le_trans (turns_blocks n js j h) (Nat.le_add_left _ _)

end PQ.Pool
