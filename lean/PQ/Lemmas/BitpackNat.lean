import PQ.Model.Bitpack
import PQ.Props.C17
/-!
# The table wrappers `pack`/`unpack` at the `Nat` level

Bridges the `BitVec 8` theorems of `PQ.C17` (about the *generated* tables) to the `List Nat`
wrappers `PQ.pack`/`PQ.unpack` the RLE model uses, and to the arithmetic specification layout
`packSpec`/`unpackSpec`.
-/
namespace PQ
open PQ.Gen

/-! ## small helpers -/

theorem list8 {α : Type} (g : List α) (h : g.length = 8) :
    ∃ a b c d e f g' h', g = [a, b, c, d, e, f, g', h'] := by
  rcases g with _ | ⟨a, _ | ⟨b, _ | ⟨c, _ | ⟨d, _ | ⟨e, _ | ⟨f, _ | ⟨g', _ | ⟨h', _ | ⟨i, t⟩⟩⟩⟩⟩⟩⟩⟩⟩ <;>
    simp at h
  exact ⟨_, _, _, _, _, _, _, _, rfl⟩

theorem width_cases (w : Nat) (hw : 1 ≤ w ∧ w ≤ 4) : w = 1 ∨ w = 2 ∨ w = 3 ∨ w = 4 := by omega

theorem bv_toNat (b : BitVec 8) : bv b.toNat = b := by
  apply BitVec.eq_of_toNat_eq
  simp [bv]

theorem bv_zero : bv 0 = 0 := rfl

theorem toNat_lt256 (b : BitVec 8) : b.toNat < 256 := b.isLt

theorem mask_toNat (a k : Nat) (hk : k ≤ 8) :
    (bv a &&& BitVec.ofNat 8 (2 ^ k - 1)).toNat = a % 2 ^ k := by
  have hlt : 2 ^ k - 1 < 2 ^ 8 := by
    have : 2 ^ k ≤ 2 ^ 8 := Nat.pow_le_pow_right (by omega) hk
    have : 0 < 2 ^ k := Nat.pow_pos (by omega)
    omega
  rw [BitVec.toNat_and, BitVec.toNat_ofNat, Nat.mod_eq_of_lt hlt, Nat.and_two_pow_sub_one_eq_mod]
  show a % 2 ^ 8 % 2 ^ k = a % 2 ^ k
  exact Nat.mod_mod_of_dvd a (Nat.pow_dvd_pow 2 hk)

theorem mask1 (a : Nat) : (bv a &&& 1#8).toNat = a % 2 := mask_toNat a 1 (by omega)
theorem mask2 (a : Nat) : (bv a &&& 3#8).toNat = a % 4 := mask_toNat a 2 (by omega)
theorem mask3 (a : Nat) : (bv a &&& 7#8).toNat = a % 8 := mask_toNat a 3 (by omega)
theorem mask4 (a : Nat) : (bv a &&& 15#8).toNat = a % 16 := mask_toNat a 4 (by omega)

/-! ## `unpack ∘ pack` masks every value to `w` bits -/

theorem unpack_pack_mod (w : Nat) (hw : 1 ≤ w ∧ w ≤ 4) (g : List Nat) (hl : g.length = 8) :
    unpack w (pack w g) = g.map (· % 2 ^ w) := by
  obtain ⟨a, b, c, d, e, f, g', h', rfl⟩ := list8 g hl
  rcases width_cases w hw with rfl | rfl | rfl | rfl
  · obtain ⟨b0, hp, hu⟩ := C17.unpack_pack1 (bv a) (bv b) (bv c) (bv d) (bv e) (bv f) (bv g') (bv h')
    simp only [pack, hp, List.map, unpack, bv_toNat, hu, mask1]
  · obtain ⟨b0, b1, hp, hu⟩ := C17.unpack_pack2 (bv a) (bv b) (bv c) (bv d) (bv e) (bv f) (bv g') (bv h')
    simp only [pack, hp, List.map, unpack, bv_toNat, hu, mask2]
  · obtain ⟨b0, b1, b2, hp, hu⟩ := C17.unpack_pack3 (bv a) (bv b) (bv c) (bv d) (bv e) (bv f) (bv g') (bv h')
    simp only [pack, hp, List.map, unpack, bv_toNat, hu, mask3]
  · obtain ⟨b0, b1, b2, b3, hp, hu⟩ := C17.unpack_pack4 (bv a) (bv b) (bv c) (bv d) (bv e) (bv f) (bv g') (bv h')
    simp only [pack, hp, List.map, unpack, bv_toNat, hu, mask4]

theorem map_mod_id (k : Nat) (g : List Nat) (hg : ∀ x ∈ g, x < k) : g.map (· % k) = g := by
  induction g with
  | nil => rfl
  | cons a t ih =>
    simp only [List.map_cons]
    rw [Nat.mod_eq_of_lt (hg a (by simp)), ih (fun x hx => hg x (by simp [hx]))]

theorem unpack_pack (w : Nat) (hw : 1 ≤ w ∧ w ≤ 4) (g : List Nat) (hl : g.length = 8)
    (hg : ∀ x ∈ g, x < 2 ^ w) : unpack w (pack w g) = g := by
  rw [unpack_pack_mod w hw g hl, map_mod_id _ g hg]

theorem pack_length (w : Nat) (hw : 1 ≤ w ∧ w ≤ 4) (g : List Nat) (hl : g.length = 8) :
    (pack w g).length = w := by
  obtain ⟨a, b, c, d, e, f, g', h', rfl⟩ := list8 g hl
  rcases width_cases w hw with rfl | rfl | rfl | rfl <;> rfl

theorem pack_lt (w : Nat) (g : List Nat) : ∀ b ∈ pack w g, b < 256 := by
  intro b hb
  unfold pack at hb
  split at hb
  all_goals first
    | (simp only [List.mem_map] at hb
       obtain ⟨x, _, rfl⟩ := hb
       exact toNat_lt256 x)
    | simp at hb

/-! ## `pack ∘ unpack = id` -/

theorem listN {α : Type} (w : Nat) (hw : 1 ≤ w ∧ w ≤ 4) (bs : List α) (hl : bs.length = w) :
    (w = 1 ∧ ∃ a, bs = [a]) ∨ (w = 2 ∧ ∃ a b, bs = [a, b]) ∨ (w = 3 ∧ ∃ a b c, bs = [a, b, c])
      ∨ (w = 4 ∧ ∃ a b c d, bs = [a, b, c, d]) := by
  rcases bs with _ | ⟨a, _ | ⟨b, _ | ⟨c, _ | ⟨d, _ | ⟨e, t⟩⟩⟩⟩⟩ <;> simp at hl
  · omega
  · exact Or.inl ⟨hl.symm, _, rfl⟩
  · exact Or.inr (Or.inl ⟨hl.symm, _, _, rfl⟩)
  · exact Or.inr (Or.inr (Or.inl ⟨hl.symm, _, _, _, rfl⟩))
  · exact Or.inr (Or.inr (Or.inr ⟨hl.symm, _, _, _, _, rfl⟩))
  · omega

theorem toNat_bv (a : Nat) (h : a < 256) : (bv a).toNat = a := by
  simp only [bv, BitVec.toNat_ofNat]
  exact Nat.mod_eq_of_lt h

theorem unpack_length (w : Nat) (hw : 1 ≤ w ∧ w ≤ 4) (bs : Bytes) (hl : bs.length = w) :
    (unpack w bs).length = 8 := by
  rcases listN w hw bs hl with ⟨rfl, a, rfl⟩ | ⟨rfl, a, b, rfl⟩ | ⟨rfl, a, b, c, rfl⟩ | ⟨rfl, a, b, c, d, rfl⟩ <;> rfl

theorem pack_unpack (w : Nat) (hw : 1 ≤ w ∧ w ≤ 4) (bs : Bytes) (hl : bs.length = w)
    (hb : ∀ b ∈ bs, b < 256) : pack w (unpack w bs) = bs := by
  rcases listN w hw bs hl with ⟨rfl, a, rfl⟩ | ⟨rfl, a, b, rfl⟩ | ⟨rfl, a, b, c, rfl⟩ | ⟨rfl, a, b, c, d, rfl⟩
  · obtain ⟨v0, v1, v2, v3, v4, v5, v6, v7, hu, hp⟩ := C17.pack_unpack1 (bv a)
    simp only [unpack, hu, List.map, pack, bv_toNat, hp]
    rw [toNat_bv a (hb a (by simp))]
  · obtain ⟨v0, v1, v2, v3, v4, v5, v6, v7, hu, hp⟩ := C17.pack_unpack2 (bv a) (bv b)
    simp only [unpack, hu, List.map, pack, bv_toNat, hp]
    rw [toNat_bv a (hb a (by simp)), toNat_bv b (hb b (by simp))]
  · obtain ⟨v0, v1, v2, v3, v4, v5, v6, v7, hu, hp⟩ := C17.pack_unpack3 (bv a) (bv b) (bv c)
    simp only [unpack, hu, List.map, pack, bv_toNat, hp]
    rw [toNat_bv a (hb a (by simp)), toNat_bv b (hb b (by simp)), toNat_bv c (hb c (by simp))]
  · obtain ⟨v0, v1, v2, v3, v4, v5, v6, v7, hu, hp⟩ := C17.pack_unpack4 (bv a) (bv b) (bv c) (bv d)
    simp only [unpack, hu, List.map, pack, bv_toNat, hp]
    rw [toNat_bv a (hb a (by simp)), toNat_bv b (hb b (by simp)), toNat_bv c (hb c (by simp)),
      toNat_bv d (hb d (by simp))]

theorem unpack_lt (w : Nat) (hw : 1 ≤ w ∧ w ≤ 4) (bs : Bytes) (hl : bs.length = w)
    (hb : ∀ b ∈ bs, b < 256) : ∀ x ∈ unpack w bs, x < 2 ^ w := by
  have h := unpack_pack_mod w hw (unpack w bs) (unpack_length w hw bs hl)
  rw [pack_unpack w hw bs hl hb] at h
  intro x hx
  rw [h] at hx
  obtain ⟨y, _, rfl⟩ := List.mem_map.mp hx
  exact Nat.mod_lt _ (Nat.pow_pos (by omega))

/-! ## the arithmetic specification layout -/

theorem leBytes_length (k x : Nat) : (leBytes k x).length = k := by
  induction k generalizing x with
  | zero => rfl
  | succ k ih => simp [leBytes, ih]

theorem leBytes_lt (k x : Nat) : ∀ b ∈ leBytes k x, b < 256 := by
  induction k generalizing x with
  | zero => intro b hb; simp [leBytes] at hb
  | succ k ih =>
    intro b hb
    simp only [leBytes, List.mem_cons] at hb
    rcases hb with rfl | hb
    · omega
    · exact ih _ b hb

theorem fromLE_leBytes (k x : Nat) (h : x < 256 ^ k) : fromLE (leBytes k x) = x := by
  induction k generalizing x with
  | zero => simp at h; simp [leBytes, fromLE, h]
  | succ k ih =>
    simp only [leBytes, fromLE]
    have : x / 256 < 256 ^ k := by
      rw [Nat.pow_succ] at h
      exact Nat.div_lt_of_lt_mul (by rw [Nat.mul_comm]; exact h)
    rw [ih _ this]; omega

theorem packNum_lt (w : Nat) (g : List Nat) : packNum w g < (2 ^ w) ^ g.length := by
  induction g with
  | nil => simp [packNum]
  | cons v vs ih =>
    simp only [packNum, List.length_cons, Nat.pow_succ]
    have h1 : v % 2 ^ w < 2 ^ w := Nat.mod_lt _ (Nat.pow_pos (by omega))
    have h2 : 0 < 2 ^ w := Nat.pow_pos (by omega)
    calc v % 2 ^ w + 2 ^ w * packNum w vs < 2 ^ w + 2 ^ w * packNum w vs := by omega
      _ = 2 ^ w * (packNum w vs + 1) := by rw [Nat.mul_add]; omega
      _ ≤ 2 ^ w * (2 ^ w) ^ vs.length := Nat.mul_le_mul_left _ ih
      _ = (2 ^ w) ^ vs.length * 2 ^ w := Nat.mul_comm _ _

theorem unpackNum_packNum (w : Nat) (g : List Nat) :
    unpackNum w g.length (packNum w g) = g.map (· % 2 ^ w) := by
  induction g with
  | nil => rfl
  | cons v vs ih =>
    have h2 : 0 < 2 ^ w := Nat.pow_pos (by omega)
    have hv : v % 2 ^ w < 2 ^ w := Nat.mod_lt _ h2
    simp only [List.length_cons, unpackNum, packNum, List.map_cons]
    have e1 : (v % 2 ^ w + 2 ^ w * packNum w vs) % 2 ^ w = v % 2 ^ w := by
      rw [Nat.add_mul_mod_self_left]; exact Nat.mod_eq_of_lt hv
    have e2 : (v % 2 ^ w + 2 ^ w * packNum w vs) / 2 ^ w = packNum w vs := by
      rw [Nat.add_mul_div_left _ _ h2, Nat.div_eq_of_lt hv]; simp
    rw [e1, e2, ih]

/-- the specification layout is invertible (values are masked to `w` bits) -/
theorem unpackSpec_packSpec_mod (w : Nat) (g : List Nat) (hl : g.length = 8) :
    unpackSpec w (packSpec w g) = g.map (· % 2 ^ w) := by
  unfold unpackSpec packSpec
  have hlt : packNum w g < 256 ^ w := by
    have := packNum_lt w g
    rw [hl] at this
    have e : (2 ^ w) ^ 8 = 256 ^ w := by
      rw [← Nat.pow_mul, Nat.mul_comm, Nat.pow_mul]
    rw [e] at this; exact this
  rw [fromLE_leBytes _ _ hlt, ← hl]
  exact unpackNum_packNum w g

theorem unpackSpec_packSpec (w : Nat) (g : List Nat) (hl : g.length = 8) (hg : ∀ x ∈ g, x < 2 ^ w) :
    unpackSpec w (packSpec w g) = g := by
  rw [unpackSpec_packSpec_mod w g hl, map_mod_id _ g hg]

/-! ### bit-level description of both layouts -/

theorem testBit_packNum (w : Nat) (hw : 0 < w) (g : List Nat) (k : Nat) :
    (packNum w g).testBit k = (g.getD (k / w) 0).testBit (k % w) := by
  induction g generalizing k with
  | nil => simp [packNum]
  | cons v vs ih =>
    have h2 : 0 < 2 ^ w := Nat.pow_pos (by omega)
    have hv : v % 2 ^ w < 2 ^ w := Nat.mod_lt _ h2
    simp only [packNum]
    rw [Nat.add_comm, Nat.testBit_two_pow_mul_add _ hv]
    by_cases hk : k < w
    · rw [if_pos hk, Nat.testBit_mod_two_pow, Nat.div_eq_of_lt hk, Nat.mod_eq_of_lt hk]
      simp [hk]
    · rw [if_neg hk, ih]
      have hkw : w ≤ k := by omega
      rw [Nat.div_eq_sub_div hw hkw, Nat.mod_eq_sub_mod hkw]
      simp

theorem testBit_leBytes (n x j i : Nat) (hj : j < n) (hi : i < 8) :
    ((leBytes n x).getD j 0).testBit i = x.testBit (8 * j + i) := by
  induction n generalizing x j with
  | zero => omega
  | succ n ih =>
    simp only [leBytes]
    cases j with
    | zero =>
      simp only [List.getD_cons_zero, Nat.mul_zero, Nat.zero_add]
      have : (256 : Nat) = 2 ^ 8 := by decide
      rw [this, Nat.testBit_mod_two_pow]
      simp [hi]
    | succ j =>
      simp only [List.getD_cons_succ]
      rw [ih (x / 256) j (by omega)]
      have : (256 : Nat) = 2 ^ 8 := by decide
      rw [this, Nat.testBit_div_two_pow]
      congr 1
      omega

theorem byte_ext (x y : Nat) (hx : x < 256) (hy : y < 256)
    (h : ∀ i, i < 8 → x.testBit i = y.testBit i) : x = y := by
  apply Nat.eq_of_testBit_eq
  intro i
  by_cases hi : i < 8
  · exact h i hi
  · have hp : (256 : Nat) ≤ 2 ^ i := by
      have : 2 ^ 8 ≤ 2 ^ i := Nat.pow_le_pow_right (by omega) (by omega)
      omega
    rw [Nat.testBit_lt_two_pow (by omega), Nat.testBit_lt_two_pow (by omega)]

theorem bytes_ext (l1 l2 : List Nat) (hlen : l1.length = l2.length)
    (h1 : ∀ b ∈ l1, b < 256) (h2 : ∀ b ∈ l2, b < 256)
    (h : ∀ j, j < l1.length → ∀ i, i < 8 → (l1.getD j 0).testBit i = (l2.getD j 0).testBit i) :
    l1 = l2 := by
  induction l1 generalizing l2 with
  | nil =>
    cases l2 with
    | nil => rfl
    | cons b t => simp at hlen
  | cons a t ih =>
    cases l2 with
    | nil => simp at hlen
    | cons b t2 =>
      have hab : a = b := byte_ext a b (h1 a (by simp)) (h2 b (by simp)) (fun i hi => by
        have := h 0 (by simp) i hi
        simpa using this)
      have htt : t = t2 := ih t2 (by simpa using hlen) (fun x hx => h1 x (by simp [hx]))
        (fun x hx => h2 x (by simp [hx])) (fun j hj i hi => by
          have := h (j + 1) (by simp only [List.length_cons]; omega) i hi
          simpa using this)
      rw [hab, htt]

theorem getD_map' {α β : Type} (f : α → β) (l : List α) (j : Nat) (d : α) :
    (l.map f).getD j (f d) = f (l.getD j d) := by
  induction l generalizing j with
  | nil => simp
  | cons a t ih =>
    cases j with
    | zero => simp
    | succ j => simp

/-- a byte list whose stream bits follow the specification layout *is* `packSpec` -/
theorem eq_packSpec_of_bits (w : Nat) (hw : 1 ≤ w ∧ w ≤ 8) (g : List Nat) (bytes : List (BitVec 8))
    (hl : bytes.length = w)
    (hs : ∀ k, k < 8 * w → C17.streamBit bytes k = C17.specBit w (g.map bv) k) :
    bytes.map BitVec.toNat = packSpec w g := by
  unfold packSpec
  apply bytes_ext
  · rw [List.length_map, hl, leBytes_length]
  · intro b hb
    obtain ⟨x, _, rfl⟩ := List.mem_map.mp hb
    exact toNat_lt256 x
  · exact leBytes_lt _ _
  · intro j hj i hi
    rw [List.length_map, hl] at hj
    rw [testBit_leBytes w _ j i hj hi, testBit_packNum w (by omega)]
    have e0 : (0 : Nat) = (0 : BitVec 8).toNat := rfl
    rw [e0, getD_map' BitVec.toNat bytes j 0, BitVec.testBit_toNat]
    have hk : 8 * j + i < 8 * w := by omega
    have hsb := hs (8 * j + i) hk
    unfold C17.streamBit C17.specBit at hsb
    have d8 : (8 * j + i) / 8 = j := by omega
    have m8 : (8 * j + i) % 8 = i := by omega
    rw [d8, m8] at hsb
    rw [hsb]
    have e1 : (0 : BitVec 8) = bv 0 := rfl
    rw [e1, getD_map' bv g _ 0]
    simp only [bv, BitVec.getLsbD_ofNat]
    have : (8 * j + i) % w < 8 := by
      have := Nat.mod_lt (8 * j + i) (show 0 < w by omega)
      omega
    simp [this]

/-- the generated tables compute the specification's LSB-first little-endian layout
(no range hypothesis needed: both sides mask every value to `w` bits) -/
theorem pack_eq_packSpec' (w : Nat) (hw : 1 ≤ w ∧ w ≤ 4) (g : List Nat) (hl : g.length = 8) :
    pack w g = packSpec w g := by
  obtain ⟨a, b, c, d, e, f, g', h', rfl⟩ := list8 g hl
  rcases width_cases w hw with rfl | rfl | rfl | rfl
  · exact eq_packSpec_of_bits 1 (by omega) _ _ rfl
      (C17.pack_spec1 (bv a) (bv b) (bv c) (bv d) (bv e) (bv f) (bv g') (bv h'))
  · exact eq_packSpec_of_bits 2 (by omega) _ _ rfl
      (C17.pack_spec2 (bv a) (bv b) (bv c) (bv d) (bv e) (bv f) (bv g') (bv h'))
  · exact eq_packSpec_of_bits 3 (by omega) _ _ rfl
      (C17.pack_spec3 (bv a) (bv b) (bv c) (bv d) (bv e) (bv f) (bv g') (bv h'))
  · exact eq_packSpec_of_bits 4 (by omega) _ _ rfl
      (C17.pack_spec4 (bv a) (bv b) (bv c) (bv d) (bv e) (bv f) (bv g') (bv h'))

theorem pack_eq_packSpec (w : Nat) (hw : 1 ≤ w ∧ w ≤ 4) (g : List Nat) (hl : g.length = 8)
    (_hg : ∀ x ∈ g, x < 256) : pack w g = packSpec w g := pack_eq_packSpec' w hw g hl

theorem unpack_eq_unpackSpec (w : Nat) (hw : 1 ≤ w ∧ w ≤ 4) (bs : Bytes) (hl : bs.length = w)
    (hb : ∀ b ∈ bs, b < 256) : unpack w bs = unpackSpec w bs := by
  have h8 := unpack_length w hw bs hl
  have hp := pack_unpack w hw bs hl hb
  rw [pack_eq_packSpec' w hw _ h8] at hp
  have := unpackSpec_packSpec w (unpack w bs) h8 (unpack_lt w hw bs hl hb)
  rw [hp] at this
  exact this.symm

theorem unpackSpec_pack (w : Nat) (hw : 1 ≤ w ∧ w ≤ 4) (g : List Nat) (hl : g.length = 8)
    (hg : ∀ x ∈ g, x < 2 ^ w) : unpackSpec w (pack w g) = g := by
  rw [pack_eq_packSpec' w hw g hl, unpackSpec_packSpec w g hl hg]

end PQ
