import PQ.Model.Fault
import PQ.Lemmas.ForeignMut
/-!
# C10: the reader over a source that starts failing, on every file of the spec writer

`outLoopF` / `readOutcomeF` are `outLoop` / `readOutcome` (ForeignMut.lean) over `RState.nextF` / `openReaderF`
(Model/Fault.lean): the source fails during the source-touching API call number `k`.
`readOutcomeF_specWrite`: exactly the records of the row groups before the failing load are delivered.
-/
namespace PQ
open PQ.Thrift

/-- `outLoop` (ForeignMut.lean) over a source that fails during the source-touching call number `k` -/
def outLoopF : Nat → RState → Nat → List Row → Outcome
  | 0, st, _, acc => if st.err then .refused acc else .accepted acc
  | fuel+1, st, k, acc =>
    match st.nextF k with
    | (.error _, _) => .panicked
    | (.ok (false, st), _) => if st.err then .refused acc else .accepted acc
    | (.ok (true, st), k) =>
      if st.err then outLoopF fuel st k acc else
      if !st.fieldsSet ∧ !st.cols.isEmpty then .panicked else
      match scanAllEntries st.cols st.bufs with
      | none => .panicked
      | some (row, bufs) => outLoopF fuel { st with bufs := bufs } k (acc ++ [row])

def readOutcomeF (cols : List Col) (dc : Decomp) (file : Bytes) (k : Nat) : Outcome :=
  match openReaderF cols dc file k with
  | (.error .err, _) => .refusedAtOpen
  | (.error .panic, _) => .panicked
  | (.ok st, k) => outLoopF (st.rows + 3).toNat st k []

/-! ## the fault-injecting `Next` -/

theorem nextF_inside (st : RState) (k : Nat) (h : st.touches = false) : st.nextF k = (st.next, k) := by
  simp only [RState.nextF, h, Bool.false_eq_true, if_false]

theorem nextF_fault (st : RState) (h : st.touches = true) : st.nextF 0 = (.ok (false, { st with err := true }), 0) := by
  simp only [RState.nextF, h, if_true]

theorem nextF_succ (st : RState) (k : Nat) (h : st.touches = true) : st.nextF (k + 1) = (st.next, k) := by
  simp only [RState.nextF, h, if_true]

theorem touches_inside (st : RState) (h : st.rgCursor < st.rgCount) : st.touches = false := by
  unfold RState.touches
  have : decide (st.rgCursor ≥ st.rgCount) = false := by simp only [decide_eq_false_iff_not]; omega
  rw [this]
  simp

theorem touches_boundary (st : RState) (h1 : st.err = false) (h2 : st.cursor < st.rows) (h3 : st.rgCursor ≥ st.rgCount)
    (h4 : st.rowGroups ≠ []) : st.touches = true := by
  unfold RState.touches
  have a : decide (st.rgCursor ≥ st.rgCount) = true := by simp only [decide_eq_true_eq]; omega
  have b : decide (st.cursor ≥ st.rows) = false := by simp only [decide_eq_false_iff_not]; omega
  have c : st.rowGroups.isEmpty = false := by
    cases h : st.rowGroups with
    | nil => exact absurd h h4
    | cons _ _ => rfl
  rw [a, b, c, h1]
  rfl

theorem outLoopF_fault_now (fuel : Nat) (st : RState) (acc : List Row) (h : st.touches = true) :
    outLoopF (fuel + 1) st 0 acc = .refused acc := by
  rw [outLoopF, nextF_fault st h]
  simp

theorem openReaderF_succ (cols : List Col) (dc : Decomp) (file : Bytes) (k : Nat) :
    openReaderF cols dc file (k + 1) = (openReader cols dc file, k) := rfl

theorem readOutcomeF_open (cols : List Col) (dc : Decomp) (file : Bytes) : readOutcomeF cols dc file 0 = .refusedAtOpen := by
  simp only [readOutcomeF, openReaderF]

theorem outLoopF_step (fuel : Nat) (st st' : RState) (k k' : Nat) (acc : List Row) (row : Row) (bufs : List ColBuf)
    (hn : st.nextF k = (.ok (true, st'), k')) (he : st'.err = false) (hf : st'.fieldsSet = true)
    (hs : scanAllEntries st'.cols st'.bufs = some (row, bufs)) :
    outLoopF (fuel + 1) st k acc = outLoopF fuel { st' with bufs := bufs } k' (acc ++ [row]) := by
  rw [outLoopF]
  simp only [hn, he, hf, hs, Bool.false_eq_true, if_false, Bool.not_true, false_and]

/-! ## the loop: good row groups, then the injected failure -/

/-- **The `Next`/`Scan` loop over a source that fails at the load number `gsB.length + 1` from here.**
`rs`: the records of the loaded row group not yet delivered; `gsB`: the row groups (in order, each holding
records) whose loads still succeed; `T`: the row groups after them, the first load of which fails (`T ≠ []` and
the cursor has not reached `Rows()` then, so that `Next` does touch the source).  The records of `rs` and `gsB`
are delivered, then `Next` is false with the error set. -/
theorem outLoopF_good_then_fault (dc : Decomp) (cols : List Col) (hres : ColsResolve cols) (N : Int) (post : Bytes)
    (T : List GRG) (hT : ∀ g ∈ T, g.chunks.map (·.col) = cols) (hTne : T ≠ []) :
    ∀ (fuel : Nat) (gsB : List GRG), (∀ g ∈ gsB, g.OK dc cols) → (∀ g ∈ gsB, g.recs ≠ []) →
    ∀ (rs : List Rec), (∀ r ∈ rs, ∀ x ∈ cols.zipIdx, RecRd x.1 (r.getD x.2 [])) →
    ∀ (pre : Bytes) (cu rc rn : Int) (acc : List Row),
      cu + (rs.length : Nat) + ((((gsB.map (·.recs.length)).sum : Nat)) : Int) < N →
      rn = rc + (rs.length : Nat) →
      rs.length + (gsB.map (·.recs.length)).sum < fuel →
      outLoopF fuel
          { cols := cols, dc := dc, src := Src.mk (pre ++ dataOf (gsB ++ T) ++ post) pre.length,
            rows := N, cursor := cu, rgCursor := rc, rgCount := rn,
            pages := pagesForG cols.length ((gsB ++ T).map (·.chunks)),
            rowGroups := (gsB ++ T).map (·.rgm), bufs := bufsOf cols rs, err := false,
            fieldsSet := true } gsB.length acc =
        .refused (acc ++ (rs ++ gsB.flatMap (·.recs)).map (rowOf cols.length)) := by
  intro fuel
  induction fuel with
  | zero => intro _ _ _ _ _ _ _ _ _ _ _ _ hf; omega
  | succ f ih =>
    intro gsB hgs hgne rs hrs pre cu rc rn acc hN hrn hf
    cases rs with
    | cons r rs =>
      simp only [List.length_cons, Int.natCast_add, Int.natCast_one] at hN hrn hf
      have hnext := next_within { cols := cols, dc := dc, src := Src.mk (pre ++ dataOf (gsB ++ T) ++ post) pre.length, rows := N, cursor := cu, rgCursor := rc, rgCount := rn, pages := pagesForG cols.length ((gsB ++ T).map (·.chunks)), rowGroups := (gsB ++ T).map (·.rgm), bufs := bufsOf cols (r :: rs), err := false, fieldsSet := true }
        rfl (by simp only; omega) (by simp only; omega)
      have hnf := nextF_inside { cols := cols, dc := dc, src := Src.mk (pre ++ dataOf (gsB ++ T) ++ post) pre.length, rows := N, cursor := cu, rgCursor := rc, rgCount := rn, pages := pagesForG cols.length ((gsB ++ T).map (·.chunks)), rowGroups := (gsB ++ T).map (·.rgm), bufs := bufsOf cols (r :: rs), err := false, fieldsSet := true }
        gsB.length (touches_inside _ (by simp only; omega))
      rw [hnext] at hnf
      rw [outLoopF_step f _ _ _ _ acc _ _ hnf rfl rfl (scanAll_bufsOf cols r rs hrs)]
      simp only
      rw [ih gsB hgs hgne rs (fun r' hr' => hrs r' (List.mem_cons_of_mem _ hr')) pre (cu + 1) (rc + 1) rn (acc ++ [rowOf cols.length r])
        (by omega) (by omega) (by omega)]
      simp
    | nil =>
      simp only [List.length_nil, Int.natCast_zero, Int.add_zero, Nat.zero_add] at hN hrn hf
      cases gsB with
      | nil =>
        simp only [List.nil_append, List.length_nil]
        rw [outLoopF_fault_now f _ acc (touches_boundary _ rfl (by simpa using hN) (by simp only; omega)
          (by simp only [ne_eq, List.map_eq_nil_iff]; exact hTne))]
        simp
      | cons b bs =>
        have hok := hgs b List.mem_cons_self
        have hbs' : ∀ b' ∈ bs, b'.OK dc cols := fun b' hb' => hgs b' (List.mem_cons_of_mem _ hb')
        have hsh : ∀ g' ∈ bs ++ T, g'.chunks.map (·.col) = cols := by
          intro g' hg'
          rcases List.mem_append.mp hg' with h | h
          · exact (hbs' g' h).hcols
          · exact hT g' h
        have hload := readRowGroup_first' dc cols hres b (bs ++ T) hok hsh pre post N cu rc rn (bufsOf cols []) true
        have hfile2 : pre ++ dataOf (b :: (bs ++ T)) ++ post = (pre ++ gBytes b.chunks) ++ dataOf (bs ++ T) ++ post := by
          rw [dataOf_cons]; simp only [List.append_assoc]
        have hrecs := hok.hrecs
        have hbne := hgne b List.mem_cons_self
        simp only [List.map_cons, List.sum_cons, Int.natCast_add] at hN hf
        simp only [List.cons_append, List.length_cons]
        cases hbr : b.recs with
        | nil => exact absurd hbr hbne
        | cons r rs' =>
          rw [hbr] at hrecs hload hN hf
          simp only [List.length_cons, Int.natCast_add, Int.natCast_one] at hN hf
          have hnext := next_load _ _ rfl (by simp only; omega) (by simp only; omega) hload
            (by simp only [List.length_cons, Int.natCast_add, Int.natCast_one]; omega)
          have hnf := nextF_succ { cols := cols, dc := dc, src := Src.mk (pre ++ dataOf (b :: (bs ++ T)) ++ post) pre.length, rows := N, cursor := cu, rgCursor := rc, rgCount := rn, pages := pagesForG cols.length ((b :: (bs ++ T)).map (·.chunks)), rowGroups := (b :: (bs ++ T)).map (·.rgm), bufs := bufsOf cols [], err := false, fieldsSet := true }
            bs.length (touches_boundary _ rfl (by simp only; omega) (by simp only; omega) (by simp))
          rw [hnext] at hnf
          rw [outLoopF_step f _ _ _ _ acc _ _ hnf rfl rfl (scanAll_bufsOf cols r rs' hrecs)]
          simp only
          rw [hfile2]
          rw [ih bs hbs' (fun g hg => hgne g (List.mem_cons_of_mem _ hg)) rs'
            (fun r' hr' => hrecs r' (List.mem_cons_of_mem _ hr')) (pre ++ gBytes b.chunks) (cu + 1) (0 + 1)
            (((r :: rs').length : Nat) : Int) (acc ++ [rowOf cols.length r])
            (by omega)
            (by simp only [List.length_cons, Int.natCast_add, Int.natCast_one]; omega)
            (by omega)]
          simp [hbr]


/-! ## the whole read -/

/-- **The whole read over a failing source, any chunk layout**: all row groups in order; those in `gsB` (at least
one, each holding records) are loaded by the constructor and the `Next` calls that succeed, the load of the
first row group of `T` (which holds records) is the call during which the source fails. -/
theorem readOutcomeF_gen (dc : Decomp) (cols : List Col) (hres : ColsResolve cols) (gsB T : List GRG)
    (hB : ∀ g ∈ gsB, g.OK dc cols) (hBne : ∀ g ∈ gsB, g.recs ≠ []) (hB0 : gsB ≠ [])
    (hTok : ∀ g ∈ T, g.OK dc cols) (hTne : T ≠ []) (hTpos : 0 < (T.map (·.recs.length)).sum)
    (t : TVal) (f : FMD) (hf : decFMD t = some f)
    (hrg : f.rowGroups = (gsB ++ T).map (·.rgm))
    (hN : f.numRows = ((((gsB ++ T).map (·.recs.length)).sum : Nat) : Int))
    (file fenc : Bytes) (hfile : file = par1 ++ dataOf (gsB ++ T) ++ (fenc ++ le32 fenc.length ++ par1))
    (hn : fenc.length < 2 ^ 32)
    (hdec : decVal tStruct ((fenc ++ (le32 fenc.length ++ par1)).length + 2) (fenc ++ (le32 fenc.length ++ par1)) =
      some (t, le32 fenc.length ++ par1)) :
    readOutcomeF cols dc file gsB.length = .refused ((gsB.flatMap (·.recs)).map (rowOf cols.length)) := by
  have hok : ∀ g ∈ gsB ++ T, g.OK dc cols := by
    intro g hg
    rcases List.mem_append.mp hg with h | h
    · exact hB g h
    · exact hTok g h
  have hopen := openReader_gen dc cols hres ((gsB ++ T).map (·.chunks))
    (by intro g hg; obtain ⟨g', hg', rfl⟩ := List.mem_map.mp hg; exact (hok g' hg').hcols)
    t f hf (by rw [hrg]; exact rgsFor_of_ok dc cols _ hok) file (dataOf (gsB ++ T)) fenc hfile hn hdec
  rw [hrg, hN] at hopen
  generalize hpost : fenc ++ le32 fenc.length ++ par1 = post at hfile
  subst hfile
  have hp4 : par1.length = 4 := rfl
  generalize hNN : ((gsB ++ T).map (·.recs.length)).sum = NN at hopen ⊢
  cases gsB with
  | nil => exact absurd rfl hB0
  | cons b bs =>
    have hload := readRowGroup_first' dc cols hres b (bs ++ T) (hB b List.mem_cons_self)
      (fun g hg => (hok g (List.mem_cons_of_mem _ hg)).hcols) par1 post (NN : Int) 0 0 0 (List.replicate cols.length {}) false
    rw [hp4] at hload
    simp only [List.cons_append] at hload hopen ⊢
    rw [hload] at hopen
    unfold readOutcomeF
    simp only [List.length_cons]
    rw [openReaderF_succ, hopen]
    simp only
    have hfile2 : par1 ++ dataOf (b :: (bs ++ T)) ++ post = (par1 ++ gBytes b.chunks) ++ dataOf (bs ++ T) ++ post := by
      rw [dataOf_cons]; simp only [List.append_assoc]
    simp only [List.cons_append, List.map_cons, List.sum_cons, List.map_append, List.sum_append] at hNN
    have := outLoopF_good_then_fault dc cols hres (NN : Int) post T (fun g hg => (hTok g hg).hcols) hTne
      (((NN : Int) + 3).toNat) bs
      (fun b' hb' => hB b' (List.mem_cons_of_mem _ hb')) (fun b' hb' => hBne b' (List.mem_cons_of_mem _ hb'))
      b.recs (hB b List.mem_cons_self).hrecs
      (par1 ++ gBytes b.chunks) 0 0 ((b.recs.length : Nat) : Int) []
      (by rw [← hNN]; simp only [Int.natCast_add]; omega) (by simp) (by omega)
    rw [← hfile2] at this
    rw [this]
    simp

theorem sum_pos_of_mem {l : List Nat} {a : Nat} (h : a ∈ l) (ha : 0 < a) : 0 < l.sum := by
  induction l with
  | nil => simp at h
  | cons x xs ih =>
    simp only [List.sum_cons]
    rcases List.mem_cons.mp h with rfl | h
    · omega
    · have := ih h; omega

/-- a source that fails during the constructor (k = 0) or during the `Next` call that loads row group `k`:
exactly the records of the row groups before it are delivered, then `Next` is false with the error set;
never a panic, never acceptance -/
theorem readOutcomeF_specWrite (cfg : SWCfg) (compress : Nat → Bytes → Bytes) (dc : Decomp) (cs : Choices)
    (rowGroups : List (List Rec)) (k : Nat)
    (hres : ColsResolve cfg.cols)
    (hcodecs : cfg.codecs.length = cfg.cols.length ∧ ∀ c ∈ cfg.codecs, c ≤ 2)
    (hdc : ∀ raw, dc.snappy (compress 1 raw) = some raw ∧ dc.gzip (compress 2 raw) = some raw)
    (hrecs : ∀ rg ∈ rowGroups, ∀ r ∈ rg, ∀ x ∈ cfg.cols.zipIdx, RecColOK x.1 (r.getD x.2 []))
    (hdef : ∀ c ∈ cfg.cols, c.maxDef ≤ 15)
    (hlen : ∀ rg ∈ rowGroups, ∀ x ∈ cfg.cols.zipIdx, (rg.flatMap (·.getD x.2 [])).length + 8 ≤ 2 ^ 28)
    (hsize : (specWrite cfg compress none cs rowGroups).length < 2 ^ 32)
    (hne : ∀ rg ∈ rowGroups, rg ≠ [])
    (hk : k < rowGroups.length) :
    readOutcomeF cfg.cols dc (specWrite cfg compress none cs rowGroups) k =
      if k = 0 then .refusedAtOpen
      else .refused ((rowGroups.take k).flatten.map (fun r => (List.range cfg.cols.length).map fun i => r.getD i [])) := by
  by_cases hk0 : k = 0
  · subst hk0
    rw [readOutcomeF_open]
    rfl
  rw [if_neg hk0]
  obtain ⟨gs, g1, g2, g3, g4, g5⟩ := groups_spec cfg compress rowGroups 0 cs 4
  have hgl : gs.length = rowGroups.length := by rw [← g1, List.length_map]
  have hmem : ∀ g ∈ gs, g.recs ∈ rowGroups := by
    intro g hg; rw [← g1]; exact List.mem_map.mpr ⟨g, hg, rfl⟩
  have hok : ∀ g ∈ gs, g.OK dc cfg.cols := by
    intro g hg
    obtain ⟨a, b, c⟩ := g5 g hg
    exact grgOK_spec dc cfg compress hcodecs hdc hdef g a b c (hrecs _ (hmem g hg)) (hlen _ (hmem g hg))
  have hgne : ∀ g ∈ gs, g.recs ≠ [] := fun g hg => hne _ (hmem g hg)
  obtain ⟨sd, hsd⟩ := mapM_some_of_isSome decSElem (specSchema cfg.cols)
    (fun t ht => ((specSchema_ok cfg.cols).1 t ht).2.2.2)
  have hfile := specWriteLog_eq cfg compress cs rowGroups
  have hrows : (rowGroups.map List.length).sum = (gs.map (·.recs.length)).sum := by
    rw [← g1, List.map_map]; rfl
  rw [g2] at hfile
  generalize hR : (specWriteLog.groups cfg compress none rowGroups 0 cs 4).1 = rgs at hfile g3 g4
  generalize hfe : (spFooter cfg (rowGroups.map List.length).sum rgs).enc = fenc at hfile
  have hn : fenc.length < 2 ^ 32 := by
    unfold specWrite at hsize
    rw [hfile] at hsize
    simp only [List.length_append] at hsize
    omega
  have hdec := decVal_spFooter cfg (rowGroups.map List.length).sum rgs g4 (le32 fenc.length ++ par1)
    ((fenc ++ (le32 fenc.length ++ par1)).length + 2) (by rw [hfe]; simp only [List.length_append]; omega)
  rw [hfe] at hdec
  have hfmd := decFMD_spFooter cfg (rowGroups.map List.length).sum rgs sd _ hsd g3
  -- split at the failing load
  have hsplit : gs = gs.take k ++ gs.drop k := (List.take_append_drop k gs).symm
  have hBlen : (gs.take k).length = k := by rw [List.length_take]; omega
  have hTne : gs.drop k ≠ [] := by
    intro h
    have := congrArg List.length h
    simp only [List.length_drop, List.length_nil] at this
    omega
  have hTpos : 0 < ((gs.drop k).map (·.recs.length)).sum := by
    cases hd : gs.drop k with
    | nil => exact absurd hd hTne
    | cons g T' =>
      have hg : g ∈ gs := List.mem_of_mem_drop (by rw [hd]; exact List.mem_cons_self)
      have := hgne g hg
      simp only [List.map_cons, List.sum_cons]
      have : 0 < g.recs.length := List.length_pos_iff.mpr this
      omega
  rw [hsplit] at hfile hrows
  have := readOutcomeF_gen dc cfg.cols hres (gs.take k) (gs.drop k)
    (fun g hg => hok g (List.mem_of_mem_take hg)) (fun g hg => hgne g (List.mem_of_mem_take hg))
    (by intro h; have := congrArg List.length h; rw [hBlen] at this; exact hk0 this)
    (fun g hg => hok g (List.mem_of_mem_drop hg)) hTne hTpos _ _ hfmd (by rw [← hsplit]) (by simp only [hrows]) _ fenc hfile hn hdec
  rw [hBlen] at this
  unfold specWrite
  rw [this]
  have hfl : (gs.take k).flatMap (·.recs) = (rowGroups.take k).flatten := by
    rw [← g1, ← List.map_take, List.flatMap_def]
  rw [hfl]
  rfl


/-! ## Non-vacuity: two columns (snappy / gzip paths), three row groups, the source fails at the load of the third -/
section NonVacuity

private def ftCols : List Col :=
  [{ path := ["a"], reps := [.req], ty := .i32 }, { path := ["b"], reps := [.rpt], ty := .i32 }]
private def ftCfg : SWCfg := { cols := ftCols, codecs := [1, 2], withStats := true, withExtras := true, padv := 3 }
private def ftDc : Decomp := { snappy := some, gzip := some }
private def ftRec (k : Nat) : Rec :=
  [[{ rep := 0, dl := 0, val := some [k, 0, 0, 0] }],
   if k % 2 = 0 then [{ rep := 0, dl := 1, val := some [k, 0, 0, 0] }, { rep := 1, dl := 1, val := some [k, 1, 0, 0] }]
   else [{ rep := 0, dl := 0, val := none }]]
private def ftGroups : List (List Rec) := [[ftRec 1, ftRec 2], [ftRec 3], [ftRec 4]]
private def ftCs : Choices := [1, 0, 1, 1, 0, 2, 1, 5, 3, 0, 0, 1, 7, 2, 8, 1]

private theorem ft_hx : ∀ x ∈ ftCols.zipIdx, x = (⟨["a"], [.req], .i32⟩, 0) ∨ x = (⟨["b"], [.rpt], .i32⟩, 1) := by
  intro x hx; simpa [ftCols] using hx

private theorem ft_recOK (k : Nat) (hk : k < 5) : ∀ x ∈ ftCols.zipIdx, RecColOK x.1 ((ftRec k).getD x.2 []) := by
  intro x hx
  have hk' : k = 0 ∨ k = 1 ∨ k = 2 ∨ k = 3 ∨ k = 4 := by omega
  rcases ft_hx x hx with rfl | rfl <;> rcases hk' with rfl | rfl | rfl | rfl | rfl <;>
    exact ⟨⟨_, _, rfl, rfl, by simp⟩, by decide, by decide⟩

private theorem ft_groups : ∀ rg ∈ ftGroups, rg = [ftRec 1, ftRec 2] ∨ rg = [ftRec 3] ∨ rg = [ftRec 4] := by
  intro rg hrg; simpa [ftGroups] using hrg

/-- the theorem applied — all hypotheses discharged: the source fails during the `Next` call that loads the
third row group (`k = 2`); the three records of the first two row groups are delivered, then the error -/
example : readOutcomeF ftCols ftDc (specWrite ftCfg (fun _ b => b) none ftCs ftGroups) 2 =
    .refused [ftRec 1, ftRec 2, ftRec 3] := by
  have := readOutcomeF_specWrite ftCfg (fun _ b => b) ftDc ftCs ftGroups 2
    (colsResolve_of_check _ (by decide +kernel)) (by decide) (fun raw => ⟨rfl, rfl⟩)
    (by
      intro rg hrg r hr
      rcases ft_groups rg hrg with rfl | rfl | rfl
      · have hr' : r = ftRec 1 ∨ r = ftRec 2 := by simpa using hr
        rcases hr' with rfl | rfl
        · exact ft_recOK 1 (by decide)
        · exact ft_recOK 2 (by decide)
      · have hr' : r = ftRec 3 := by simpa using hr
        subst hr'; exact ft_recOK 3 (by decide)
      · have hr' : r = ftRec 4 := by simpa using hr
        subst hr'; exact ft_recOK 4 (by decide))
    (by decide)
    (by
      intro rg hrg x hx
      rcases ft_groups rg hrg with rfl | rfl | rfl <;> rcases ft_hx x hx with rfl | rfl <;> decide)
    (by decide +kernel)
    (by
      intro rg hrg
      rcases ft_groups rg hrg with rfl | rfl | rfl <;> simp)
    (by decide)
  exact this

/-- the same, and the other failing calls, by kernel evaluation of the writer and reader models alone -/
example : (readOutcomeF ftCols ftDc (specWrite ftCfg (fun _ b => b) none ftCs ftGroups) 0 == .refusedAtOpen) = true := by
  decide +kernel
example : (readOutcomeF ftCols ftDc (specWrite ftCfg (fun _ b => b) none ftCs ftGroups) 1 ==
    .refused [ftRec 1, ftRec 2]) = true := by decide +kernel
example : (readOutcomeF ftCols ftDc (specWrite ftCfg (fun _ b => b) none ftCs ftGroups) 2 ==
    .refused [ftRec 1, ftRec 2, ftRec 3]) = true := by decide +kernel
/-- no failing call left within the file (`k = 3` = number of row groups): the read is accepted -/
example : (readOutcomeF ftCols ftDc (specWrite ftCfg (fun _ b => b) none ftCs ftGroups) 3 ==
    .accepted [ftRec 1, ftRec 2, ftRec 3, ftRec 4]) = true := by decide +kernel

end NonVacuity

end PQ
