import PQ.Model.ParseStruct
import PQ.Model.Structs
import PQ.Lemmas.SchemaTree
/-!
# Lemmas about `parse.Fields` (`PQ.Parse`) and `structs.Struct` (`PQ.Structs`) — for C14, C15

* direct fields: `gfl`, `gf1` (what one declaration contributes), excluded declarations contribute nothing;
* `getChildren_congr`: `getChildren` sees declarations only through `name` and `getFields`;
* `Ranked` (acyclic with a depth bound), `getChildren_stable` (fuel independence),
  `embed_getChildren` (embedding = inlining, fuel explicit);
* `splitOn_spec`: `String.splitOn` refines the list-level `splitSpec`; `parseTag_eq`, `parseTag_spec`;
* the regenerated struct: `getStruct_forest`, `regen_getChildren`.
-/
namespace PQ.Parse


/-- direct children contributed by a list of field declarations -/
def gfl (priv : String → Bool) (fs : List FieldDecl) : List Field := getFields priv { name := "", fields := fs }

theorem getFields_eq_gfl (priv : String → Bool) (d : TypeDecl) : getFields priv d = gfl priv d.fields := rfl

theorem gfl_append (priv : String → Bool) (a b : List FieldDecl) : gfl priv (a ++ b) = gfl priv a ++ gfl priv b := by
  unfold gfl getFields; exact List.flatMap_append

theorem gfl_nil (priv : String → Bool) : gfl priv [] = [] := rfl

/-- what one field declaration contributes -/
def gf1 (priv : String → Bool) (f : FieldDecl) : List Field := gfl priv [f]

theorem gfl_cons (priv : String → Bool) (f : FieldDecl) (fs : List FieldDecl) : gfl priv (f :: fs) = gf1 priv f ++ gfl priv fs := by
  rw [show f :: fs = [f] ++ fs from rfl, gfl_append]; rfl

theorem gf1_private (priv : String → Bool) (x : FieldDecl) (n : String) (hn : x.names = [n]) (hp : priv n = true) :
    gf1 priv x = [] := by
  simp [gf1, gfl, getFields, hn, hp]

theorem gf1_private_embedded (priv : String → Bool) (x : FieldDecl) (hn : x.names = []) (hp : priv (printed x.ty) = true) :
    gf1 priv x = [] := by
  simp [gf1, gfl, getFields, hn, hp]

/-- a declaration with names (one or several) contributes one field per name that is neither private
nor skipped -/
theorem gf1_names (priv : String → Bool) (x : FieldDecl) (hn : x.names ≠ []) :
    gf1 priv x = x.names.filterMap fun n =>
      if priv n then none else if (getField n x).2 then none else some (getField n x).1 := by
  match h : x.names with
  | [] => exact absurd h hn
  | a :: l => simp [gf1, gfl, getFields, h]

theorem getField_skip_dash (n : String) (x : FieldDecl) (t : String) (ht : x.tag = some t) (hd : parseTag t = "-") :
    (getField n x).2 = true := by
  simp [getField, ht, hd]

theorem gf1_single (priv : String → Bool) (x : FieldDecl) (n : String) (hn : x.names = [n]) :
    gf1 priv x = if priv n then [] else if (getField n x).2 then [] else [(getField n x).1] := by
  simp only [gf1, gfl, getFields, hn, List.flatMap_cons, List.flatMap_nil, List.filterMap_cons, List.filterMap_nil, List.append_nil]
  by_cases h1 : priv n = true
  · simp [h1]
  · by_cases h2 : (getField n x).2 = true <;> simp [h1, h2]

theorem gf1_embedded (priv : String → Bool) (x : FieldDecl) (hn : x.names = []) :
    gf1 priv x = if priv (printed x.ty) then [] else if (getField (printed x.ty) x).2 then []
      else [{ (getField (printed x.ty) x).1 with embedded := true }] := by
  simp only [gf1, gfl, getFields, hn, List.flatMap_cons, List.flatMap_nil, List.append_nil]

theorem gf1_dash (priv : String → Bool) (x : FieldDecl) (t : String) (ht : x.tag = some t) (hd : parseTag t = "-") :
    gf1 priv x = [] := by
  have h1 : ∀ n, (getField n x).2 = true := fun n => getField_skip_dash n x t ht hd
  match h : x.names with
  | [] => rw [gf1_embedded priv x h, h1]; simp
  | a :: l => rw [gf1_names priv x (by simp [h])]; simp [h1]

theorem gfl_insert (priv : String → Bool) (x : FieldDecl) (hx : gf1 priv x = []) (a b : List FieldDecl) :
    gfl priv (a ++ x :: b) = gfl priv (a ++ b) := by
  rw [gfl_append, gfl_cons, hx, gfl_append]; rfl

theorem insertIdx_eq (α) (l : List α) (x : α) : ∀ (pos : Nat), l.insertIdx pos x = l ∨ ∃ a b, l = a ++ b ∧ l.insertIdx pos x = a ++ x :: b := by
  induction l with
  | nil =>
    intro pos
    cases pos with
    | zero => right; exact ⟨[], [], rfl, by simp⟩
    | succ p => left; simp
  | cons c l ih =>
    intro pos
    cases pos with
    | zero => right; exact ⟨[], c :: l, rfl, by simp⟩
    | succ p =>
      rcases ih p with h | ⟨a, b, h1, h2⟩
      · left; simp [h]
      · right; exact ⟨c :: a, b, by simp [h1], by simp [h2]⟩

theorem flatMap_congr' {α β} {f g : α → List β} : ∀ {l : List α}, (∀ x ∈ l, f x = g x) → l.flatMap f = l.flatMap g
  | [], _ => rfl
  | a :: l, h => by
    rw [List.flatMap_cons, List.flatMap_cons, h a List.mem_cons_self,
      flatMap_congr' (fun x hx => h x (List.mem_cons_of_mem _ hx))]

/-- what `getChildren` does with one direct child -/
def resolve (priv : String → Bool) (decls : List TypeDecl) (fuel : Nat) (child : Field) : List Field :=
  if primitives.contains child.ty then [child]
  else if (decls.find? (·.name = child.ty)).isSome then
    (if child.embedded then getChildren priv decls fuel child.ty
     else [{ child with children := getChildren priv decls fuel child.ty }])
  else []

theorem getChildren_zero (priv : String → Bool) (decls : List TypeDecl) (ty : String) : getChildren priv decls 0 ty = [] := rfl

theorem getChildren_none (priv : String → Bool) (decls : List TypeDecl) (fuel : Nat) (ty : String)
    (h : decls.find? (·.name = ty) = none) : getChildren priv decls fuel ty = [] := by
  cases fuel with
  | zero => rfl
  | succ f => rw [getChildren]; simp only [h]

theorem getChildren_some (priv : String → Bool) (decls : List TypeDecl) (fuel : Nat) (ty : String) (d : TypeDecl)
    (h : decls.find? (·.name = ty) = some d) :
    getChildren priv decls (fuel + 1) ty = (getFields priv d).flatMap (resolve priv decls fuel) := by
  rw [getChildren]; simp only [h]
  apply flatMap_congr'
  intro c _
  unfold resolve
  split
  · rfl
  · cases hf : decls.find? (·.name = c.ty) <;> simp

theorem resolve_prim (priv : String → Bool) (decls : List TypeDecl) (fuel : Nat) (c : Field)
    (h : primitives.contains c.ty = true) : resolve priv decls fuel c = [c] := by
  unfold resolve; rw [if_pos h]

theorem resolve_none (priv : String → Bool) (decls : List TypeDecl) (fuel : Nat) (c : Field)
    (h : primitives.contains c.ty = false) (hf : decls.find? (·.name = c.ty) = none) : resolve priv decls fuel c = [] := by
  unfold resolve; rw [if_neg (by rw [h]; decide), hf]; rfl

theorem resolve_some (priv : String → Bool) (decls : List TypeDecl) (fuel : Nat) (c : Field) (d : TypeDecl)
    (h : primitives.contains c.ty = false) (hf : decls.find? (·.name = c.ty) = some d) :
    resolve priv decls fuel c = if c.embedded then getChildren priv decls fuel c.ty
      else [{ c with children := getChildren priv decls fuel c.ty }] := by
  unfold resolve; rw [if_neg (by rw [h]; decide), hf]; rfl

/-! ### `getChildren` sees declarations only through their name and `getFields` -/

/-- same names, same direct fields, position by position -/
def DeclsEquiv (priv : String → Bool) : List TypeDecl → List TypeDecl → Prop
  | [], [] => True
  | a :: as, b :: bs => a.name = b.name ∧ getFields priv a = getFields priv b ∧ DeclsEquiv priv as bs
  | _, _ => False

theorem DeclsEquiv.refl (priv : String → Bool) : ∀ ds, DeclsEquiv priv ds ds
  | [] => trivial
  | _ :: ds => ⟨rfl, rfl, DeclsEquiv.refl priv ds⟩

theorem DeclsEquiv.length {priv : String → Bool} : ∀ {ds ds'}, DeclsEquiv priv ds ds' → ds.length = ds'.length
  | [], [], _ => rfl
  | _ :: as, _ :: bs, h => by simp [DeclsEquiv.length h.2.2]
  | [], _ :: _, h => h.elim
  | _ :: _, [], h => h.elim

theorem DeclsEquiv.append {priv : String → Bool} : ∀ {as as' bs bs'}, DeclsEquiv priv as as' → DeclsEquiv priv bs bs' →
    DeclsEquiv priv (as ++ bs) (as' ++ bs')
  | [], [], _, _, _, h => h
  | _ :: _, _ :: _, _, _, h, h' => ⟨h.1, h.2.1, DeclsEquiv.append h.2.2 h'⟩
  | [], _ :: _, _, _, h, _ => h.elim
  | _ :: _, [], _, _, h, _ => h.elim

theorem DeclsEquiv.find {priv : String → Bool} (t : String) : ∀ {ds ds'}, DeclsEquiv priv ds ds' →
    (ds.find? (·.name = t) = none ∧ ds'.find? (·.name = t) = none) ∨
    ∃ a b, ds.find? (·.name = t) = some a ∧ ds'.find? (·.name = t) = some b ∧ getFields priv a = getFields priv b
  | [], [], _ => Or.inl ⟨rfl, rfl⟩
  | [], _ :: _, h => h.elim
  | _ :: _, [], h => h.elim
  | a :: as, b :: bs, h => by
    by_cases hn : a.name = t
    · right; exact ⟨a, b, by simp [hn], by simp [← h.1, hn], h.2.1⟩
    · have hn' : ¬ b.name = t := by rw [← h.1]; exact hn
      simp only [List.find?_cons, hn, hn', decide_false]
      exact DeclsEquiv.find t h.2.2

theorem getChildren_congr {priv : String → Bool} {ds ds' : List TypeDecl} (h : DeclsEquiv priv ds ds') :
    ∀ (fuel : Nat) (ty : String), getChildren priv ds fuel ty = getChildren priv ds' fuel ty := by
  intro fuel
  induction fuel with
  | zero => intro ty; rfl
  | succ f ih =>
    intro ty
    rcases DeclsEquiv.find ty h with ⟨h1, h2⟩ | ⟨a, b, h1, h2, hab⟩
    · rw [getChildren_none _ _ _ _ h1, getChildren_none _ _ _ _ h2]
    · rw [getChildren_some _ _ _ _ _ h1, getChildren_some _ _ _ _ _ h2, hab]
      apply flatMap_congr'
      intro c _
      by_cases hp : primitives.contains c.ty = true
      · rw [resolve_prim _ _ _ _ hp, resolve_prim _ _ _ _ hp]
      · have hp' : primitives.contains c.ty = false := by simpa using hp
        rcases DeclsEquiv.find c.ty h with ⟨h1, h2⟩ | ⟨a', b', h1, h2, _⟩
        · rw [resolve_none _ _ _ _ hp' h1, resolve_none _ _ _ _ hp' h2]
        · rw [resolve_some _ _ _ _ _ hp' h1, resolve_some _ _ _ _ _ hp' h2, ih]

theorem parseStruct_congr {priv : String → Bool} {ds ds' : List TypeDecl} (h : DeclsEquiv priv ds ds') (typ : String) :
    parseStruct priv ds typ = parseStruct priv ds' typ := by
  unfold parseStruct; rw [h.length, getChildren_congr h]


/-! ### acyclicity, fuel -/

/-- `rank` strictly decreases from a declared struct to the declared struct types of its fields:
the declarations are acyclic and `rank t` bounds the nesting depth below `t` -/
def Ranked (priv : String → Bool) (decls : List TypeDecl) (rank : String → Nat) : Prop :=
  ∀ t d, decls.find? (·.name = t) = some d → ∀ c ∈ getFields priv d, primitives.contains c.ty = false →
    (decls.find? (·.name = c.ty)).isSome = true → rank c.ty < rank t

theorem resolve_eq_of (priv : String → Bool) (ds ds' : List TypeDecl) (g g' : Nat) (c : Field)
    (h1 : (ds'.find? (·.name = c.ty)).isSome = (ds.find? (·.name = c.ty)).isSome)
    (h2 : (ds.find? (·.name = c.ty)).isSome = true → primitives.contains c.ty = false →
      getChildren priv ds' g' c.ty = getChildren priv ds g c.ty) :
    resolve priv ds' g' c = resolve priv ds g c := by
  unfold resolve
  by_cases hp : primitives.contains c.ty = true
  · rw [if_pos hp, if_pos hp]
  · rw [if_neg hp, if_neg hp, h1]
    by_cases hf : (ds.find? (·.name = c.ty)).isSome = true
    · simp only [if_pos hf]; rw [h2 hf (by simpa using hp)]
    · simp only [if_neg hf]

/-- with an acyclic set of declarations the result does not depend on the fuel once it exceeds the depth -/
theorem getChildren_stable {priv : String → Bool} {decls : List TypeDecl} {rank : String → Nat}
    (hr : Ranked priv decls rank) : ∀ (n : Nat) (ty : String), rank ty < n → ∀ f f', rank ty < f → rank ty < f' →
    getChildren priv decls f ty = getChildren priv decls f' ty := by
  intro n
  induction n with
  | zero => intro ty h; omega
  | succ n ih =>
    intro ty hn f f' hf hf'
    obtain ⟨f0, rfl⟩ : ∃ k, f = k + 1 := ⟨f - 1, by omega⟩
    obtain ⟨f0', rfl⟩ : ∃ k, f' = k + 1 := ⟨f' - 1, by omega⟩
    cases hfd : decls.find? (·.name = ty) with
    | none => rw [getChildren_none _ _ _ _ hfd, getChildren_none _ _ _ _ hfd]
    | some d =>
      rw [getChildren_some _ _ _ _ _ hfd, getChildren_some _ _ _ _ _ hfd]
      apply flatMap_congr'
      intro c hc
      apply resolve_eq_of _ _ _ _ _ _ rfl
      intro h1 h2
      have := hr ty d hfd c hc h2 h1
      exact ih c.ty (by omega) _ _ (by omega) (by omega)

/-! ### embedding = inlining -/

section embed
variable (priv : String → Bool) (A B : List TypeDecl) (s en : String) (pre run post : List FieldDecl)

theorem find_split (d d' : TypeDecl) (hd : d.name = s) (hd' : d'.name = s) (t : String) :
    ((A ++ d :: B).find? (·.name = t) = some d ∧ (A ++ d' :: B).find? (·.name = t) = some d' ∧ t = s) ∨
    (A ++ d' :: B).find? (·.name = t) = (A ++ d :: B).find? (·.name = t) := by
  rw [List.find?_append, List.find?_append]
  cases hA : A.find? (·.name = t) with
  | some x => right; rfl
  | none =>
    by_cases ht : s = t
    · left; simp [hd, hd', ht]
    · right; simp [hd, hd', ht]

theorem find_isSome (d d' : TypeDecl) (hd : d.name = s) (hd' : d'.name = s) (t : String) :
    ((A ++ d' :: B).find? (·.name = t)).isSome = ((A ++ d :: B).find? (·.name = t)).isSome := by
  rcases find_split A B s d d' hd hd' t with ⟨h1, h2, _⟩ | h
  · rw [h1, h2]; rfl
  · rw [h]

/-- the embedded field declaration `En` -/
def embDecl (en : String) : FieldDecl := { names := [], ty := .ident en, tag := none }

theorem gf1_embDecl (hpriv : priv en = false) (hdash : en ≠ "-") :
    gf1 priv (embDecl en) = [{ name := en, col := en, ty := en, rt := .req, embedded := true }] := by
  rw [gf1_embedded priv _ rfl]
  have hp : printed (embDecl en).ty = en := rfl
  rw [hp, hpriv]
  simp [getField, embDecl, visitT, printed, hdash]

theorem embed_getChildren (rank : String → Nat)

    (hunused : ∀ x ∈ A ++ { name := s, fields := pre ++ run ++ post } :: B, ∀ c ∈ getFields priv x, c.ty ≠ en)
    (hpriv : priv en = false) (hprim : primitives.contains en = false) (hdash : en ≠ "-")
    (hr : Ranked priv (A ++ { name := s, fields := pre ++ run ++ post } :: B) rank) :
    ∀ (n : Nat) (ty : String), rank ty < n → ty ≠ en → ∀ f f', rank ty < f →
      rank ty + (if rank ty < rank s then 0 else 1) < f' →
      getChildren priv ({ name := en, fields := run } :: (A ++ { name := s, fields := pre ++ [embDecl en] ++ post } :: B)) f' ty
        = getChildren priv (A ++ { name := s, fields := pre ++ run ++ post } :: B) f ty := by
  intro n
  induction n with
  | zero => intro ty h; omega
  | succ n ih =>
    intro ty hn hne f f' hf hf'
    obtain ⟨f0, rfl⟩ : ∃ k, f = k + 1 := ⟨f - 1, by omega⟩
    obtain ⟨f0', rfl⟩ : ∃ k, f' = k + 1 := ⟨f' - 1, by omega⟩
    -- abbreviations
    generalize hd : ({ name := s, fields := pre ++ run ++ post } : TypeDecl) = d at *
    generalize hd' : ({ name := s, fields := pre ++ [embDecl en] ++ post } : TypeDecl) = d' at *
    generalize he : ({ name := en, fields := run } : TypeDecl) = e at *
    have hdn : d.name = s := by rw [← hd]
    have hdn' : d'.name = s := by rw [← hd']
    have hen : e.name = en := by rw [← he]
    have hdf : d.fields = pre ++ run ++ post := by rw [← hd]
    have hdf' : d'.fields = pre ++ [embDecl en] ++ post := by rw [← hd']
    have hef : e.fields = run := by rw [← he]
    have hskip : ∀ t, t ≠ en → (e :: (A ++ d' :: B)).find? (·.name = t) = (A ++ d' :: B).find? (·.name = t) := by
      intro t ht
      rw [List.find?_cons]
      have : decide (e.name = t) = false := by rw [hen]; simp; exact fun h => ht h.symm
      rw [this]
    have hfe : (e :: (A ++ d' :: B)).find? (·.name = en) = some e := by
      rw [List.find?_cons]; simp [hen]
    -- one child of a declaration found under `t`
    have child : ∀ (t : String) (x : TypeDecl), rank t < n + 1 → (A ++ d :: B).find? (·.name = t) = some x →
        ∀ c ∈ getFields priv x, ∀ g g', (rank c.ty < rank t → rank c.ty < g ∧ rank c.ty + (if rank c.ty < rank s then 0 else 1) < g') →
        resolve priv (e :: (A ++ d' :: B)) g' c = resolve priv (A ++ d :: B) g c := by
      intro t x ht hx c hc g g' hg
      have hxm : x ∈ A ++ d :: B := List.mem_of_find?_eq_some hx
      have hcn : c.ty ≠ en := hunused x hxm c hc
      apply resolve_eq_of
      · rw [hskip _ hcn]; exact find_isSome A B s d d' hdn hdn' c.ty
      · intro h1 h2
        have hlt := hr t x hx c hc h2 h1
        have := hg hlt
        exact ih c.ty (by omega) hcn g g' this.1 this.2
    rcases find_split A B s d d' hdn hdn' ty with ⟨h1, h2, hts⟩ | h
    · -- the struct whose fields are moved
      subst hts
      rw [getChildren_some _ _ _ _ _ h1, getChildren_some _ _ _ _ d' (by rw [hskip _ hne]; exact h2)]
      rw [getFields_eq_gfl, getFields_eq_gfl, hdf, hdf']
      simp only [gfl_append, List.flatMap_append]
      have hmem : ∀ l, (∀ c ∈ gfl priv l, c ∈ getFields priv d) →
          (gfl priv l).flatMap (resolve priv (e :: (A ++ d' :: B)) f0') = (gfl priv l).flatMap (resolve priv (A ++ d :: B) f0) := by
        intro l hl
        apply flatMap_congr'
        intro c hc
        exact child ty d hn h1 c (hl c hc) f0 f0' (fun hlt => by split at hf' <;> (split <;> omega))
      have hsub : ∀ c, c ∈ gfl priv pre ∨ c ∈ gfl priv run ∨ c ∈ gfl priv post → c ∈ getFields priv d := by
        intro c hc
        rw [getFields_eq_gfl, hdf]
        simp only [gfl_append, List.mem_append]
        rcases hc with h | h | h <;> simp [h]
      rw [hmem pre (fun c hc => hsub c (Or.inl hc)), hmem post (fun c hc => hsub c (Or.inr (Or.inr hc)))]
      congr 2
      -- the embedded field
      rw [gfl_cons, gfl_nil, List.append_nil, gf1_embDecl priv en hpriv hdash]
      simp only [List.flatMap_cons, List.flatMap_nil, List.append_nil]
      rw [resolve_some _ _ _ _ e hprim hfe]
      simp only [if_true]
      rw [if_neg (Nat.lt_irrefl _)] at hf'
      obtain ⟨f1', rfl⟩ : ∃ k, f0' = k + 1 := ⟨f0' - 1, by omega⟩
      rw [getChildren_some _ _ _ _ e hfe, getFields_eq_gfl, hef]
      apply flatMap_congr'
      intro c hc
      exact child ty d hn h1 c (hsub c (Or.inr (Or.inl hc))) f0 f1' (fun hlt => by rw [if_pos hlt]; omega)
    · cases hfd : (A ++ d :: B).find? (·.name = ty) with
      | none =>
        rw [getChildren_none _ _ _ _ hfd, getChildren_none _ _ _ _ (by rw [hskip _ hne, h]; exact hfd)]
      | some x =>
        rw [getChildren_some _ _ _ _ _ hfd, getChildren_some _ _ _ _ x (by rw [hskip _ hne, h]; exact hfd)]
        apply flatMap_congr'
        intro c hc
        exact child ty x hn hfd c hc f0 f0' (fun hlt => by split at hf' <;> (split <;> omega))
end embed

open PQ.SchemaTree


/-! ### `String.splitOn` on lists of characters -/

/-- `strings.Split`-like specification on character lists: `skip` characters of a matched separator
remain to be skipped, `cur` is the piece being accumulated -/
def splitSpec (S : List Char) : List Char → Nat → List Char → List (List Char)
  | [], _, cur => [cur]
  | _ :: rest, skip+1, cur => splitSpec S rest skip cur
  | c :: rest, 0, cur =>
    if S.isPrefixOf (c :: rest) then cur :: splitSpec S rest (S.length - 1) [] else splitSpec S rest 0 (cur ++ [c])

theorem ulen_pos_of_ne_nil : ∀ {l : List Char}, l ≠ [] → 0 < ulen l
  | c :: l, _ => by have := c.utf8Size_pos; simp [ulen]; omega

theorem get_at (s : String) (P Q : List Char) (c : Char) (hs : s.toList = P ++ c :: Q) :
    String.Pos.Raw.get s ⟨ulen P⟩ = c := by
  rw [String.Pos.Raw.get, hs]
  have := getAux_at c Q P 0
  simpa using this

theorem next_at (s : String) (P Q : List Char) (c : Char) (hs : s.toList = P ++ c :: Q) :
    String.Pos.Raw.next s ⟨ulen P⟩ = ⟨ulen (P ++ [c])⟩ := by
  rw [String.Pos.Raw.next, get_at s P Q c hs]
  simp [String.Pos.Raw.ext_iff, ulen, ulen_append]

theorem atEnd_mid (s : String) (P Q : List Char) (c : Char) (hs : s.toList = P ++ c :: Q) :
    String.Pos.Raw.atEnd s ⟨ulen P⟩ = false := by
  have hsz : s.utf8ByteSize = ulen P + (c.utf8Size + ulen Q) := by
    rw [← String.ofList_toList (s := s), utf8ByteSize_ofList', hs, ulen_append]; rfl
  have := c.utf8Size_pos
  simp [String.Pos.Raw.atEnd, hsz]; omega

theorem atEnd_end (s : String) (P : List Char) (hs : s.toList = P) :
    String.Pos.Raw.atEnd s ⟨ulen P⟩ = true := by
  have hsz : s.utf8ByteSize = ulen P := by
    rw [← String.ofList_toList (s := s), utf8ByteSize_ofList', hs]
  simp [String.Pos.Raw.atEnd, hsz]

theorem go₂_take : ∀ (M Q : List Char) (i : Nat), String.Pos.Raw.extract.go₂ (M ++ Q) ⟨i⟩ ⟨i + ulen M⟩ = M
  | [], [], i => by simp [String.Pos.Raw.extract.go₂]
  | [], c :: Q, i => by simp [String.Pos.Raw.extract.go₂, ulen]
  | c :: M, Q, i => by
    have hc := c.utf8Size_pos
    rw [List.cons_append, String.Pos.Raw.extract.go₂, if_neg (by simp [String.Pos.Raw.ext_iff, ulen]; omega)]
    have := go₂_take M Q (i + c.utf8Size)
    rw [show i + c.utf8Size + ulen M = i + ulen (c :: M) by simp [ulen]; omega] at this
    congr 1

theorem go₁_skip : ∀ (P X : List Char) (i e : Nat),
    String.Pos.Raw.extract.go₁ (P ++ X) ⟨i⟩ ⟨i + ulen P⟩ ⟨e⟩ = String.Pos.Raw.extract.go₂ X ⟨i + ulen P⟩ ⟨e⟩
  | [], [], i, e => by simp [String.Pos.Raw.extract.go₁, String.Pos.Raw.extract.go₂]
  | [], c :: X, i, e => by simp [String.Pos.Raw.extract.go₁, ulen]
  | d :: P, X, i, e => by
    have hd := d.utf8Size_pos
    rw [List.cons_append, String.Pos.Raw.extract.go₁, if_neg (by simp [String.Pos.Raw.ext_iff, ulen]; omega)]
    have := go₁_skip P X (i + d.utf8Size) e
    rw [show i + d.utf8Size + ulen P = i + ulen (d :: P) by simp [ulen]; omega] at this
    exact this

theorem extract_at (s : String) (P M Q : List Char) (hs : s.toList = P ++ M ++ Q) :
    String.Pos.Raw.extract s ⟨ulen P⟩ ⟨ulen (P ++ M)⟩ = String.ofList M := by
  rw [String.Pos.Raw.extract]
  cases M with
  | nil => simp
  | cons c M =>
    have := ulen_pos_of_ne_nil (List.cons_ne_nil c M)
    rw [if_neg (by simp [ulen_append]; omega)]
    have h1 := go₁_skip P (c :: M ++ Q) 0 (ulen (P ++ c :: M))
    have h2 := go₂_take (c :: M) Q (ulen P)
    simp only [Nat.zero_add] at h1
    rw [hs, List.append_assoc, show (0 : String.Pos.Raw) = ⟨0⟩ from rfl, h1, ulen_append, h2]


theorem splitSpec_short (S : List Char) : ∀ (X cur : List Char), X.length < S.length → splitSpec S X 0 cur = [cur ++ X]
  | [], cur, _ => by simp [splitSpec]
  | c :: X, cur, h => by
    have hp : S.isPrefixOf (c :: X) = false := by
      cases hb : S.isPrefixOf (c :: X) with
      | false => rfl
      | true => have := (List.isPrefixOf_iff_prefix.mp hb).length_le; omega
    rw [splitSpec, hp]
    simp only [Bool.false_eq_true, if_false]
    rw [splitSpec_short S X (cur ++ [c]) (by simp at h; omega)]
    simp

theorem splitSpec_skip (S : List Char) : ∀ (X R cur : List Char), splitSpec S (X ++ R) X.length cur = splitSpec S R 0 cur
  | [], R, cur => rfl
  | x :: X, R, cur => by
    rw [List.cons_append, List.length_cons, splitSpec, splitSpec_skip S X R cur]

theorem splitSpec_match (S : List Char) (hS : S ≠ []) (R cur : List Char) :
    splitSpec S (S ++ R) 0 cur = cur :: splitSpec S R 0 [] := by
  cases S with
  | nil => exact absurd rfl hS
  | cons x S' =>
    rw [List.cons_append, splitSpec]
    have : (x :: S').isPrefixOf (x :: (S' ++ R)) = true := by
      rw [List.isPrefixOf_iff_prefix]; exact ⟨R, rfl⟩
    rw [this]; simp only [if_true]
    have := splitSpec_skip (x :: S') S' R []
    simp only [List.length_cons, Nat.add_sub_cancel]
    rw [this]

theorem isPrefixOf_mismatch {c c' : Char} (h : c ≠ c') : ∀ (M S2 R : List Char),
    (M ++ c' :: S2).isPrefixOf (M ++ c :: R) = false
  | [], S2, R => by
    simp only [List.nil_append, List.isPrefixOf]
    have : (c' == c) = false := by simpa using fun e => h e.symm
    rw [this]; rfl
  | m :: M, S2, R => by
    simp only [List.cons_append, List.isPrefixOf, beq_self_eq_true, Bool.true_and]
    exact isPrefixOf_mismatch h M S2 R

theorem splitSpec_nomatch (S : List Char) (x : Char) (rest cur : List Char) (h : S.isPrefixOf (x :: rest) = false) :
    splitSpec S (x :: rest) 0 cur = splitSpec S rest 0 (cur ++ [x]) := by
  rw [splitSpec, h]; simp

theorem splitOnAux_step (s sep : String) (n : Nat)
    (IH : ∀ (Bp Cur M S2 R : List Char) (r : List String), (M ++ R).length < n → S2 ≠ [] →
      s.toList = Bp ++ Cur ++ M ++ R → sep.toList = M ++ S2 →
      String.splitOnAux s sep ⟨ulen Bp⟩ ⟨ulen (Bp ++ Cur ++ M)⟩ ⟨ulen M⟩ r =
        r.reverse ++ (splitSpec sep.toList (M ++ R) 0 Cur).map String.ofList) :
    ∀ (S2 Bp Cur M R : List Char) (r : List String), (M ++ R).length = n → S2 ≠ [] →
      s.toList = Bp ++ Cur ++ M ++ R → sep.toList = M ++ S2 →
      String.splitOnAux s sep ⟨ulen Bp⟩ ⟨ulen (Bp ++ Cur ++ M)⟩ ⟨ulen M⟩ r =
        r.reverse ++ (splitSpec sep.toList (M ++ R) 0 Cur).map String.ofList := by
  intro S2
  induction S2 with
  | nil => intro _ _ _ _ _ _ h; exact absurd rfl h
  | cons c' S2 ih2 =>
    intro Bp Cur M R r hn _ hs hsep
    cases R with
    | nil =>
      rw [List.append_nil] at hs
      rw [String.splitOnAux, if_pos (atEnd_end s _ hs)]
      have he := extract_at s Bp (Cur ++ M) [] (by rw [hs]; simp)
      rw [← List.append_assoc] at he
      rw [he, List.append_nil, splitSpec_short _ M Cur (by rw [hsep]; simp)]
      simp
    | cons c R =>
      have hunoff : ∀ X : List Char, (⟨ulen (Bp ++ Cur ++ X)⟩ : String.Pos.Raw).unoffsetBy ⟨ulen X⟩ = ⟨ulen (Bp ++ Cur)⟩ := by
        intro X; simp [String.Pos.Raw.unoffsetBy, ulen_append]; omega
      rw [String.splitOnAux, if_neg (by rw [atEnd_mid s _ R c hs]; simp)]
      rw [get_at s _ R c hs, get_at sep M S2 c' hsep]
      by_cases hc : c = c'
      · subst hc
        rw [if_pos (by simp), next_at s _ R c hs, next_at sep M S2 c hsep]
        cases S2 with
        | nil =>
          rw [if_pos (atEnd_end sep _ (by rw [hsep]))]
          have hu := hunoff (M ++ [c])
          rw [← List.append_assoc] at hu
          rw [hu, extract_at s Bp Cur (M ++ c :: R) (by rw [hs]; simp)]
          have ih := IH (Bp ++ Cur ++ M ++ [c]) [] [] sep.toList R (String.ofList Cur :: r)
            (by rw [← hn]; simp; omega) (by rw [hsep]; simp) (by rw [hs]; simp) rfl
          simp only [List.append_nil, List.nil_append, ulen] at ih
          rw [show (0 : String.Pos.Raw) = ⟨0⟩ from rfl, ih]
          have hm := splitSpec_match sep.toList (by rw [hsep]; simp) R Cur
          rw [show M ++ c :: R = sep.toList ++ R by rw [hsep]; simp, hm]
          simp
        | cons c'' S2 =>
          rw [if_neg (by rw [atEnd_mid sep (M ++ [c]) S2 c'' (by rw [hsep]; simp)]; simp)]
          have ih := ih2 Bp Cur (M ++ [c]) R r (by rw [← hn]; simp) (by simp) (by rw [hs]; simp) (by rw [hsep]; simp)
          rw [← List.append_assoc] at ih
          rw [ih]; simp
      · rw [if_neg (by simpa using hc)]
        obtain ⟨x, rest, hx⟩ : ∃ x rest, M ++ c :: R = x :: rest := by
          cases M with
          | nil => exact ⟨c, R, rfl⟩
          | cons m M => exact ⟨m, M ++ c :: R, rfl⟩
        rw [hunoff M, next_at s (Bp ++ Cur) rest x (by rw [hs, ← hx]; simp)]
        have ih := IH Bp (Cur ++ [x]) [] sep.toList rest r
          (by rw [← hn, hx]; simp) (by rw [hsep]; simp) (by rw [hs]; simp; rw [hx]) rfl
        simp only [List.append_nil, List.nil_append, ulen] at ih
        rw [← List.append_assoc] at ih
        rw [show (0 : String.Pos.Raw) = ⟨0⟩ from rfl, ih, hx,
          splitSpec_nomatch _ x rest Cur (by rw [← hx, hsep]; exact isPrefixOf_mismatch hc M S2 R)]

/-- **`String.splitOnAux` refines `splitSpec`**: in a state where `M` (a proper prefix of the
separator) has been matched after the current piece `Cur` -/
theorem splitOnAux_spec (s sep : String) : ∀ (n : Nat) (Bp Cur M S2 R : List Char) (r : List String), (M ++ R).length = n → S2 ≠ [] →
    s.toList = Bp ++ Cur ++ M ++ R → sep.toList = M ++ S2 →
    String.splitOnAux s sep ⟨ulen Bp⟩ ⟨ulen (Bp ++ Cur ++ M)⟩ ⟨ulen M⟩ r =
      r.reverse ++ (splitSpec sep.toList (M ++ R) 0 Cur).map String.ofList := by
  intro n
  induction n using Nat.strongRecOn with
  | _ n ih =>
    intro Bp Cur M S2 R r hn
    exact splitOnAux_step s sep n (fun Bp Cur M S2 R r hlt => ih _ hlt Bp Cur M S2 R r rfl) S2 Bp Cur M R r hn

/-- `String.splitOn` is `splitSpec` on the character lists -/
theorem splitOn_spec (s sep : String) (hsep : sep.toList ≠ []) :
    s.splitOn sep = (splitSpec sep.toList s.toList 0 []).map String.ofList := by
  unfold String.splitOn
  have hne : (sep == "") = false := by
    cases h : sep == "" with
    | false => rfl
    | true => rw [beq_iff_eq] at h; rw [h] at hsep; exact absurd rfl hsep
  rw [hne]
  have := splitOnAux_spec s sep _ [] [] [] sep.toList s.toList [] rfl hsep rfl rfl
  simp only [List.append_nil, List.nil_append, ulen, List.reverse_nil] at this
  exact this


def tagSep : List Char := "parquet:\"".toList

/-- `parseTag` on character lists -/
def parseTagL (L : List Char) : List Char :=
  match splitSpec tagSep L 0 [] with
  | _ :: rest :: _ => (splitSpec ['"'] rest 0 []).headD []
  | _ => []

theorem tagSep_eq : tagSep = ['p','a','r','q','u','e','t',':','"'] := by decide

theorem parseTag_eq (t : String) : parseTag t = String.ofList (parseTagL t.toList) := by
  unfold parseTag parseTagL
  rw [splitOn_spec t "parquet:\"" (by decide)]
  show (match (splitSpec tagSep t.toList 0 []).map String.ofList with
    | _ :: rest :: _ => (rest.splitOn "\"").headD ""
    | _ => "") = _
  match splitSpec tagSep t.toList 0 [] with
  | [] => rfl
  | [_] => rfl
  | _ :: rest :: _ =>
    simp only [List.map_cons]
    rw [splitOn_spec _ "\"" (by decide), String.toList_ofList, String.toList_ofList]
    show ((splitSpec ['"'] rest 0 []).map String.ofList).headD "" = _
    cases splitSpec ['"'] rest 0 [] <;> rfl

theorem splitSpec_noocc (S : List Char) : ∀ (Y Z cur : List Char),
    (∀ q, q ≠ [] → q <:+ Y → S.isPrefixOf (q ++ Z) = false) → splitSpec S (Y ++ Z) 0 cur = splitSpec S Z 0 (cur ++ Y)
  | [], Z, cur, _ => by simp
  | y :: Y, Z, cur, h => by
    rw [List.cons_append, splitSpec_nomatch S y (Y ++ Z) cur (h (y :: Y) (by simp) (List.suffix_refl _)),
      splitSpec_noocc S Y Z (cur ++ [y]) (fun q hq hs => h q hq (hs.trans (List.suffix_cons y Y)))]
    simp

theorem splitSpec_head (S : List Char) : ∀ (Z cur : List Char), ∃ w tl, splitSpec S Z 0 cur = (cur ++ w) :: tl
  | [], cur => ⟨[], [], by simp [splitSpec]⟩
  | c :: Z, cur => by
    rw [splitSpec]
    split
    · exact ⟨[], splitSpec S Z (S.length - 1) [], by simp⟩
    · obtain ⟨w, tl, h⟩ := splitSpec_head S Z (cur ++ [c])
      exact ⟨c :: w, tl, by rw [h]; simp⟩

/-- if `a ++ [x]` is a prefix of `b ++ x :: post` and `x` occurs neither in `a` nor in `b`, then `a = b` -/
theorem prefix_sep_unique {x : Char} : ∀ (a b post : List Char), x ∉ a → x ∉ b → (a ++ [x]) <+: (b ++ x :: post) → a = b
  | [], [], _, _, _, _ => rfl
  | [], y :: b, post, _, hb, h => by
    have : x = y := by
      obtain ⟨t, ht⟩ := h
      simp at ht; exact ht.1
    exact absurd (this ▸ List.mem_cons_self) hb
  | y :: a, [], post, ha, _, h => by
    have : y = x := by
      obtain ⟨t, ht⟩ := h
      simp at ht; exact ht.1
    exact absurd (this ▸ List.mem_cons_self) ha
  | y :: a, z :: b, post, ha, hb, h => by
    obtain ⟨t, ht⟩ := h
    simp only [List.cons_append, List.cons.injEq] at ht
    rw [ht.1, prefix_sep_unique a b post (fun h => ha (List.mem_cons_of_mem _ h)) (fun h => hb (List.mem_cons_of_mem _ h)) ⟨t, ht.2⟩]

theorem suffix_snoc {α} {q X : List α} {a : α} (hq : q ≠ []) (h : q <:+ X ++ [a]) : ∃ q', q = q' ++ [a] ∧ q' <:+ X := by
  obtain ⟨t, ht⟩ := h
  have hq' : q = q.dropLast ++ [q.getLast hq] := (List.dropLast_concat_getLast hq).symm
  rw [hq', ← List.append_assoc] at ht
  have h1 := List.append_inj' ht (by simp)
  have h2 : q.getLast hq = a := by simpa using h1.2
  exact ⟨q.dropLast, by rw [← h2]; exact hq', ⟨t, h1.1⟩⟩

/-- **`parseTag` finds the first `parquet:"…"` pair**: the text between the first occurrence of
`parquet:"` and the next double quote -/
theorem parseTagL_spec (pre mid post : List Char)
    (hpre : ∀ q, q ≠ [] → q <:+ pre → tagSep.isPrefixOf (q ++ (tagSep ++ (mid ++ '"' :: post))) = false)
    (hq : '"' ∉ mid) (hsuf : ¬ "parquet:".toList <:+ mid) :
    parseTagL (pre ++ (tagSep ++ (mid ++ '"' :: post))) = mid := by
  unfold parseTagL
  rw [splitSpec_noocc tagSep pre _ [] hpre, splitSpec_match tagSep (by decide)]
  have h1 : splitSpec tagSep (mid ++ '"' :: post) 0 [] = splitSpec tagSep post 0 ([] ++ (mid ++ ['"'])) := by
    rw [show mid ++ '"' :: post = (mid ++ ['"']) ++ post by simp]
    apply splitSpec_noocc
    intro q hq0 hqs
    obtain ⟨q', rfl, hq's⟩ := suffix_snoc hq0 hqs
    cases hb : tagSep.isPrefixOf (q' ++ ['"'] ++ post) with
    | false => rfl
    | true =>
      exfalso
      rw [List.isPrefixOf_iff_prefix] at hb
      have : "parquet:".toList = q' := by
        apply prefix_sep_unique "parquet:".toList q' post (by decide)
          (fun h => hq (hq's.subset h))
        have he : "parquet:".toList ++ ['"'] = tagSep := by decide
        rw [he]; simpa using hb
      exact hsuf (this ▸ hq's)
  rw [h1]
  obtain ⟨w, tl, hw⟩ := splitSpec_head tagSep post ([] ++ (mid ++ ['"']))
  rw [hw]
  show (splitSpec ['"'] ([] ++ (mid ++ ['"']) ++ w) 0 []).headD [] = mid
  have h2 : splitSpec ['"'] ([] ++ (mid ++ ['"']) ++ w) 0 [] = splitSpec ['"'] ('"' :: w) 0 ([] ++ mid) := by
    rw [show [] ++ (mid ++ ['"']) ++ w = mid ++ ('"' :: w) by simp]
    apply splitSpec_noocc
    intro q hq0 hqs
    cases q with
    | nil => exact absurd rfl hq0
    | cons c q =>
      have hc : c ≠ '"' := fun h => hq (hqs.subset (h ▸ List.mem_cons_self))
      simp [List.isPrefixOf]
      exact fun h => hc h.symm
  rw [h2, splitSpec]
  simp [List.isPrefixOf]

/-- the separator `parquet:"` has no border: inside `pre ++ parquet:"…` it cannot start before the
end of `pre` unless it occurs in `pre` -/
theorem tagSep_noearly (pre X : List Char) (h : ¬ tagSep <:+: pre) :
    ∀ q, q ≠ [] → q <:+ pre → tagSep.isPrefixOf (q ++ (tagSep ++ X)) = false := by
  intro q hq0 hqs
  cases hb : tagSep.isPrefixOf (q ++ (tagSep ++ X)) with
  | false => rfl
  | true =>
    exfalso
    rw [List.isPrefixOf_iff_prefix] at hb
    by_cases hl : tagSep.length ≤ q.length
    · have : tagSep <+: q := List.prefix_of_prefix_length_le hb (List.prefix_append q _) hl
      exact h (this.isInfix.trans hqs.isInfix)
    · have hqp : q <+: tagSep := List.prefix_of_prefix_length_le (List.prefix_append q _) hb (by omega)
      obtain ⟨u, hu⟩ := hqp
      have hb : u <+: tagSep ++ X := by
        have : q ++ u <+: q ++ (tagSep ++ X) := by rw [hu]; exact hb
        exact (List.prefix_append_right_inj q).mp this
      have hu0 : u ≠ [] := by
        intro h0; rw [h0, List.append_nil] at hu; rw [hu] at hl; omega
      cases u with
      | nil => exact absurd rfl hu0
      | cons a u =>
        have ha : a = 'p' := by
          obtain ⟨t, ht⟩ := hb
          rw [tagSep_eq] at ht
          simp at ht; exact ht.1
        cases q with
        | nil => exact absurd rfl hq0
        | cons b q =>
          rw [tagSep_eq, ha] at hu
          simp only [List.cons_append, List.cons.injEq] at hu
          have : 'p' ∈ ['a','r','q','u','e','t',':','"'] := by rw [← hu.2]; simp
          revert this; decide

/-- computable "`S` occurs in `L`" (the `Decidable` instance of `<:+:` does not evaluate under `decide`) -/
def occurs (S : List Char) : List Char → Bool
  | [] => S.isPrefixOf []
  | c :: L => S.isPrefixOf (c :: L) || occurs S L

theorem occurs_of_infix (S : List Char) : ∀ (a b : List Char), occurs S (a ++ S ++ b) = true
  | [], b => by
    have h : S.isPrefixOf (S ++ b) = true := by rw [List.isPrefixOf_iff_prefix]; exact ⟨b, rfl⟩
    rw [List.nil_append]
    cases hL : S ++ b with
    | nil => rw [hL] at h; exact h
    | cons c L => rw [hL] at h; simp [occurs, h]
  | x :: a, b => by
    have := occurs_of_infix S a b
    rw [List.cons_append, List.cons_append, occurs, this, Bool.or_true]

theorem not_infix_of_occurs {S L : List Char} (h : occurs S L = false) : ¬ S <:+: L := by
  rintro ⟨a, b, hab⟩
  rw [← hab, occurs_of_infix] at h
  exact Bool.noConfusion h

theorem parseTag_spec (t : String) (pre mid post : List Char) (ht : t.toList = pre ++ (tagSep ++ (mid ++ '"' :: post)))
    (hpre : ¬ tagSep <:+: pre) (hq : '"' ∉ mid) (hsuf : ¬ "parquet:".toList <:+ mid) :
    parseTag t = String.ofList mid := by
  rw [parseTag_eq, ht, parseTagL_spec pre mid post (tagSep_noearly pre _ hpre) hq hsuf]



/-! ### kernel-evaluable mirror (for `decide` in examples)

`parseTag` goes through `String.splitOn`, defined by well-founded recursion, which `decide` cannot
unfold.  The clones below use `parseTagL` instead and are proved equal to the model functions. -/

/-! `visitT` recurses through `List.foldl` (compiled by well-founded recursion); structural clone -/
mutual
def visitTL : TExpr → GF → GF
  | .ident n, s => if primitives.contains n then { s with typ := n } else s
  | .star t, s => visitTL t { s with optional := true, typ := printed t }
  | .arr t, s => visitTL t { s with repeated := true, typ := printed t }
  | .mapT k v, s => visitTL v (visitTL k s)
  | .chanT t, s => visitTL t s
  | .funcT args, s => visitTLs args s
  | .sel _ _, s => s
  | .other, s => s
def visitTLs : List TExpr → GF → GF
  | [], s => s
  | a :: as, s => visitTLs as (visitTL a s)
end

mutual
theorem visitTL_eq : ∀ (t : TExpr) (s : GF), visitT t s = visitTL t s
  | .ident n, s => by rw [visitT, visitTL]
  | .star t, s => by rw [visitT, visitTL, visitTL_eq t]
  | .arr t, s => by rw [visitT, visitTL, visitTL_eq t]
  | .mapT k v, s => by rw [visitT, visitTL, visitTL_eq k, visitTL_eq v]
  | .chanT t, s => by rw [visitT, visitTL, visitTL_eq t]
  | .funcT args, s => by rw [visitT, visitTL, visitTLs_eq args]
  | .sel _ _, s => by rw [visitT, visitTL]
  | .other, s => by rw [visitT, visitTL]
theorem visitTLs_eq : ∀ (args : List TExpr) (s : GF), args.foldl (fun s a => visitT a s) s = visitTLs args s
  | [], s => by rw [visitTLs]; rfl
  | a :: as, s => by rw [List.foldl_cons, visitTLs, visitTL_eq a, visitTLs_eq as]
end
def getFieldL (name : String) (d : FieldDecl) : Field × Bool :=
  let tag := match d.tag with | some t => String.ofList (parseTagL t.toList) | none => ""
  let s0 : GF := { typ := printed d.ty }
  let s := visitTL d.ty s0
  let tag := if tag = "" then name else tag
  let rt := if s.repeated then RT.rpt else if s.optional then RT.opt else RT.req
  ({ name := name, col := tag, ty := s.typ, rt := rt }, tag = "-")

theorem getFieldL_eq (name : String) (d : FieldDecl) : getField name d = getFieldL name d := by
  unfold getField getFieldL
  simp only [visitTL_eq]
  cases d.tag with
  | none => rfl
  | some t => simp only [parseTag_eq]

def getFieldsL (priv : String → Bool) (d : TypeDecl) : List Field :=
  d.fields.flatMap fun f =>
    match f.names with
    | [] =>
      let n := printed f.ty
      if priv n then [] else let (fl, skip) := getFieldL n f; if skip then [] else [{ fl with embedded := true }]
    | ns =>
      ns.filterMap fun n => if priv n then none else let (fl, skip) := getFieldL n f; if skip then none else some fl

theorem getFieldsL_eq (priv : String → Bool) (d : TypeDecl) : getFields priv d = getFieldsL priv d := by
  unfold getFields getFieldsL
  congr 1
  funext f
  match f.names with
  | [] => simp only [getFieldL_eq]
  | _ :: _ => simp only [getFieldL_eq]

def getChildrenL (priv : String → Bool) (decls : List TypeDecl) : Nat → String → List Field
  | 0, _ => []
  | fuel+1, ty =>
    match decls.find? (·.name = ty) with
    | none => []
    | some d =>
      (getFieldsL priv d).flatMap fun child =>
        if primitives.contains child.ty then [child]
        else match decls.find? (·.name = child.ty) with
          | none => []
          | some _ =>
            let kids := getChildrenL priv decls fuel child.ty
            if child.embedded then kids else [{ child with children := kids }]

theorem getChildrenL_eq (priv : String → Bool) (decls : List TypeDecl) : ∀ (fuel : Nat) (ty : String),
    getChildren priv decls fuel ty = getChildrenL priv decls fuel ty
  | 0, _ => rfl
  | fuel+1, ty => by
    rw [getChildren, getChildrenL]
    cases decls.find? (·.name = ty) with
    | none => rfl
    | some d =>
      simp only [getFieldsL_eq]
      apply flatMap_congr'
      intro c _
      by_cases hp : primitives.contains c.ty = true
      · simp only [hp, if_true]
      · simp only [hp]
        cases decls.find? (·.name = c.ty) with
        | none => rfl
        | some _ => simp only [getChildrenL_eq priv decls fuel]

def parseStructL (priv : String → Bool) (decls : List TypeDecl) (typ : String) : List Field :=
  getChildrenL priv decls (decls.length + 1) typ

theorem parseStructL_eq (priv : String → Bool) (decls : List TypeDecl) (typ : String) :
    parseStruct priv decls typ = parseStructL priv decls typ := getChildrenL_eq priv decls _ typ

/-- a checkable criterion for `Ranked` -/
def rankedB (priv : String → Bool) (decls : List TypeDecl) (rank : String → Nat) : Bool :=
  decls.all fun d => (getFieldsL priv d).all fun c =>
    primitives.contains c.ty || !(decls.find? (·.name = c.ty)).isSome || decide (rank c.ty < rank d.name)

theorem ranked_of_rankedB {priv : String → Bool} {decls : List TypeDecl} {rank : String → Nat}
    (h : rankedB priv decls rank = true) : Ranked priv decls rank := by
  intro t d hd c hc hp hs
  have hm : d ∈ decls := List.mem_of_find?_eq_some hd
  have hn : d.name = t := by simpa using List.find?_some hd
  unfold rankedB at h
  rw [List.all_eq_true] at h
  have h1 := h d hm
  rw [List.all_eq_true] at h1
  have h2 := h1 c (by rw [← getFieldsL_eq]; exact hc)
  rw [hp, hs, hn] at h2
  simpa using h2

/-- a checkable criterion for "no field has type `en`" -/
def unusedB (priv : String → Bool) (decls : List TypeDecl) (en : String) : Bool :=
  decls.all fun d => (getFieldsL priv d).all fun c => c.ty != en

theorem unused_of_unusedB {priv : String → Bool} {decls : List TypeDecl} {en : String}
    (h : unusedB priv decls en = true) : ∀ x ∈ decls, ∀ c ∈ getFields priv x, c.ty ≠ en := by
  intro x hx c hc
  unfold unusedB at h
  rw [List.all_eq_true] at h
  have h1 := h x hx
  rw [List.all_eq_true] at h1
  have h2 := h1 c (by rw [← getFieldsL_eq]; exact hc)
  simpa using h2

mutual
/-- a field tree as a list of rows (depth, name, column, type, repetition, embedded), pre-order:
injective on trees, with decidable equality (`Field` itself is a nested inductive) -/
def flatF (depth : Nat) : Field → List (Nat × String × String × String × RT × Bool)
  | ⟨name, col, ty, rt, emb, children⟩ => (depth, name, col, ty, rt, emb) :: flatFs (depth + 1) children
def flatFs (depth : Nat) : List Field → List (Nat × String × String × String × RT × Bool)
  | [] => []
  | f :: fs => flatF depth f ++ flatFs depth fs
end

end PQ.Parse

namespace PQ.Structs
open PQ PQ.Parse

/-! ### the struct regenerated from the footer schema of a field forest -/

def toSE (e : SElem) : SE := { name := e.name, ty := e.ty, rep := e.rep, nc := e.numChildren }

/-- the schema element of the root of a subtree, as `structs.go` sees it -/
def hdSE : FTree → SE
  | .leaf n r ty => { name := n, ty := some ty.phys, rep := some r.code, nc := none }
  | .group n r cs => { name := n, ty := none, rep := some r.code, nc := some cs.length }

def kids : FTree → List FTree
  | .leaf _ _ _ => []
  | .group _ _ cs => cs

theorem flatT_map (t : FTree) : (flatT t).map toSE = hdSE t :: (flattenT (kids t)).map toSE := by
  cases t with
  | leaf n r ty => simp [flatT, flattenT, kids, hdSE, toSE]
  | group n r cs => simp [flatT, kids, hdSE, toSE]

theorem flatT_length (t : FTree) : (flatT t).length = 1 + (flattenT (kids t)).length := by
  have := congrArg List.length (flatT_map t)
  simpa [Nat.add_comm] using this

theorem flattenT_cons (t : FTree) (ts : List FTree) : flattenT (t :: ts) = flatT t ++ flattenT ts := by
  rw [flattenT]

theorem length_le_flatten : ∀ ts : List FTree, ts.length ≤ (flattenT ts).length
  | [] => by simp [flattenT]
  | t :: ts => by
    have := length_le_flatten ts
    rw [flattenT_cons, List.length_append, flatT_length, List.length_cons]; omega

/-- the field declarations of a regenerated struct: one per child -/
def fieldsOf (ts : List FTree) : List FieldDecl := ts.map fun t => fieldOf (hdSE t)

mutual
/-- the declarations regenerated for the groups of a subtree: own first, nested ones after it, in order -/
def nestedOf1 : FTree → List TypeDecl
  | .leaf _ _ _ => []
  | .group n _ cs => { name := title n, fields := fieldsOf cs } :: nestedOf cs
def nestedOf : List FTree → List TypeDecl
  | [] => []
  | t :: ts => nestedOf1 t ++ nestedOf ts
end

/-- what `structs.Struct` regenerates for the forest `ts` -/
def declsOf (structName : String) (ts : List FTree) : List TypeDecl :=
  { name := title structName, fields := fieldsOf ts } :: nestedOf ts

theorem nestedOf1_eq (t : FTree) (h : kids t ≠ []) :
    nestedOf1 t = { name := title t.name, fields := fieldsOf (kids t) } :: nestedOf (kids t) := by
  cases t with
  | leaf n r ty => exact absurd rfl h
  | group n r cs => rw [nestedOf1]; rfl

theorem loop_zero (f : Nat) (c : List SE) (i j : Nat) (fs : List FieldDecl) (nested : List TypeDecl) :
    getStruct.loop f c 0 i j fs nested = some (j, fs, nested) := by rw [getStruct.loop]

theorem loop_succ_leaf (f : Nat) (c : List SE) (k i j : Nat) (fs : List FieldDecl) (nested : List TypeDecl) (ch : SE)
    (h1 : c[i + j]? = some ch) (h2 : ¬ ch.nc.getD 0 > 0) :
    getStruct.loop f c (k + 1) i j fs nested = getStruct.loop f c k (i + 1) j (fs ++ [fieldOf ch]) nested := by
  rw [getStruct.loop, h1]; simp only [if_neg h2]

theorem loop_succ_group (f : Nat) (c : List SE) (k i j : Nat) (fs : List FieldDecl) (nested : List TypeDecl) (ch : SE)
    (n : Nat) (ds : List TypeDecl) (h1 : c[i + j]? = some ch) (h2 : ch.nc.getD 0 > 0)
    (h3 : getStruct f ch (c.drop (i + j + 1)) = some (n, ds)) :
    getStruct.loop f c (k + 1) i j fs nested = getStruct.loop f c k (i + 1) (j + n) (fs ++ [fieldOf ch]) (nested ++ ds) := by
  rw [getStruct.loop, h1]; simp only [if_pos h2, h3]

theorem getStruct_of_loop (f : Nat) (p : SE) (c : List SE) (j : Nat) (fs : List FieldDecl) (nested : List TypeDecl)
    (h : getStruct.loop f c (p.nc.getD 0) 0 0 [] [] = some (j, fs, nested)) :
    getStruct (f + 1) p c = some (p.nc.getD 0 + j, { name := title p.name, fields := fs } :: nested) := by
  rw [getStruct, h]

theorem hdSE_nc (t : FTree) : (hdSE t).nc.getD 0 = (kids t).length := by
  cases t <;> rfl

theorem hdSE_name (t : FTree) : (hdSE t).name = t.name := by
  cases t <;> rfl

mutual
/-- `getStruct` on a subtree's root element consumes exactly the flattening of its children -/
theorem getStruct_tree : (t : FTree) → t.WF → ∀ (f : Nat), (flattenT (kids t)).length ≤ f → ∀ (rest : List SE),
    getStruct (f + 1) (hdSE t) ((flattenT (kids t)).map toSE ++ rest) =
      some ((flattenT (kids t)).length, { name := title t.name, fields := fieldsOf (kids t) } :: nestedOf (kids t))
  | .leaf n r ty, _, f, _, rest => by
    have := getStruct_of_loop f (hdSE (.leaf n r ty)) ((flattenT (kids (.leaf n r ty))).map toSE ++ rest) 0 [] []
      (by rw [hdSE_nc]; exact loop_zero _ _ _ _ _ _)
    rw [this]; simp [hdSE, kids, flattenT, FTree.name, fieldsOf, nestedOf]
  | .group n r cs, hwf, f, hf, rest => by
    have hwf' : WFL cs := by unfold FTree.WF at hwf; exact hwf.2.2.2
    have h := loop_forest cs hwf' f hf ((flattenT cs).map toSE ++ rest) [] rest 0 0 [] [] (by simp) rfl
    have := getStruct_of_loop f (hdSE (.group n r cs)) ((flattenT cs).map toSE ++ rest) _ _ _ (by rw [hdSE_nc]; exact h)
    simp only [kids]
    rw [this]
    have := length_le_flatten cs
    simp only [hdSE, Option.getD_some, List.nil_append, FTree.name, Option.some.injEq, Prod.mk.injEq, and_true]
    omega
/-- the loop of `getStruct` over the children `ts`, starting at element `i + j` -/
theorem loop_forest : (ts : List FTree) → WFL ts → ∀ (f : Nat), (flattenT ts).length ≤ f →
    ∀ (c X rest : List SE) (i j : Nat) (fs : List FieldDecl) (nested : List TypeDecl),
    c = X ++ (flattenT ts).map toSE ++ rest → X.length = i + j →
    getStruct.loop f c ts.length i j fs nested =
      some (j + ((flattenT ts).length - ts.length), fs ++ fieldsOf ts, nested ++ nestedOf ts)
  | [], _, f, _, c, X, rest, i, j, fs, nested, _, _ => by
    rw [List.length_nil, loop_zero]; simp [flattenT, fieldsOf, nestedOf]
  | t :: ts, hwf, f, hf, c, X, rest, i, j, fs, nested, hc, hX => by
    have hwf1 : t.WF := by unfold WFL at hwf; exact hwf.1
    have hwf2 : WFL ts := by unfold WFL at hwf; exact hwf.2
    rw [flattenT_cons, List.length_append, flatT_length] at hf
    have hc' : c = X ++ hdSE t :: ((flattenT (kids t)).map toSE ++ ((flattenT ts).map toSE ++ rest)) := by
      rw [hc, flattenT_cons, List.map_append, flatT_map]; simp
    have hget : c[i + j]? = some (hdSE t) := by
      rw [hc', ← hX]; simp
    have hdrop : c.drop (i + j + 1) = (flattenT (kids t)).map toSE ++ ((flattenT ts).map toSE ++ rest) := by
      rw [hc', ← hX, show X ++ hdSE t :: ((flattenT (kids t)).map toSE ++ ((flattenT ts).map toSE ++ rest))
        = (X ++ [hdSE t]) ++ ((flattenT (kids t)).map toSE ++ ((flattenT ts).map toSE ++ rest)) by simp]
      rw [List.drop_left' (by simp)]
    have hlen := length_le_flatten ts
    rw [List.length_cons]
    by_cases hk : kids t = []
    · -- a leaf
      have hnc : ¬ (hdSE t).nc.getD 0 > 0 := by rw [hdSE_nc, hk]; simp
      rw [loop_succ_leaf f c _ i j fs nested (hdSE t) hget hnc]
      have ih := loop_forest ts hwf2 f (by omega) c (X ++ [hdSE t]) rest (i + 1) j (fs ++ [fieldOf (hdSE t)]) nested
        (by rw [hc']; simp [hk, flattenT]) (by simp; omega)
      rw [ih]
      have hn : nestedOf1 t = [] := by
        cases t with
        | leaf n r ty => rfl
        | group n r cs =>
          exfalso; unfold FTree.WF at hwf1; exact hwf1.2.1 hk
      simp only [List.length_append, flatT_length, hk, flattenT, List.length_nil, fieldsOf, List.map_cons, nestedOf, hn]
      simp; omega
    · -- a group
      have hnc : (hdSE t).nc.getD 0 > 0 := by
        rw [hdSE_nc]; exact List.length_pos_iff.mpr hk
      obtain ⟨f0, rfl⟩ : ∃ k, f = k + 1 := ⟨f - 1, by omega⟩
      have hg := getStruct_tree t hwf1 f0 (by omega) ((flattenT ts).map toSE ++ rest)
      rw [loop_succ_group (f0 + 1) c _ i j fs nested (hdSE t) _ _ hget hnc (by rw [hdrop]; exact hg)]
      have ih := loop_forest ts hwf2 (f0 + 1) (by omega) c (X ++ hdSE t :: (flattenT (kids t)).map toSE) rest (i + 1) (j + (flattenT (kids t)).length)
        (fs ++ [fieldOf (hdSE t)]) (nested ++ { name := title t.name, fields := fieldsOf (kids t) } :: nestedOf (kids t))
        (by rw [hc']; simp) (by simp; omega)
      rw [ih]
      simp only [flattenT_cons, List.length_append, flatT_length, fieldsOf, List.map_cons, nestedOf, nestedOf1_eq t hk]
      simp; omega
end


/-- **`structs.Struct` on the footer schema of a forest** (`root` is any element announcing
`ts.length` children; its name is overwritten by `structName`) -/
theorem structOf_forest (structName : String) (ts : List FTree) (hwf : WFL ts) (root : SElem)
    (hroot : root.numChildren = some ts.length) :
    structOf structName ((root :: flattenT ts).map toSE) = some (declsOf structName ts) := by
  unfold structOf
  simp only [List.map_cons]
  have h := loop_forest ts hwf ((toSE root :: (flattenT ts).map toSE).length) (by simp)
    ((flattenT ts).map toSE) [] [] 0 0 [] [] (by simp) rfl
  have hnc : ({ toSE root with name := structName } : SE).nc.getD 0 = ts.length := by simp [toSE, hroot]
  have := getStruct_of_loop _ { toSE root with name := structName } ((flattenT ts).map toSE) _ _ _ (by rw [hnc]; exact h)
  rw [this]
  simp [declsOf]

/-! ### reading the regenerated declarations back with `parse.Fields` -/

def rtOf : Rep → RT
  | .req => .req
  | .opt => .opt
  | .rpt => .rpt

/-- the field `getFields` makes of the regenerated declaration of a node (before resolution) -/
def headField : FTree → Field
  | .leaf n r ty => { name := title n, col := n, ty := goType ty.phys, rt := rtOf r }
  | .group n r _ => { name := title n, col := n, ty := title n, rt := rtOf r }

mutual
/-- the field tree of a forest: same columns (`col`), nesting, optionality (`rt`) and physical types
(`ty` of the leaves); Go field names and group type names are the Title-cased column names -/
def treeOf1 : FTree → Field
  | .leaf n r ty => { name := title n, col := n, ty := goType ty.phys, rt := rtOf r, children := [] }
  | .group n r cs => { name := title n, col := n, ty := title n, rt := rtOf r, children := treeOf cs }
def treeOf : List FTree → List Field
  | [] => []
  | t :: ts => treeOf1 t :: treeOf ts
end

/-- the tag `structs.go` writes for a column name -/
def tagOf (n : String) : String := "parquet:\"" ++ n ++ "\""

/-- what is needed of a column name `n`: its Title-cased form is an exported identifier, the tag
`parquet:"n"` is read back as `n` (no `"` in it …), and it is not `-` -/
def GoodName (priv : String → Bool) (n : String) : Prop :=
  priv (title n) = false ∧ n ≠ "-" ∧ parseTag (tagOf n) = n

mutual
/-- no repeated node, leaf types among int32/int64/float32/float64/bool/string, usable names,
group type names not primitive type names -/
def OKT (priv : String → Bool) : FTree → Prop
  | .leaf n r ty => GoodName priv n ∧ r ≠ .rpt ∧ ty ≠ .u32 ∧ ty ≠ .u64
  | .group n r cs => GoodName priv n ∧ r ≠ .rpt ∧ primitives.contains (title n) = false ∧ OKL priv cs
def OKL (priv : String → Bool) : List FTree → Prop
  | [] => True
  | t :: ts => OKT priv t ∧ OKL priv ts
end

/-- the Go type name `field(elem)` writes -/
def tyName (e : SE) : String := match e.ty with | some k => goType k | none => title e.name

theorem gf1_fieldOf (priv : String → Bool) (e : SE) (hn : GoodName priv e.name) (c : Nat) (hr : e.rep = some c) :
    gf1 priv (fieldOf e) = [{ name := title e.name, col := e.name, ty := tyName e, rt := (if c = 1 then RT.opt else RT.req) }] := by
  obtain ⟨h1, h2, h3⟩ := hn
  rw [gf1_single priv (fieldOf e) (title e.name) rfl, h1]
  have htag : (fieldOf e).tag = some (tagOf e.name) := rfl
  have hcol : (if e.name = "" then title e.name else e.name) = e.name := by
    by_cases h0 : e.name = ""
    · rw [if_pos h0, h0]; decide
    · rw [if_neg h0]
  by_cases hc : c = 1
  · subst hc
    have hty : (fieldOf e).ty = .star (.ident (tyName e)) := by
      cases h : e.ty <;> simp [fieldOf, hr, tyName, h]
    simp [getField, htag, hty, h3, visitT, printed]
    rw [hcol, if_neg h2]
  · have hty : (fieldOf e).ty = .ident (tyName e) := by
      cases h : e.ty <;> simp [fieldOf, hr, hc, tyName, h]
    simp [getField, htag, hty, h3, visitT, printed, hc]
    rw [hcol, if_neg h2]

theorem find_of_nodup : ∀ {ds : List TypeDecl}, (ds.map (·.name)).Nodup → ∀ {x : TypeDecl}, x ∈ ds →
    ds.find? (·.name = x.name) = some x
  | [], _, _, hx => by simp at hx
  | d :: ds, hnd, x, hx => by
    rw [List.map_cons, List.nodup_cons] at hnd
    rw [List.find?_cons]
    rcases List.mem_cons.mp hx with rfl | hx'
    · simp
    · have : d.name ≠ x.name := fun h => hnd.1 (h ▸ List.mem_map_of_mem hx')
      simp only [this, decide_false]
      exact find_of_nodup hnd.2 hx'

theorem goType_prim (ty : PType) (h1 : ty ≠ .u32) (h2 : ty ≠ .u64) : primitives.contains (goType ty.phys) = true := by
  cases ty <;> first | decide | exact absurd rfl h1 | exact absurd rfl h2

theorem gf1_node (priv : String → Bool) (t : FTree) (h : OKT priv t) : gf1 priv (fieldOf (hdSE t)) = [headField t] := by
  cases t with
  | leaf n r ty =>
    unfold OKT at h
    rw [gf1_fieldOf priv (hdSE (.leaf n r ty)) h.1 r.code rfl]
    cases r <;> first | rfl | exact absurd rfl h.2.1
  | group n r cs =>
    unfold OKT at h
    rw [gf1_fieldOf priv (hdSE (.group n r cs)) h.1 r.code rfl]
    cases r <;> first | rfl | exact absurd rfl h.2.1

mutual
theorem resolve_tree (priv : String → Bool) (ds : List TypeDecl) (hnd : (ds.map (·.name)).Nodup) : (t : FTree) → t.WF → OKT priv t → (∀ x ∈ nestedOf1 t, x ∈ ds) → ∀ (fuel : Nat),
    (nestedOf1 t).length ≤ fuel → resolve priv ds fuel (headField t) = [treeOf1 t]
  | .leaf n r ty, _, hok, _, fuel, _ => by
    unfold OKT at hok
    rw [resolve_prim _ _ _ _ (goType_prim ty hok.2.2.1 hok.2.2.2)]
    rfl
  | .group n r cs, hwf, hok, hmem, fuel, hfuel => by
    unfold OKT at hok
    unfold FTree.WF at hwf
    rw [nestedOf1] at hmem hfuel
    have hfind := find_of_nodup hnd (hmem _ List.mem_cons_self)
    obtain ⟨f, rfl⟩ : ∃ k, fuel = k + 1 := ⟨fuel - 1, by simp at hfuel; omega⟩
    rw [resolve_some priv ds (f + 1) (headField (.group n r cs)) _ hok.2.2.1 hfind]
    have hkids : getChildren priv ds (f + 1) (title n) = treeOf cs := by
      rw [getChildren_some priv ds f (title n) _ hfind, getFields_eq_gfl]
      exact resolve_forest priv ds hnd cs hwf.2.2.2 hok.2.2.2 (fun x hx => hmem x (List.mem_cons_of_mem _ hx)) f
        (by simp at hfuel; omega)
    show (if (headField (.group n r cs)).embedded = true then _ else _) = _
    rw [show (headField (.group n r cs)).ty = title n from rfl, hkids]
    rfl
theorem resolve_forest (priv : String → Bool) (ds : List TypeDecl) (hnd : (ds.map (·.name)).Nodup) : (ts : List FTree) → WFL ts → OKL priv ts → (∀ x ∈ nestedOf ts, x ∈ ds) → ∀ (fuel : Nat),
    (nestedOf ts).length ≤ fuel → (gfl priv (fieldsOf ts)).flatMap (resolve priv ds fuel) = treeOf ts
  | [], _, _, _, _, _ => rfl
  | t :: ts, hwf, hok, hmem, fuel, hfuel => by
    unfold WFL at hwf
    unfold OKL at hok
    rw [nestedOf] at hmem hfuel
    rw [fieldsOf, List.map_cons, gfl_cons, gf1_node priv t hok.1, List.flatMap_append]
    simp only [List.flatMap_cons, List.flatMap_nil, List.append_nil]
    rw [resolve_tree priv ds hnd t hwf.1 hok.1 (fun x hx => hmem x (List.mem_append_left _ hx)) fuel (by simp at hfuel; omega)]
    have := resolve_forest priv ds hnd ts hwf.2 hok.2 (fun x hx => hmem x (List.mem_append_right _ hx)) fuel (by simp at hfuel; omega)
    rw [fieldsOf] at this
    rw [this, treeOf]
    rfl
end

mutual
/-- the names of the groups of a forest, pre-order -/
def groupNames1 : FTree → List String
  | .leaf _ _ _ => []
  | .group n _ cs => n :: groupNames cs
def groupNames : List FTree → List String
  | [] => []
  | t :: ts => groupNames1 t ++ groupNames ts
end

mutual
theorem nestedOf1_names : (t : FTree) → (nestedOf1 t).map (·.name) = (groupNames1 t).map title
  | .leaf _ _ _ => rfl
  | .group n r cs => by rw [nestedOf1, groupNames1, List.map_cons, List.map_cons, nestedOf_names cs]
theorem nestedOf_names : (ts : List FTree) → (nestedOf ts).map (·.name) = (groupNames ts).map title
  | [] => rfl
  | t :: ts => by rw [nestedOf, groupNames, List.map_append, List.map_append, nestedOf1_names t, nestedOf_names ts]
end

/-- **the regenerated declarations parse back to the field tree of the forest**, given uniquely
named groups (also distinct from the struct's own name) -/
theorem parse_declsOf (priv : String → Bool) (structName : String) (ts : List FTree) (hwf : WFL ts) (hok : OKL priv ts)
    (huniq : (title structName :: (groupNames ts).map title).Nodup) :
    parseStruct priv (declsOf structName ts) (title structName) = treeOf ts := by
  have hnd : ((declsOf structName ts).map (·.name)).Nodup := by
    rw [declsOf, List.map_cons, nestedOf_names]; exact huniq
  unfold parseStruct
  have hfind : (declsOf structName ts).find? (·.name = title structName) = some { name := title structName, fields := fieldsOf ts } := by
    rw [declsOf, List.find?_cons]; simp
  rw [getChildren_some _ _ _ _ _ hfind, getFields_eq_gfl]
  exact resolve_forest priv _ hnd ts hwf hok (fun x hx => List.mem_cons_of_mem _ hx) _ (by simp [declsOf])


/-- sufficient for `GoodName`: no double quote and no colon in the column name -/
theorem goodName_of (priv : String → Bool) (n : String) (h1 : priv (title n) = false) (h2 : n ≠ "-")
    (hq : '"' ∉ n.toList) (hs : ¬ "parquet:".toList <:+ n.toList) : GoodName priv n := by
  refine ⟨h1, h2, ?_⟩
  have := parseTag_spec (tagOf n) [] n.toList []
    (by simp only [tagOf, String.toList_append]
        rw [show "parquet:\"".toList = tagSep from rfl, show "\"".toList = ['"'] by decide]; simp)
    (by intro h; have := List.IsInfix.length_le h; simp [tagSep_eq] at this) hq hs
  rw [this, String.ofList_toList]

/-- checkable criterion for the name conditions -/
def nameB (priv : String → Bool) (n : String) : Bool :=
  !priv (title n) && n != "-" && !n.toList.contains '"' && !n.toList.contains ':'

theorem goodName_of_nameB {priv : String → Bool} {n : String} (h : nameB priv n = true) : GoodName priv n := by
  simp only [nameB, Bool.and_eq_true, Bool.not_eq_true', bne_iff_ne, ne_eq, List.contains_eq_mem, decide_eq_false_iff_not] at h
  obtain ⟨⟨⟨h1, h2⟩, h3⟩, h4⟩ := h
  refine goodName_of priv n h1 h2 h3 ?_
  intro hs
  exact h4 (hs.subset (by decide))

mutual
def okTB (priv : String → Bool) : FTree → Bool
  | .leaf n r ty => nameB priv n && decide (r ≠ .rpt) && decide (ty ≠ .u32) && decide (ty ≠ .u64)
  | .group n r cs => nameB priv n && decide (r ≠ .rpt) && !primitives.contains (title n) && okLB priv cs
def okLB (priv : String → Bool) : List FTree → Bool
  | [] => true
  | t :: ts => okTB priv t && okLB priv ts
end

mutual
theorem okT_of_B (priv : String → Bool) : (t : FTree) → okTB priv t = true → OKT priv t
  | .leaf n r ty, h => by
    rw [okTB] at h
    simp only [Bool.and_eq_true, decide_eq_true_eq] at h
    rw [OKT]; exact ⟨goodName_of_nameB h.1.1.1, h.1.1.2, h.1.2, h.2⟩
  | .group n r cs, h => by
    rw [okTB] at h
    simp only [Bool.and_eq_true, decide_eq_true_eq, Bool.not_eq_true'] at h
    rw [OKT]; exact ⟨goodName_of_nameB h.1.1.1, h.1.1.2, h.1.2, okL_of_B priv cs h.2⟩
theorem okL_of_B (priv : String → Bool) : (ts : List FTree) → okLB priv ts = true → OKL priv ts
  | [], _ => by rw [OKL]; trivial
  | t :: ts, h => by
    rw [okLB, Bool.and_eq_true] at h
    rw [OKL]; exact ⟨okT_of_B priv t h.1, okL_of_B priv ts h.2⟩
end

end PQ.Structs
