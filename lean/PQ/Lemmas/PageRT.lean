import PQ.Lemmas.Plain
import PQ.Lemmas.Thrift
import PQ.Lemmas.Dremel
import PQ.Lemmas.RleEnc
import PQ.Lemmas.RleDec
import PQ.Lemmas.RleImpl
/-!
# The page-level round trip

`pageBytes k c es` (what the writer puts in the file for one page) is parsed by the independent
specification parser `specPage` back to exactly `es`, with exactly the section lengths the header
announces (C01 core, C02 lengths).
-/
namespace PQ
open PQ.Thrift

/-! ## level sections -/

theorem one_le_bitsLen (n : Nat) (h : 1 ≤ n) : 1 ≤ bitsLen n := by
  unfold bitsLen
  rw [if_neg (by omega)]
  omega

theorem bitsLen_le_four (n : Nat) (h : n ≤ 15) : bitsLen n ≤ 4 :=
  bitsLen_le_of_lt_two_pow n 4 (by omega)

/-- **A level section written by the library is accepted by the specification decoder**, which
returns exactly the levels (padding stripped and checked) and the section's byte length, whatever
follows the section. -/
theorem specLevels_encode (maxLevel : Nat) (xs : List Nat) (hx : ∀ x ∈ xs, x ≤ maxLevel)
    (hw : 1 ≤ bitsLen maxLevel ∧ bitsLen maxLevel ≤ 4) (hlen : xs.length + 8 ≤ 2 ^ 30) (rest : Bytes) :
    specLevels (bitsLen maxLevel) xs.length maxLevel (encode (bitsLen maxLevel) xs ++ rest)
      = .ok (xs, (encode (bitsLen maxLevel) xs).length) := by
  have hx' : ∀ x ∈ xs, x < 2 ^ bitsLen maxLevel := fun x h =>
    Nat.lt_of_le_of_lt (hx x h) (lt_two_pow_bitsLen maxLevel)
  obtain ⟨runs, pad, henc, hwfs, hb, hvals, hpad⟩ := encode_runs (bitsLen maxLevel) hw xs hx' hlen
  have hvlen : (runsVals runs).length = xs.length + pad := by rw [hvals]; simp
  have h30 : (2 : Nat) ^ 32 = 4 * 2 ^ 30 := by decide
  have hsl := serRuns_length_le (bitsLen maxLevel) (by omega) runs hwfs hb
  have hn : (serRuns (bitsLen maxLevel) runs).length < 2 ^ 32 := by omega
  have hwf : ∀ r ∈ runs, r.WF (bitsLen maxLevel) := fun r hr => wf_of _ r (hwfs r hr) (hb r hr)
  have hdec := specDecode_ser (bitsLen maxLevel) runs hwf hn rest
  have hel : (encode (bitsLen maxLevel) xs).length = 4 + (serRuns (bitsLen maxLevel) runs).length := by
    rw [henc, List.length_append, le32_length]
  unfold specLevels
  rw [hel, henc, List.append_assoc, hdec]
  simp only [hvals]
  rw [if_neg (by simp), if_neg (by simp only [List.length_append, List.length_replicate]; omega)]
  have h1 : ((xs ++ List.replicate pad 0).drop xs.length).any (· != 0) = false := by
    rw [List.drop_left]; simp
  have h2 : ((xs ++ List.replicate pad 0).take xs.length).any (· > maxLevel) = false := by
    rw [List.take_left]
    simp only [List.any_eq_false, decide_eq_true_eq]
    intro x hx1; have := hx x hx1; omega
  rw [h1, h2]
  simp only [Bool.false_eq_true, if_false, List.take_left]

/-- the reader's `readLevels` on the same section: the levels plus fewer than 8 zeros of padding
(which `OptionalField.DoRead` cuts off with `[:nv]`) -/
theorem readLevelsAt_encode (maxLevel : Nat) (xs : List Nat) (hx : ∀ x ∈ xs, x ≤ maxLevel)
    (hw : 1 ≤ bitsLen maxLevel ∧ bitsLen maxLevel ≤ 4) (hlen : xs.length + 8 ≤ 2 ^ 30) (pre rest : Bytes) :
    ∃ pad, pad < 8 ∧
      readLevelsAt (bitsLen maxLevel) (pre ++ encode (bitsLen maxLevel) xs ++ rest) pre.length
        = .ok (xs ++ List.replicate pad 0, (encode (bitsLen maxLevel) xs).length) := by
  have hx' : ∀ x ∈ xs, x < 2 ^ bitsLen maxLevel := fun x h =>
    Nat.lt_of_le_of_lt (hx x h) (lt_two_pow_bitsLen maxLevel)
  obtain ⟨pad, hpad, h⟩ := impl_decode_encode (bitsLen maxLevel) hw xs hx' hlen rest
  refine ⟨pad, hpad, ?_⟩
  unfold readLevelsAt
  rw [if_neg (by simp only [List.length_append]; omega), List.append_assoc, List.drop_left, h]

/-! ## entries from levels and values -/

theorem nonNull_nil : nonNull [] = [] := rfl

theorem nonNull_cons_some (r d : Nat) (v : Bytes) (es : PageEntries) :
    nonNull (⟨r, d, some v⟩ :: es) = v :: nonNull es := rfl

theorem nonNull_cons_none (r d : Nat) (es : PageEntries) :
    nonNull (⟨r, d, none⟩ :: es) = nonNull es := rfl

/-- the number of values is the number of entries at the maximum definition level -/
theorem count_maxDef (maxDef : Nat) (es : PageEntries) (h : ∀ e ∈ es, (e.val.isSome ↔ e.dl = maxDef)) :
    ((es.map (·.dl)).filter (· = maxDef)).length = (nonNull es).length := by
  induction es with
  | nil => rfl
  | cons e es ih =>
    have h1 := h e (by simp)
    have h2 := ih (fun x hx => h x (by simp [hx]))
    obtain ⟨r, d, v⟩ := e
    cases v with
    | none =>
      have : ¬ d = maxDef := by intro hd; have := h1.mpr hd; simp at this
      simp only [List.map_cons, nonNull_cons_none]
      rw [List.filter_cons_of_neg (by simpa using this), h2]
    | some v =>
      have : d = maxDef := h1.mp rfl
      simp only [List.map_cons, nonNull_cons_some, List.length_cons]
      rw [List.filter_cons_of_pos (by simpa using this), List.length_cons, h2]

/-- `zipEntries` rebuilds the entries from their levels and non-null values; `rs` is the repetition
levels, or nothing at all for a column without repeated ancestors (every `rep` is then 0) -/
theorem zipEntries_roundtrip (maxDef : Nat) (es : PageEntries) (rs : List Nat)
    (h : ∀ e ∈ es, (e.val.isSome ↔ e.dl = maxDef))
    (hrs : rs = es.map (·.rep) ∨ (rs = [] ∧ ∀ e ∈ es, e.rep = 0)) :
    zipEntries maxDef (es.map (·.dl)) rs (nonNull es) = .ok es := by
  induction es generalizing rs with
  | nil => rfl
  | cons e es ih =>
    have h1 := h e (by simp)
    have hr : rs.head?.getD 0 = e.rep := by
      rcases hrs with rfl | ⟨rfl, h0⟩
      · rfl
      · exact (h0 e (by simp)).symm
    have hrs' : rs.tail = es.map (·.rep) ∨ (rs.tail = [] ∧ ∀ e ∈ es, e.rep = 0) := by
      rcases hrs with rfl | ⟨rfl, h0⟩
      · exact Or.inl rfl
      · exact Or.inr ⟨rfl, fun x hx => h0 x (by simp [hx])⟩
    have h2 := ih rs.tail (fun x hx => h x (by simp [hx])) hrs'
    obtain ⟨r, d, v⟩ := e
    simp only at hr
    cases v with
    | none =>
      have : ¬ d = maxDef := by intro hd; have := h1.mpr hd; simp at this
      simp only [List.map_cons, nonNull_cons_none]
      unfold zipEntries
      simp only [if_neg this, h2, hr, Except.map]
    | some v =>
      have : d = maxDef := h1.mp rfl
      simp only [List.map_cons, nonNull_cons_some]
      unfold zipEntries
      simp only [if_pos this, h2, hr, Except.map]

theorem required_entries (es : PageEntries) (h : ∀ e ∈ es, e.rep = 0 ∧ e.dl = 0 ∧ e.val.isSome) :
    (nonNull es).length = es.length ∧ (nonNull es).map (fun v => (⟨0, 0, some v⟩ : Entry Bytes)) = es := by
  induction es with
  | nil => exact ⟨rfl, rfl⟩
  | cons e es ih =>
    have h1 := h e (by simp)
    have h2 := ih (fun x hx => h x (by simp [hx]))
    obtain ⟨r, d, v⟩ := e
    obtain ⟨hr, hd, hv⟩ := h1
    simp only at hr hd
    subst hr; subst hd
    cases v with
    | none => simp at hv
    | some v =>
      simp only [nonNull_cons_some, List.length_cons, List.map_cons, h2.1, h2.2, and_self]

/-- an `OptionalField` column has at least one optional or repeated path element -/
theorem one_le_maxDef_of_not_required (c : Col) (h : c.isRequired = false) : 1 ≤ c.maxDef := by
  unfold Col.isRequired at h
  unfold Col.maxDef
  generalize c.reps = ts at h
  induction ts with
  | nil => simp at h
  | cons t ts ih =>
    cases t with
    | req =>
      simp only [List.all_cons] at h
      simpa [maxDef] using ih h
    | opt => simp [maxDef]
    | rpt => simp [maxDef]

theorem Col.maxRep_le_maxDef (c : Col) : c.maxRep ≤ c.maxDef := PQ.maxRep_le_maxDef c.reps

theorem drop_length_add {α : Type} (a b : List α) (n : Nat) : (a ++ b).drop (a.length + n) = b.drop n := by
  induction a with
  | nil => simp
  | cons x a ih =>
    have : (x :: a).length + n = (a.length + n) + 1 := by simp only [List.length_cons]; omega
    rw [this, List.cons_append, List.drop_succ_cons, ih]

/-! ## the payload -/

/-- the `entries ←` block of `specPage`: levels (repetition only for columns below a repeated
element), the number of values = the number of entries at the maximum definition level, the values,
and the zip -/
def decodePayload (c : Col) (n : Nat) (raw : Bytes) : V (List (Entry Bytes)) :=
  (if c.isRequired then do
      let vs ← specValues c.ty n raw
      pure (vs.map fun v => (⟨0, 0, some v⟩ : Entry Bytes))
    else do
      let (reps, l1) ← (if c.maxRep > 0 then specLevels (bitsLen c.maxRep) n c.maxRep raw else pure ([], 0))
      let (defs, l2) ← specLevels (bitsLen c.maxDef) n c.maxDef (raw.drop l1)
      let k := (defs.filter (· = c.maxDef)).length
      let vs ← specValues c.ty k (raw.drop (l1 + l2))
      zipEntries c.maxDef defs reps vs)

/-- **Payload round trip.**  The uncompressed payload of a well-formed page decodes, the way the
specification parser does it, to exactly the page's entries. -/
theorem payload_roundtrip (c : Col) (es : PageEntries) (hwf : WFPage c es) :
    decodePayload c es.length (pagePayload c es) = .ok es := by
  unfold decodePayload pagePayload
  by_cases hreq : c.isRequired = true
  · rw [if_pos hreq, if_pos hreq]
    have hent : ∀ e ∈ es, e.rep = 0 ∧ e.dl = 0 ∧ e.val.isSome := by
      intro e he; have := hwf.entries e he; rwa [if_pos hreq] at this
    obtain ⟨hl, hm⟩ := required_entries es hent
    rw [← hl, specValues_plain c.ty (nonNull es) hwf.vals]
    simp only [bind, Except.bind, pure, Except.pure, hm]
  · rw [if_neg hreq, if_neg hreq]
    have hreq' : c.isRequired = false := by simpa using hreq
    have hent : ∀ e ∈ es, e.dl ≤ c.maxDef ∧ e.rep ≤ c.maxRep ∧ (e.val.isSome ↔ e.dl = c.maxDef) := by
      intro e he; have := hwf.entries e he; rwa [if_neg hreq] at this
    have hmd := hwf.maxDef
    have hmr := c.maxRep_le_maxDef
    have hwd : 1 ≤ bitsLen c.maxDef ∧ bitsLen c.maxDef ≤ 4 :=
      ⟨one_le_bitsLen _ (one_le_maxDef_of_not_required c hreq'), bitsLen_le_four _ hmd⟩
    have hlen := hwf.len
    -- definition levels, after whatever the repetition section consumed
    have hdefs : ∀ rest, specLevels (bitsLen c.maxDef) es.length c.maxDef
        (encode (bitsLen c.maxDef) (es.map (·.dl)) ++ rest)
          = .ok (es.map (·.dl), (encode (bitsLen c.maxDef) (es.map (·.dl))).length) := by
      intro rest
      have := specLevels_encode c.maxDef (es.map (·.dl))
        (by intro x hx; obtain ⟨e, he, rfl⟩ := List.mem_map.mp hx; exact (hent e he).1)
        hwd (by rw [List.length_map]; exact hlen) rest
      rwa [List.length_map] at this
    have hcount := count_maxDef c.maxDef es (fun e he => (hent e he).2.2)
    have hvals := specValues_plain c.ty (nonNull es) hwf.vals
    by_cases hrep : c.maxRep > 0
    · rw [if_pos hrep, if_pos hrep]
      have hwr : 1 ≤ bitsLen c.maxRep ∧ bitsLen c.maxRep ≤ 4 :=
        ⟨one_le_bitsLen _ hrep, bitsLen_le_four _ (by omega)⟩
      have hreps := specLevels_encode c.maxRep (es.map (·.rep))
        (by intro x hx; obtain ⟨e, he, rfl⟩ := List.mem_map.mp hx; exact (hent e he).2.1)
        hwr (by rw [List.length_map]; exact hlen)
        (encode (bitsLen c.maxDef) (es.map (·.dl)) ++ plainValues c.ty (nonNull es))
      rw [List.length_map] at hreps
      rw [List.append_assoc, hreps]
      simp only [bind, Except.bind, List.drop_left, hdefs, drop_length_add, hcount, hvals]
      exact zipEntries_roundtrip c.maxDef es _ (fun e he => (hent e he).2.2) (Or.inl rfl)
    · rw [if_neg hrep, if_neg hrep]
      simp only [bind, Except.bind, pure, Except.pure, List.drop_zero, List.nil_append, hdefs, Nat.zero_add,
        List.drop_left, hcount, hvals]
      exact zipEntries_roundtrip c.maxDef es _ (fun e he => (hent e he).2.2)
        (Or.inr ⟨rfl, fun e he => by have := (hent e he).2.1; omega⟩)

/-! ## the page header -/

theorem fieldHeader_length_pos (last id code : Nat) : 1 ≤ (fieldHeader last id code).length := by
  unfold fieldHeader; split <;> simp

theorem decFields_cons_int (last id ty : Nat) (n : Int) (fs : List (Nat × TVal)) (hlt : last < id)
    (hty : ty = tI32 ∨ ty = tI64) (f : Nat) (hf : 1 ≤ f) (rest : Bytes)
    (h2 : decFields id f (encFields id fs ++ rest) = some (fs, rest)) :
    decFields last (f + 1) (encFields last ((id, .int ty n) :: fs) ++ rest) = some ((id, .int ty n) :: fs, rest) := by
  have hv : (TVal.int ty n).WF := by simpa [TVal.WF] using hty
  obtain ⟨hc16, hc0⟩ := code_ok _ hv
  have i1 := decVal_enc (.int ty n) hv f (encFields id fs ++ rest) (by simpa [TVal.size] using hf)
  obtain ⟨h, r, he, hne, hmod, hid⟩ := header_dec last id (TVal.int ty n).code hlt hc16 hc0
    ((TVal.int ty n).enc ++ (encFields id fs ++ rest))
  have hnb : ¬ ((TVal.int ty n).code = tTrue ∨ (TVal.int ty n).code = tFalse) := by
    simp only [TVal.code]; unfold tI32 tI64 at hty; unfold tTrue tFalse; omega
  simp only [encFields, List.append_assoc]
  rw [he]
  unfold decFields
  simp only [if_neg hne, hmod, hid, if_neg hnb]
  simp only [TVal.ecode] at i1
  simp only [i1, h2]

theorem pageHeader_size_le (u cz nv : Nat) (sfs : List (Nat × TVal))
    (hsz : sizeFields sfs ≤ (encFields 0 sfs).length) :
    sizeFields [(2, TVal.int 5 (u : Int)), (3, .int 5 (cz : Int)),
           (5, .struct [(1, .int 5 (nv : Int)), (2, .int 5 0), (3, .int 5 3), (4, .int 5 3), (5, .struct sfs)])]
      ≤ (pageHeaderT u cz nv (.struct sfs)).enc.length := by
  have h1 := fun a b c => fieldHeader_length_pos a b c
  have h2 := fun n => uvar_length_pos n
  simp only [pageHeaderT, TVal.enc, encFields, TVal.size, sizeFields, List.length_append, TVal.code]
  have a1 := h1 0 1 5; have a2 := h1 1 2 5; have a3 := h1 2 3 5; have a4 := h1 3 5 tStruct
  have a5 := h1 3 4 5; have a6 := h1 4 5 tStruct
  have b1 := h2 (zig 0); have b2 := h2 (zig u); have b3 := h2 (zig cz); have b4 := h2 (zig nv); have b5 := h2 (zig 3)
  simp only [List.length_cons, List.length_nil]
  omega

theorem pageHeader_wf (u cz nv : Nat) (sfs : List (Nat × TVal)) (hst : WFFields 0 sfs) :
    (pageHeaderT u cz nv (.struct sfs)).WF := by
  simp [pageHeaderT, TVal.WF, WFFields, tI32, tI64, hst]

/-- the thrift decoder, with the fuel `specPage` (and the reader) gives it, returns the page header and
stops exactly at its end -/
theorem decVal_pageHeader (u cz nv : Nat) (sfs : List (Nat × TVal)) (hst : WFFields 0 sfs)
    (hsz : sizeFields sfs ≤ (encFields 0 sfs).length) (t : Bytes) (F : Nat)
    (hF : (pageHeaderT u cz nv (.struct sfs)).enc.length + 2 ≤ F) :
    decVal tStruct F ((pageHeaderT u cz nv (.struct sfs)).enc ++ t) = some (pageHeaderT u cz nv (.struct sfs), t) := by
  have hle := pageHeader_size_le u cz nv sfs hsz
  have hwf := pageHeader_wf u cz nv sfs hst
  generalize hL : (pageHeaderT u cz nv (.struct sfs)).enc.length = L at hle hF
  have hwf3 : WFFields 1 [(2, TVal.int 5 (u : Int)), (3, .int 5 (cz : Int)),
           (5, .struct [(1, .int 5 (nv : Int)), (2, .int 5 0), (3, .int 5 3), (4, .int 5 3), (5, .struct sfs)])] := by
    simp [TVal.WF, WFFields, tI32, tI64, hst]
  have h3 := decFields_enc 1 _ hwf3 L t hle
  have hL1 : 1 ≤ L := by simp only [sizeFields, TVal.size] at hle; omega
  have h4 := decFields_cons_int 0 1 5 0 _ (by omega) (Or.inl rfl) L hL1 t h3
  have h5 : decVal tStruct (L + 2) ((pageHeaderT u cz nv (.struct sfs)).enc ++ t)
      = some (pageHeaderT u cz nv (.struct sfs), t) := by
    unfold decVal
    rw [if_neg (by unfold tStruct tTrue tFalse; omega), if_neg (by unfold tStruct tI32 tI64; omega),
      if_neg (by unfold tStruct tBin; omega), if_neg (by unfold tStruct tList; omega), if_pos rfl]
    simp only [pageHeaderT, TVal.enc] at h4 ⊢
    rw [h4]
  exact decVal_fuel_mono h5 hF

/-- the fields of the `Statistics` struct of a page header -/
def statsFields (r : Option Nat × Option Bytes × Option Bytes) : List (Nat × TVal) := (statsT r).fieldsOf

theorem statsT_eq (r : Option Nat × Option Bytes × Option Bytes) : statsT r = .struct (statsFields r) := rfl

theorem statsFields_wf (r : Option Nat × Option Bytes × Option Bytes) : WFFields 0 (statsFields r) := by
  obtain ⟨a, b, c⟩ := r
  cases a <;> cases b <;> cases c <;> simp [statsFields, statsT, TVal.fieldsOf, WFFields, TVal.WF, tI32, tI64]

theorem flat_nil (last : Nat) : sizeFields [] ≤ (encFields last []).length := by
  simp [sizeFields, encFields]

theorem flat_cons_int (last id ty : Nat) (n : Int) (fs : List (Nat × TVal))
    (h : sizeFields fs ≤ (encFields id fs).length) :
    sizeFields ((id, .int ty n) :: fs) ≤ (encFields last ((id, .int ty n) :: fs)).length := by
  have h1 := fieldHeader_length_pos last id (TVal.int ty n).code
  have h2 := uvar_length_pos (zig n)
  simp only [sizeFields, TVal.size, encFields, TVal.enc, List.length_append]
  omega

theorem flat_cons_bin (last id : Nat) (b : Bytes) (fs : List (Nat × TVal))
    (h : sizeFields fs ≤ (encFields id fs).length) :
    sizeFields ((id, .bin b) :: fs) ≤ (encFields last ((id, .bin b) :: fs)).length := by
  have h1 := fieldHeader_length_pos last id (TVal.bin b).code
  have h2 := uvar_length_pos b.length
  simp only [sizeFields, TVal.size, encFields, TVal.enc, List.length_append]
  omega

theorem statsFields_size (r : Option Nat × Option Bytes × Option Bytes) :
    sizeFields (statsFields r) ≤ (encFields 0 (statsFields r)).length := by
  obtain ⟨a, b, c⟩ := r
  cases a <;> cases b <;> cases c <;>
    simp only [statsFields, statsT, TVal.fieldsOf, List.nil_append, List.append_nil, List.cons_append] <;>
    repeat (first | apply flat_nil | apply flat_cons_int | apply flat_cons_bin)

theorem decPHdr_pageHeader (u cz nv : Nat) (sfs : List (Nat × TVal)) :
    decPHdr (pageHeaderT u cz nv (.struct sfs)) =
      some { ty := 0, uncompressed := u, compressed := cz, dph := some (nv, 0, 3, 3, some sfs),
             hasDict := false, hasIndex := false, hasV2 := false } := by
  simp [decPHdr, pageHeaderT, TVal.fieldsOf, getI32, getStruct, List.lookup]

/-- **Parser side of the page theorem**: if the bytes at `pos` start with a v1 PLAIN/RLE page header,
the announced compressed size is available, decompresses (codec 0: is) to `raw` of the announced
uncompressed size, and `raw` decodes to `es`, then `specPage` returns exactly that. -/
theorem specPage_of_header (dc : Decomp) (c : Col) (codec : Int) (file : Bytes) (pos : Nat)
    (u cz nv : Nat) (sfs : List (Nat × TVal)) (t raw : Bytes) (es : List (Entry Bytes))
    (hdec : decVal tStruct ((file.drop pos).length + 2) (file.drop pos) = some (pageHeaderT u cz nv (.struct sfs), t))
    (hcz : cz ≤ t.length)
    (hraw : (codec = 0 ∧ t.take cz = raw) ∨ (codec = 1 ∧ dc.snappy (t.take cz) = some raw) ∨
      (codec = 2 ∧ dc.gzip (t.take cz) = some raw))
    (hu : raw.length = u) (hpay : decodePayload c nv raw = .ok es) :
    specPage dc c codec file pos =
      .ok { numValues := nv, entries := es, headerLen := (file.drop pos).length - t.length,
            compressedLen := cz, uncompressedLen := u, stats := some sfs } := by
  unfold specPage
  simp only [hdec, decPHdr_pageHeader, bind, Except.bind, pure, Except.pure]
  simp only [decodePayload, bind, Except.bind, pure, Except.pure] at hpay
  have hneg : ¬ ((nv : Int) < 0 ∨ (cz : Int) < 0 ∨ (u : Int) < 0) := by omega
  have htl : ¬ ((t.take cz).length < cz) := by simp only [List.length_take]; omega
  simp only [ne_eq, not_true_eq_false, if_false, and_false, hneg, Int.toNat_natCast, htl]
  rcases hraw with ⟨h0, hr⟩ | ⟨h1, hr⟩ | ⟨h2, hr⟩
  · subst h0
    simp only [if_true, hr, hu, not_true_eq_false, if_false, hpay]
  · subst h1
    simp only [show ¬ ((1 : Int) = 0) by decide, if_false, if_true, hr, hu, not_true_eq_false, hpay]
  · subst h2
    simp only [show ¬ ((2 : Int) = 0) by decide, show ¬ ((2 : Int) = 1) by decide, if_false, if_true, hr, hu,
      not_true_eq_false, hpay]

/-- what the writer's codec and the parser's decompressor have to agree on for one payload: codec 0
stores the payload as it is; 1 (snappy) and 2 (gzip) are the external libraries, whose decoder must
invert their encoder on this payload -/
def CodecOK (dc : Decomp) (k : Codec) (codec : Int) (raw : Bytes) : Prop :=
  (codec = 0 ∧ k.id = 0) ∨ (codec = 1 ∧ k.id ≠ 0 ∧ dc.snappy (k.compress raw) = some raw) ∨
    (codec = 2 ∧ k.id ≠ 0 ∧ dc.gzip (k.compress raw) = some raw)

/-- the statistics fields of a page's header -/
def pageStatsFields (c : Col) (es : PageEntries) : List (Nat × TVal) :=
  statsFields ((pageStats c es).result c.ty c.isRequired)

theorem pageBytes_eq (k : Codec) (c : Col) (es : PageEntries) :
    pageBytes k c es = ((pageHeaderT (pagePayload c es).length (k.apply (pagePayload c es)).length es.length
      (.struct (pageStatsFields c es))).enc, k.apply (pagePayload c es)) := rfl

/-- **The page round trip (C01 core, C02 lengths).**  Wherever the two `Write`s of a well-formed page
land in a file (`pre` before, `rest` after), the specification parser started at the page's offset
returns exactly the page's entries; the header length, the compressed and the uncompressed sizes it
reports are the lengths of the header bytes, of the stored payload and of the uncompressed payload. -/
theorem specPage_pageBytes_codec (dc : Decomp) (k : Codec) (codec : Int) (c : Col) (es : PageEntries)
    (hwf : WFPage c es) (hk : CodecOK dc k codec (pagePayload c es)) (pre rest : Bytes) :
    specPage dc c codec (pre ++ (pageBytes k c es).1 ++ (pageBytes k c es).2 ++ rest) pre.length =
      .ok { numValues := es.length, entries := es, headerLen := (pageBytes k c es).1.length,
            compressedLen := (pageBytes k c es).2.length, uncompressedLen := (pagePayload c es).length,
            stats := some (pageStatsFields c es) } := by
  rw [pageBytes_eq]
  simp only
  generalize hh : pageHeaderT (pagePayload c es).length (k.apply (pagePayload c es)).length es.length
      (.struct (pageStatsFields c es)) = hdr
  have hdrop : (pre ++ hdr.enc ++ k.apply (pagePayload c es) ++ rest).drop pre.length
      = hdr.enc ++ (k.apply (pagePayload c es) ++ rest) := by
    rw [List.append_assoc, List.append_assoc, List.drop_left]
  have hdec := decVal_pageHeader (pagePayload c es).length (k.apply (pagePayload c es)).length es.length
    (pageStatsFields c es) (statsFields_wf _) (statsFields_size _) (k.apply (pagePayload c es) ++ rest)
    ((hdr.enc ++ (k.apply (pagePayload c es) ++ rest)).length + 2)
    (by rw [hh]; simp only [List.length_append]; omega)
  rw [hh] at hdec
  have hmain := specPage_of_header dc c codec (pre ++ hdr.enc ++ k.apply (pagePayload c es) ++ rest) pre.length
    (pagePayload c es).length (k.apply (pagePayload c es)).length es.length (pageStatsFields c es)
    (k.apply (pagePayload c es) ++ rest) (pagePayload c es) es
    (by rw [hdrop, hh]; exact hdec) (by simp only [List.length_append]; omega)
    (by
      rw [List.take_left]
      rcases hk with ⟨h0, hid⟩ | ⟨h1, hid, hs⟩ | ⟨h2, hid, hs⟩
      · exact Or.inl ⟨h0, by unfold Codec.apply; rw [if_pos hid]⟩
      · exact Or.inr (Or.inl ⟨h1, by unfold Codec.apply; rw [if_neg hid]; exact hs⟩)
      · exact Or.inr (Or.inr ⟨h2, by unfold Codec.apply; rw [if_neg hid]; exact hs⟩))
    rfl (payload_roundtrip c es hwf)
  rw [hmain, hdrop]
  simp only [List.length_append, Nat.add_sub_cancel]

/-- **Uncompressed pages** (`k.id = 0`, codec 0 in the column-chunk metadata). -/
theorem specPage_pageBytes (dc : Decomp) (k : Codec) (hk : k.id = 0) (c : Col) (es : PageEntries)
    (hwf : WFPage c es) (pre rest : Bytes) :
    specPage dc c 0 (pre ++ (pageBytes k c es).1 ++ (pageBytes k c es).2 ++ rest) pre.length =
      .ok { numValues := es.length, entries := es, headerLen := (pageBytes k c es).1.length,
            compressedLen := (pagePayload c es).length, uncompressedLen := (pagePayload c es).length,
            stats := some (pageStatsFields c es) } := by
  have := specPage_pageBytes_codec dc k 0 c es hwf (Or.inl ⟨rfl, hk⟩) pre rest
  have h2 : (pageBytes k c es).2 = pagePayload c es := by
    rw [pageBytes_eq]; simp only; unfold Codec.apply; rw [if_pos hk]
  rw [this, h2]

/-- **Snappy pages**, parametric in the external library inverting itself on this payload. -/
theorem specPage_pageBytes_snappy (dc : Decomp) (k : Codec) (hk : k.id ≠ 0) (c : Col) (es : PageEntries)
    (hwf : WFPage c es) (hsn : dc.snappy (k.compress (pagePayload c es)) = some (pagePayload c es))
    (pre rest : Bytes) :
    specPage dc c 1 (pre ++ (pageBytes k c es).1 ++ (pageBytes k c es).2 ++ rest) pre.length =
      .ok { numValues := es.length, entries := es, headerLen := (pageBytes k c es).1.length,
            compressedLen := (k.compress (pagePayload c es)).length, uncompressedLen := (pagePayload c es).length,
            stats := some (pageStatsFields c es) } := by
  have := specPage_pageBytes_codec dc k 1 c es hwf (Or.inr (Or.inl ⟨rfl, hk, hsn⟩)) pre rest
  have h2 : (pageBytes k c es).2 = k.compress (pagePayload c es) := by
    rw [pageBytes_eq]; simp only; unfold Codec.apply; rw [if_neg hk]
  rw [this, h2]

/-- **Gzip pages**, likewise. -/
theorem specPage_pageBytes_gzip (dc : Decomp) (k : Codec) (hk : k.id ≠ 0) (c : Col) (es : PageEntries)
    (hwf : WFPage c es) (hgz : dc.gzip (k.compress (pagePayload c es)) = some (pagePayload c es))
    (pre rest : Bytes) :
    specPage dc c 2 (pre ++ (pageBytes k c es).1 ++ (pageBytes k c es).2 ++ rest) pre.length =
      .ok { numValues := es.length, entries := es, headerLen := (pageBytes k c es).1.length,
            compressedLen := (k.compress (pagePayload c es)).length, uncompressedLen := (pagePayload c es).length,
            stats := some (pageStatsFields c es) } := by
  have := specPage_pageBytes_codec dc k 2 c es hwf (Or.inr (Or.inr ⟨rfl, hk, hgz⟩)) pre rest
  have h2 : (pageBytes k c es).2 = k.compress (pagePayload c es) := by
    rw [pageBytes_eq]; simp only; unfold Codec.apply; rw [if_neg hk]
  rw [this, h2]

/-- the next page starts right after: header length + compressed length is what `pageBytes` wrote -/
theorem pageBytes_extent (k : Codec) (c : Col) (es : PageEntries) :
    ((pageBytes k c es).1 ++ (pageBytes k c es).2).length
      = (pageBytes k c es).1.length + (k.apply (pagePayload c es)).length := by
  rw [List.length_append, pageBytes_eq]

/-- **C02, section lengths**: the uncompressed payload is the repetition section (only below a repeated
element), the definition section and the value section, of exactly these lengths -/
theorem pagePayload_length (c : Col) (es : PageEntries) :
    (pagePayload c es).length =
      (if c.isRequired then 0 else
        (if c.maxRep > 0 then (encode (bitsLen c.maxRep) (es.map (·.rep))).length else 0) +
        (encode (bitsLen c.maxDef) (es.map (·.dl))).length) +
      (plainValues c.ty (nonNull es)).length := by
  unfold pagePayload
  by_cases h : c.isRequired = true
  · simp [h]
  · by_cases h2 : c.maxRep > 0 <;> simp [h, h2, Nat.add_assoc]

/-- `specPage`, with its `entries ←` block named -/
def specPage' (dc : Decomp) (c : Col) (codec : Int) (file : Bytes) (pos : Nat) : V SpecPage := do
  let rest := file.drop pos
  let (t, rest') ← match decVal tStruct (rest.length + 2) rest with
    | some r => pure r
    | none => .error "page: header is not a thrift struct"
  let hlen := rest.length - rest'.length
  let ph ← match decPHdr t with | some p => pure p | none => .error "page: header lacks a required field"
  if ph.ty ≠ 0 then .error "page: not a v1 data page" else
  let (nv, enc, denc, renc, st) ← match ph.dph with | some d => pure d | none => .error "page: no data_page_header"
  if enc ≠ 0 then .error "page: value encoding is not PLAIN" else
  if nv < 0 ∨ ph.compressed < 0 ∨ ph.uncompressed < 0 then .error "page: negative count or size" else
  if ¬ c.isRequired ∧ denc ≠ 3 then .error "page: definition levels are not RLE" else
  if c.maxRep > 0 ∧ renc ≠ 3 then .error "page: repetition levels are not RLE" else
  let comp := rest'.take ph.compressed.toNat
  if comp.length < ph.compressed.toNat then .error "page: compressed_page_size exceeds the file" else
  let raw ← (if codec = 0 then pure comp
             else if codec = 1 then (match dc.snappy comp with | some d => pure d | none => .error "page: snappy payload does not decode")
             else if codec = 2 then (match dc.gzip comp with | some d => pure d | none => .error "page: gzip payload does not decode")
             else .error "chunk: unsupported codec")
  if raw.length ≠ ph.uncompressed.toNat then .error "page: uncompressed_page_size disagrees with the payload" else
  let n := nv.toNat
  let entries ← decodePayload c n raw
  pure { numValues := n, entries := entries, headerLen := hlen, compressedLen := ph.compressed.toNat,
         uncompressedLen := ph.uncompressed.toNat, stats := st }

/-- `decodePayload` is literally what `specPage` runs on the uncompressed payload -/
theorem specPage_eq_specPage' (dc : Decomp) (c : Col) (codec : Int) (file : Bytes) (pos : Nat) :
    specPage dc c codec file pos = specPage' dc c codec file pos := rfl

/-! ## non-vacuity: concrete columns and pages satisfying `WFPage` -/
section NonVacuity

/-- an optional int32 column; a page with a null between two values -/
def exCol : Col := { path := ["a"], reps := [.opt], ty := .i32 }
def exPage : PageEntries := [⟨0, 1, some [1, 0, 0, 0]⟩, ⟨0, 0, none⟩, ⟨0, 1, some [255, 255, 255, 255]⟩]

theorem exPage_wf : WFPage exCol exPage := ⟨by decide, by decide, by decide, by decide⟩

/-- a repeated group of optional strings (`maxRep = 1`, `maxDef = 2`): one record `["hi", null]`, one empty -/
def exCol2 : Col := { path := ["l", "s"], reps := [.rpt, .opt], ty := .str }
def exPage2 : PageEntries := [⟨0, 2, some [104, 105]⟩, ⟨1, 1, none⟩, ⟨0, 0, none⟩]

theorem exPage2_wf : WFPage exCol2 exPage2 := ⟨by decide, by decide, by decide, by decide⟩

/-- a required boolean column (no level sections) -/
def exCol3 : Col := { path := ["b"], reps := [.req], ty := .bool }
def exPage3 : PageEntries := [⟨0, 0, some [1]⟩, ⟨0, 0, some [0]⟩, ⟨0, 0, some [1]⟩]

theorem exPage3_wf : WFPage exCol3 exPage3 := ⟨by decide, by decide, by decide, by decide⟩

/-- the uncompressed codec satisfies `CodecOK` for every payload and decompressor -/
example (dc : Decomp) (raw : Bytes) : CodecOK dc ⟨0, id⟩ 0 raw := Or.inl ⟨rfl, rfl⟩

example : decodePayload exCol exPage.length (pagePayload exCol exPage) = .ok exPage :=
  payload_roundtrip exCol exPage exPage_wf

example (dc : Decomp) (pre rest : Bytes) :
    (specPage dc exCol2 0 (pre ++ (pageBytes ⟨0, id⟩ exCol2 exPage2).1 ++ (pageBytes ⟨0, id⟩ exCol2 exPage2).2 ++ rest)
      pre.length).map (·.entries) = .ok exPage2 := by
  rw [specPage_pageBytes dc ⟨0, id⟩ rfl exCol2 exPage2 exPage2_wf]; rfl

/-- the value section of the required boolean page: 3 bits in one byte, no levels -/
example : pagePayload exCol3 exPage3 = [5] := by decide

end NonVacuity

end PQ
