import PQ.Lemmas.Plain
import PQ.Lemmas.Thrift
import PQ.Lemmas.Dremel
import PQ.Lemmas.RleEnc
import PQ.Lemmas.RleDec
import PQ.Lemmas.RleImpl
/-!
# The page-level round trip

`pageBytes k c es` (what the writer puts in the file for one page) is parsed by the independent
specification parser `specPage` back to exactly `es`, with exactly the section lengths the header
announces (C01 core, C02 lengths).
-/
namespace PQ
open PQ.Thrift

/-! ## level sections -/

theorem one_le_bitsLen (n : Nat) (h : 1 ≤ n) : 1 ≤ bitsLen n := by
  unfold bitsLen
  rw [if_neg (by omega)]
  omega

theorem bitsLen_le_four (n : Nat) (h : n ≤ 15) : bitsLen n ≤ 4 :=
  bitsLen_le_of_lt_two_pow n 4 (by omega)

/-- **A level section written by the library is accepted by the specification decoder**, which
returns exactly the levels (padding stripped and checked) and the section's byte length, whatever
follows the section. -/
theorem specLevels_encode (maxLevel : Nat) (xs : List Nat) (hx : ∀ x ∈ xs, x ≤ maxLevel)
    (hw : 1 ≤ bitsLen maxLevel ∧ bitsLen maxLevel ≤ 4) (hlen : xs.length + 8 ≤ 2 ^ 30) (rest : Bytes) :
    specLevels (bitsLen maxLevel) xs.length maxLevel (encode (bitsLen maxLevel) xs ++ rest)
      = .ok (xs, (encode (bitsLen maxLevel) xs).length) := by
  have hx' : ∀ x ∈ xs, x < 2 ^ bitsLen maxLevel := fun x h =>
    Nat.lt_of_le_of_lt (hx x h) (lt_two_pow_bitsLen maxLevel)
  obtain ⟨runs, pad, henc, hwfs, hb, hvals, hpad⟩ := encode_runs (bitsLen maxLevel) hw xs hx' hlen
  have hvlen : (runsVals runs).length = xs.length + pad := by rw [hvals]; simp
  have h30 : (2 : Nat) ^ 32 = 4 * 2 ^ 30 := by decide
  have hsl := serRuns_length_le (bitsLen maxLevel) (by omega) runs hwfs hb
  have hn : (serRuns (bitsLen maxLevel) runs).length < 2 ^ 32 := by omega
  have hwf : ∀ r ∈ runs, r.WF (bitsLen maxLevel) := fun r hr => wf_of _ r (hwfs r hr) (hb r hr)
  have hdec := specDecode_ser (bitsLen maxLevel) runs hwf hn rest
  have hel : (encode (bitsLen maxLevel) xs).length = 4 + (serRuns (bitsLen maxLevel) runs).length := by
    rw [henc, List.length_append, le32_length]
  unfold specLevels
  rw [hel, henc, List.append_assoc, hdec]
  simp only [hvals]
  rw [if_neg (by simp), if_neg (by simp only [List.length_append, List.length_replicate]; omega)]
  have h1 : ((xs ++ List.replicate pad 0).drop xs.length).any (· != 0) = false := by
    rw [List.drop_left]; simp
  have h2 : ((xs ++ List.replicate pad 0).take xs.length).any (· > maxLevel) = false := by
    rw [List.take_left]
    simp only [List.any_eq_false, decide_eq_true_eq]
    intro x hx1; have := hx x hx1; omega
  rw [h1, h2]
  simp only [Bool.false_eq_true, if_false, List.take_left]

/-- the reader's `readLevels` on the same section: the levels plus fewer than 8 zeros of padding
(which `OptionalField.DoRead` cuts off with `[:nv]`) -/
theorem readLevelsAt_encode (maxLevel : Nat) (xs : List Nat) (hx : ∀ x ∈ xs, x ≤ maxLevel)
    (hw : 1 ≤ bitsLen maxLevel ∧ bitsLen maxLevel ≤ 4) (hlen : xs.length + 8 ≤ 2 ^ 30) (pre rest : Bytes) :
    ∃ pad, pad < 8 ∧
      readLevelsAt (bitsLen maxLevel) (pre ++ encode (bitsLen maxLevel) xs ++ rest) pre.length
        = .ok (xs ++ List.replicate pad 0, (encode (bitsLen maxLevel) xs).length) := by
  have hx' : ∀ x ∈ xs, x < 2 ^ bitsLen maxLevel := fun x h =>
    Nat.lt_of_le_of_lt (hx x h) (lt_two_pow_bitsLen maxLevel)
  obtain ⟨pad, hpad, h⟩ := impl_decode_encode (bitsLen maxLevel) hw xs hx' hlen rest
  refine ⟨pad, hpad, ?_⟩
  unfold readLevelsAt
  rw [if_neg (by simp only [List.length_append]; omega), List.append_assoc, List.drop_left, h]

/-! ## entries from levels and values -/

theorem nonNull_nil : nonNull [] = [] := rfl

theorem nonNull_cons_some (r d : Nat) (v : Bytes) (es : PageEntries) :
    nonNull (⟨r, d, some v⟩ :: es) = v :: nonNull es := rfl

theorem nonNull_cons_none (r d : Nat) (es : PageEntries) :
    nonNull (⟨r, d, none⟩ :: es) = nonNull es := rfl

/-- the number of values is the number of entries at the maximum definition level -/
theorem count_maxDef (maxDef : Nat) (es : PageEntries) (h : ∀ e ∈ es, (e.val.isSome ↔ e.dl = maxDef)) :
    ((es.map (·.dl)).filter (· = maxDef)).length = (nonNull es).length := by
  induction es with
  | nil => rfl
  | cons e es ih =>
    have h1 := h e (by simp)
    have h2 := ih (fun x hx => h x (by simp [hx]))
    obtain ⟨r, d, v⟩ := e
    cases v with
    | none =>
      have : ¬ d = maxDef := by intro hd; have := h1.mpr hd; simp at this
      simp only [List.map_cons, nonNull_cons_none]
      rw [List.filter_cons_of_neg (by simpa using this), h2]
    | some v =>
      have : d = maxDef := h1.mp rfl
      simp only [List.map_cons, nonNull_cons_some, List.length_cons]
      rw [List.filter_cons_of_pos (by simpa using this), List.length_cons, h2]

/-- `zipEntries` rebuilds the entries from their levels and non-null values; `rs` is the repetition
levels, or nothing at all for a column without repeated ancestors (every `rep` is then 0) -/
theorem zipEntries_roundtrip (maxDef : Nat) (es : PageEntries) (rs : List Nat)
    (h : ∀ e ∈ es, (e.val.isSome ↔ e.dl = maxDef))
    (hrs : rs = es.map (·.rep) ∨ (rs = [] ∧ ∀ e ∈ es, e.rep = 0)) :
    zipEntries maxDef (es.map (·.dl)) rs (nonNull es) = .ok es := by
  induction es generalizing rs with
  | nil => rfl
  | cons e es ih =>
    have h1 := h e (by simp)
    have hr : rs.head?.getD 0 = e.rep := by
      rcases hrs with rfl | ⟨rfl, h0⟩
      · rfl
      · exact (h0 e (by simp)).symm
    have hrs' : rs.tail = es.map (·.rep) ∨ (rs.tail = [] ∧ ∀ e ∈ es, e.rep = 0) := by
      rcases hrs with rfl | ⟨rfl, h0⟩
      · exact Or.inl rfl
      · exact Or.inr ⟨rfl, fun x hx => h0 x (by simp [hx])⟩
    have h2 := ih rs.tail (fun x hx => h x (by simp [hx])) hrs'
    obtain ⟨r, d, v⟩ := e
    simp only at hr
    cases v with
    | none =>
      have : ¬ d = maxDef := by intro hd; have := h1.mpr hd; simp at this
      simp only [List.map_cons, nonNull_cons_none]
      unfold zipEntries
      simp only [if_neg this, h2, hr, Except.map]
    | some v =>
      have : d = maxDef := h1.mp rfl
      simp only [List.map_cons, nonNull_cons_some]
      unfold zipEntries
      simp only [if_pos this, h2, hr, Except.map]

theorem required_entries (es : PageEntries) (h : ∀ e ∈ es, e.rep = 0 ∧ e.dl = 0 ∧ e.val.isSome) :
    (nonNull es).length = es.length ∧ (nonNull es).map (fun v => (⟨0, 0, some v⟩ : Entry Bytes)) = es := by
  induction es with
  | nil => exact ⟨rfl, rfl⟩
  | cons e es ih =>
    have h1 := h e (by simp)
    have h2 := ih (fun x hx => h x (by simp [hx]))
    obtain ⟨r, d, v⟩ := e
    obtain ⟨hr, hd, hv⟩ := h1
    simp only at hr hd
    subst hr; subst hd
    cases v with
    | none => simp at hv
    | some v =>
      simp only [nonNull_cons_some, List.length_cons, List.map_cons, h2.1, h2.2, and_self]

/-- an `OptionalField` column has at least one optional or repeated path element -/
theorem one_le_maxDef_of_not_required (c : Col) (h : c.isRequired = false) : 1 ≤ c.maxDef := by
  unfold Col.isRequired at h
  unfold Col.maxDef
  generalize c.reps = ts at h
  induction ts with
  | nil => simp at h
  | cons t ts ih =>
    cases t with
    | req =>
      simp only [List.all_cons] at h
      simpa [maxDef] using ih h
    | opt => simp [maxDef]
    | rpt => simp [maxDef]

theorem Col.maxRep_le_maxDef (c : Col) : c.maxRep ≤ c.maxDef := PQ.maxRep_le_maxDef c.reps

theorem drop_length_add {α : Type} (a b : List α) (n : Nat) : (a ++ b).drop (a.length + n) = b.drop n := by
  induction a with
  | nil => simp
  | cons x a ih =>
    have : (x :: a).length + n = (a.length + n) + 1 := by simp only [List.length_cons]; omega
    rw [this, List.cons_append, List.drop_succ_cons, ih]

/-! ## the payload -/

/-- the `entries ←` block of `specPage`: levels (repetition only for columns below a repeated
element), the number of values = the number of entries at the maximum definition level, the values,
and the zip -/
def decodePayload (c : Col) (n : Nat) (raw : Bytes) : V (List (Entry Bytes)) :=
  (if c.isRequired then do
      let vs ← specValues c.ty n raw
      pure (vs.map fun v => (⟨0, 0, some v⟩ : Entry Bytes))
    else do
      let (reps, l1) ← (if c.maxRep > 0 then specLevels (bitsLen c.maxRep) n c.maxRep raw else pure ([], 0))
      let (defs, l2) ← specLevels (bitsLen c.maxDef) n c.maxDef (raw.drop l1)
      let k := (defs.filter (· = c.maxDef)).length
      let vs ← specValues c.ty k (raw.drop (l1 + l2))
      zipEntries c.maxDef defs reps vs)

/-- **Payload round trip.**  The uncompressed payload of a well-formed page decodes, the way the
specification parser does it, to exactly the page's entries. -/
theorem payload_roundtrip (c : Col) (es : PageEntries) (hwf : WFPage c es) :
    decodePayload c es.length (pagePayload c es) = .ok es := by
  unfold decodePayload pagePayload
  by_cases hreq : c.isRequired = true
  · rw [if_pos hreq, if_pos hreq]
    have hent : ∀ e ∈ es, e.rep = 0 ∧ e.dl = 0 ∧ e.val.isSome := by
      intro e he; have := hwf.entries e he; rwa [if_pos hreq] at this
    obtain ⟨hl, hm⟩ := required_entries es hent
    rw [← hl, specValues_plain c.ty (nonNull es) hwf.vals]
    simp only [bind, Except.bind, pure, Except.pure, hm]
  · rw [if_neg hreq, if_neg hreq]
    have hreq' : c.isRequired = false := by simpa using hreq
    have hent : ∀ e ∈ es, e.dl ≤ c.maxDef ∧ e.rep ≤ c.maxRep ∧ (e.val.isSome ↔ e.dl = c.maxDef) := by
      intro e he; have := hwf.entries e he; rwa [if_neg hreq] at this
    have hmd := hwf.maxDef
    have hmr := c.maxRep_le_maxDef
    have hwd : 1 ≤ bitsLen c.maxDef ∧ bitsLen c.maxDef ≤ 4 :=
      ⟨one_le_bitsLen _ (one_le_maxDef_of_not_required c hreq'), bitsLen_le_four _ hmd⟩
    have hlen := hwf.len
    -- definition levels, after whatever the repetition section consumed
    have hdefs : ∀ rest, specLevels (bitsLen c.maxDef) es.length c.maxDef
        (encode (bitsLen c.maxDef) (es.map (·.dl)) ++ rest)
          = .ok (es.map (·.dl), (encode (bitsLen c.maxDef) (es.map (·.dl))).length) := by
      intro rest
      have := specLevels_encode c.maxDef (es.map (·.dl))
        (by intro x hx; obtain ⟨e, he, rfl⟩ := List.mem_map.mp hx; exact (hent e he).1)
        hwd (by rw [List.length_map]; exact hlen) rest
      rwa [List.length_map] at this
    have hcount := count_maxDef c.maxDef es (fun e he => (hent e he).2.2)
    have hvals := specValues_plain c.ty (nonNull es) hwf.vals
    by_cases hrep : c.maxRep > 0
    · rw [if_pos hrep, if_pos hrep]
      have hwr : 1 ≤ bitsLen c.maxRep ∧ bitsLen c.maxRep ≤ 4 :=
        ⟨one_le_bitsLen _ hrep, bitsLen_le_four _ (by omega)⟩
      have hreps := specLevels_encode c.maxRep (es.map (·.rep))
        (by intro x hx; obtain ⟨e, he, rfl⟩ := List.mem_map.mp hx; exact (hent e he).2.1)
        hwr (by rw [List.length_map]; exact hlen)
        (encode (bitsLen c.maxDef) (es.map (·.dl)) ++ plainValues c.ty (nonNull es))
      rw [List.length_map] at hreps
      rw [List.append_assoc, hreps]
      simp only [bind, Except.bind, List.drop_left, hdefs, drop_length_add, hcount, hvals]
      exact zipEntries_roundtrip c.maxDef es _ (fun e he => (hent e he).2.2) (Or.inl rfl)
    · rw [if_neg hrep, if_neg hrep]
      simp only [bind, Except.bind, pure, Except.pure, List.drop_zero, List.nil_append, hdefs, Nat.zero_add,
        List.drop_left, hcount, hvals]
      exact zipEntries_roundtrip c.maxDef es _ (fun e he => (hent e he).2.2)
        (Or.inr ⟨rfl, fun e he => by have := (hent e he).2.1; omega⟩)

end PQ
