import PQ.Model.Rle
import PQ.Lemmas.BitpackNat
import PQ.Lemmas.RleEnc
import PQ.Lemmas.RleDec
/-!
# The implementation decoder (`RLE.Read`) accepts every well-formed stream

`implRuns_ser`: `implRuns` (the mirror of the Go run loop, with `uint64` header arithmetic and
short reads) applied to the specification serialisation of any list of well-formed runs returns the
runs' values.
-/
namespace PQ
open PQ.Gen

/-! ### `readLEB128` (uint64 accumulator) reads ULEB128 -/

theorem implReadLeb_uleb (n : Nat) (rest : Bytes) (fuel shift acc : Nat)
    (hacc : acc < 2 ^ shift) (hn : n * 2 ^ shift < 2 ^ 64) (hf : (uleb n).length ≤ fuel) :
    implReadLeb fuel (uleb n ++ rest) shift acc = .ok (acc + n * 2 ^ shift, rest) := by
  induction n using Nat.strongRecOn generalizing fuel shift acc with
  | _ n ih =>
    have hP : 0 < 2 ^ shift := Nat.pow_pos (by omega)
    have hr : n % 128 * 2 ^ shift ≤ n * 2 ^ shift := Nat.mul_le_mul_right _ (Nat.mod_le _ _)
    have hor : acc ||| ((n % 128) <<< shift) % 2 ^ 64 = n % 128 * 2 ^ shift + acc := by
      rw [Nat.shiftLeft_eq, Nat.mod_eq_of_lt (by omega), ← Nat.shiftLeft_eq, Nat.or_comm,
        ← Nat.shiftLeft_add_eq_or_of_lt hacc, Nat.shiftLeft_eq]
    rw [uleb] at hf ⊢
    by_cases h : n / 128 ≠ 0
    · rw [dif_pos h] at hf ⊢
      cases fuel with
      | zero => simp at hf
      | succ f =>
        have hb : (n % 128 + 128) % 128 = n % 128 := by omega
        have hc : ¬ ((n % 128 + 128) / 128 % 2 = 0) := by omega
        simp only [List.cons_append, implReadLeb, hb, hor, if_neg hc]
        have hpow : 2 ^ (shift + 7) = 2 ^ shift * 128 := by rw [Nat.pow_add]
        have h127 : n % 128 * 2 ^ shift ≤ 127 * 2 ^ shift := Nat.mul_le_mul_right _ (by omega)
        have hsplit : n * 2 ^ shift = n / 128 * (2 ^ shift * 128) + n % 128 * 2 ^ shift := by
          have e : n = n / 128 * 128 + n % 128 := by omega
          calc n * 2 ^ shift = (n / 128 * 128 + n % 128) * 2 ^ shift := by rw [← e]
            _ = n / 128 * 128 * 2 ^ shift + n % 128 * 2 ^ shift := Nat.add_mul _ _ _
            _ = n / 128 * (2 ^ shift * 128) + n % 128 * 2 ^ shift := by
                rw [Nat.mul_assoc, Nat.mul_comm 128 (2 ^ shift)]
        rw [ih (n / 128) (by omega) f (shift + 7) (n % 128 * 2 ^ shift + acc)
          (by rw [hpow]; omega) (by rw [hpow]; omega) (by simpa using hf)]
        rw [hpow]
        congr 2
        omega
    · rw [dif_neg h] at hf ⊢
      have hn0 : n % 128 = n := by omega
      have hb : n % 128 % 128 = n % 128 := by omega
      have hc : n % 128 / 128 % 2 = 0 := by omega
      cases fuel with
      | zero => simp at hf
      | succ f =>
        simp only [List.cons_append, List.nil_append, implReadLeb, hb, hor, if_pos hc]
        rw [hn0, Nat.add_comm]

theorem implReadLeb_uleb0 (n : Nat) (rest : Bytes) (fuel : Nat) (hn : n < 2 ^ 64)
    (hf : (uleb n).length ≤ fuel) : implReadLeb fuel (uleb n ++ rest) 0 0 = .ok (n, rest) := by
  have := implReadLeb_uleb n rest fuel 0 0 (by decide) (by simpa using hn) hf
  simpa using this

/-! ### reads and chunking -/

theorem shortRead_exact (n : Nat) (a b : Bytes) (h : a.length = n) : shortRead n (a ++ b) = (a, b) := by
  subst h
  simp [shortRead]

theorem chunks_unpack (w : Nat) (hw : 1 ≤ w ∧ w ≤ 4) (gs : List (List Nat))
    (hg : ∀ g ∈ gs, g.length = 8 ∧ ∀ x ∈ g, x < 2 ^ w) :
    (chunks w gs.length (gs.flatMap (packSpec w))).flatMap (unpack w) = gs.flatten := by
  induction gs with
  | nil => rfl
  | cons g gs ih =>
    obtain ⟨h8, hv⟩ := hg g (by simp)
    simp only [List.length_cons, chunks, List.flatMap_cons, List.flatten_cons]
    rw [List.take_left' (packSpec_length w g), List.drop_left' (packSpec_length w g),
      ih (fun g' h' => hg g' (by simp [h'])), ← pack_eq_packSpec' w hw g h8, unpack_pack w hw g h8 hv]

/-- header bounds of the `uint64`/`int` arithmetic in `readLEB128`/`readRLE`/`readRLEBitPacked` -/
def Run.HdrOK : Run → Prop
  | .rle c _ => c < 2 ^ 63
  | .packed gs => gs.length < 2 ^ 63

/-! ### the run loop -/

theorem implRuns_ser (w : Nat) (hw : 1 ≤ w ∧ w ≤ 4) (runs : List Run) (hwf : ∀ r ∈ runs, r.WF w)
    (hh : ∀ r ∈ runs, r.HdrOK) (fuel : Nat) (hf : runs.length < fuel) :
    implRuns w fuel (serRuns w runs) = .ok (runsVals runs) := by
  induction runs generalizing fuel with
  | nil =>
    cases fuel with
    | zero => omega
    | succ f => simp [serRuns, runsVals, implRuns]
  | cons r rs ih =>
    cases fuel with
    | zero => omega
    | succ f =>
      have ihr := ih (fun r' h' => hwf r' (by simp [h'])) (fun r' h' => hh r' (by simp [h'])) f
        (by simp only [List.length_cons] at hf; omega)
      have hnb : (w + 7) / 8 = 1 := by omega
      have hpow : 2 ^ w ≤ 256 := by
        calc 2 ^ w ≤ 2 ^ 8 := Nat.pow_le_pow_right (by omega) (by omega)
          _ = 256 := by decide
      cases r with
      | rle c v =>
        obtain ⟨hc, hv⟩ := hwf (.rle c v) (by simp)
        have hc63 : c < 2 ^ 63 := hh (.rle c v) (by simp)
        have hvv : v % 256 = v := Nat.mod_eq_of_lt (by omega)
        have hser : serRuns w (Run.rle c v :: rs) = uleb (c * 2) ++ ([v] ++ serRuns w rs) := by
          simp [serRuns, Run.ser, hnb, leBytes, hvv]
        rw [hser]
        have hne : uleb (c * 2) ++ ([v] ++ serRuns w rs) ≠ [] := by
          intro h
          exact uleb_ne_nil _ (List.append_eq_nil_iff.mp h).1
        have h64 : c * 2 < 2 ^ 64 := by
          have : (2 : Nat) ^ 64 = 2 ^ 63 * 2 := by decide
          omega
        rw [implRuns, if_neg hne, implReadLeb_uleb0 (c * 2) _ _ h64 (by simp)]
        have hev : c * 2 % 2 = 0 := by omega
        have hdiv : c * 2 / 2 = c := by omega
        have hsr : shortRead 1 ([v] ++ serRuns w rs) = ([v], serRuns w rs) := shortRead_exact 1 _ _ rfl
        have hn2 : ¬ (1 > 2) := by omega
        have hn0 : ¬ (1 > 0 ∧ [v] ++ serRuns w rs = []) := by simp
        simp only [hev, if_true, hnb, if_neg hn2, if_neg hn0, hsr, ihr, hdiv]
        simp [runsVals, Run.vals]
      | packed gs =>
        obtain ⟨hg1, hg8⟩ := hwf (.packed gs) (by simp)
        have hl63 : gs.length < 2 ^ 63 := hh (.packed gs) (by simp)
        have hser : serRuns w (Run.packed gs :: rs)
            = uleb (gs.length * 2 + 1) ++ (gs.flatMap (packSpec w) ++ serRuns w rs) := by
          simp [serRuns, Run.ser]
        rw [hser]
        have hne : uleb (gs.length * 2 + 1) ++ (gs.flatMap (packSpec w) ++ serRuns w rs) ≠ [] := by
          intro h
          exact uleb_ne_nil _ (List.append_eq_nil_iff.mp h).1
        have h64 : gs.length * 2 + 1 < 2 ^ 64 := by
          have : (2 : Nat) ^ 64 = 2 ^ 63 * 2 := by decide
          omega
        rw [implRuns, if_neg hne, implReadLeb_uleb0 (gs.length * 2 + 1) _ _ h64 (by simp)]
        have hodd : ¬ ((gs.length * 2 + 1) % 2 = 0) := by omega
        have hdiv : (gs.length * 2 + 1) / 2 % 2 ^ 63 = gs.length := by
          have : (gs.length * 2 + 1) / 2 = gs.length := by omega
          rw [this]; exact Nat.mod_eq_of_lt hl63
        have hw0 : ¬ (w = 0) := by omega
        have hblen := flatMap_packSpec_length w gs
        have hbc : w * (gs.length * 8) / 8 = gs.length * w := by
          have : w * (gs.length * 8) = gs.length * w * 8 := by
            rw [Nat.mul_comm w, Nat.mul_assoc, Nat.mul_comm 8 w, ← Nat.mul_assoc]
          rw [this, Nat.mul_div_cancel _ (by omega)]
        have hnil : ¬ (gs.flatMap (packSpec w) ++ serRuns w rs = []) := by
          intro h
          have h' := congrArg List.length h
          rw [List.length_append, hblen] at h'
          have : 1 ≤ gs.length * w := Nat.mul_le_mul hg1 hw.1
          simp at h'
          omega
        have hsr : shortRead (gs.length * w) (gs.flatMap (packSpec w) ++ serRuns w rs)
            = (gs.flatMap (packSpec w), serRuns w rs) := shortRead_exact _ _ _ hblen
        simp only [if_neg hodd, hdiv, if_neg hw0, hbc, if_neg hnil, hsr, ihr,
          chunks_unpack w hw gs hg8]
        simp [runsVals, Run.vals]

/-! ### the length-prefixed section -/

theorem packed_hdr_ok (w : Nat) (hw : 1 ≤ w) (runs : List Run) (r : Run) (hr : r ∈ runs) :
    ∀ gs, r = .packed gs → gs.length ≤ (serRuns w runs).length := by
  intro gs hgs
  subst hgs
  induction runs with
  | nil => simp at hr
  | cons r' rs ih =>
    simp only [serRuns, List.flatMap_cons, List.length_append]
    simp only [List.mem_cons] at hr
    rcases hr with h | h
    · subst h
      simp only [Run.ser, List.length_append, flatMap_packSpec_length]
      have : gs.length * 1 ≤ gs.length * w := Nat.mul_le_mul_left _ hw
      omega
    · have := ih h
      simp only [serRuns] at this
      omega

theorem implDecode_ser (w : Nat) (hw : 1 ≤ w ∧ w ≤ 4) (runs : List Run) (hwf : ∀ r ∈ runs, r.WF w)
    (hcnt : ∀ c v, Run.rle c v ∈ runs → c < 2 ^ 63)
    (hsz : (serRuns w runs).length < 2 ^ 31) (rest : Bytes) :
    implDecode w (le32 (serRuns w runs).length ++ serRuns w runs ++ rest)
      = .ok (runsVals runs, 4 + (serRuns w runs).length) := by
  have h3132 : (2 : Nat) ^ 31 < 2 ^ 32 := by decide
  have h3163 : (2 : Nat) ^ 31 < 2 ^ 63 := by decide
  rw [List.append_assoc]
  obtain ⟨ht, hd⟩ := le32_take (serRuns w runs).length (by omega) (serRuns w runs ++ rest)
  have hh : ∀ r ∈ runs, r.HdrOK := by
    intro r hr
    cases r with
    | rle c v => exact hcnt c v hr
    | packed gs =>
      have := packed_hdr_ok w hw.1 runs _ hr gs rfl
      show gs.length < 2 ^ 63
      omega
  unfold implDecode
  have hge : ¬ ((le32 (serRuns w runs).length ++ (serRuns w runs ++ rest)).length < 4) := by
    simp only [List.length_append, le32_length]; omega
  have hpanic : ¬ ((serRuns w runs).length ≥ 2 ^ 31) := by omega
  have hempty : ¬ ((serRuns w runs).length > 0 ∧ serRuns w runs ++ rest = []) := by
    intro ⟨hpos, hnil⟩
    have h' := congrArg List.length hnil
    simp only [List.length_append, List.length_nil] at h'
    omega
  have hsr : shortRead (serRuns w runs).length (serRuns w runs ++ rest) = (serRuns w runs, rest) :=
    shortRead_exact _ _ _ rfl
  have hrl := runs_length_le w runs
  rw [if_neg hge]
  simp only [ht, hd, if_neg hpanic, if_neg hempty, hsr]
  rw [implRuns_ser w hw runs hwf hh _ (by omega)]
  simp only [Nat.add_comm]

theorem impl_decode_encode (w : Nat) (hw : 1 ≤ w ∧ w ≤ 4) (xs : List Nat)
    (hx : ∀ x ∈ xs, x < 2 ^ w) (hlen : xs.length + 8 ≤ 2 ^ 30) (rest : Bytes) :
    ∃ pad, pad < 8 ∧
      implDecode w (encode w xs ++ rest) = .ok (xs ++ List.replicate pad 0, (encode w xs).length) := by
  obtain ⟨runs, pad, henc, hwfs, hb, hvals, hpad⟩ := encode_runs w hw xs hx hlen
  refine ⟨pad, hpad, ?_⟩
  have hvlen : (runsVals runs).length = xs.length + pad := by rw [hvals]; simp
  have h30 : (2 : Nat) ^ 31 = 2 * 2 ^ 30 := by decide
  have hsl := serRuns_length_le w (by omega) runs hwfs hb
  have hn : (serRuns w runs).length < 2 ^ 31 := by omega
  have hwf : ∀ r ∈ runs, r.WF w := fun r hr => wf_of w r (hwfs r hr) (hb r hr)
  have hcnt : ∀ c v, Run.rle c v ∈ runs → c < 2 ^ 63 := by
    intro c v hr
    have : c * 2 < 2 ^ 32 := (hb _ hr).1
    have h3263 : (2 : Nat) ^ 32 < 2 ^ 63 := by decide
    omega
  rw [henc, implDecode_ser w hw runs hwf hcnt hn rest, hvals]
  simp [le32_length]

end PQ
