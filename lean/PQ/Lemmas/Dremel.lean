import PQ.Model.Dremel
/-!
# Lemmas about Dremel striping / assembly (`PQ.Model.Dremel`)

Everything is by structural induction on the list of repetition types `ts`, generalising the
accumulators `r d k` of `stripe`, so the statements hold for every nesting depth and every value
(unbounded list lengths).
-/
namespace PQ

variable {α : Type}

/-! ## level tables -/

@[simp] theorem maxDef_nil : maxDef [] = 0 := rfl
@[simp] theorem maxDef_req (ts : List Rep) : maxDef (.req :: ts) = maxDef ts := rfl
@[simp] theorem maxDef_opt (ts : List Rep) : maxDef (.opt :: ts) = maxDef ts + 1 := rfl
@[simp] theorem maxDef_rpt (ts : List Rep) : maxDef (.rpt :: ts) = maxDef ts + 1 := rfl
@[simp] theorem maxRep_nil : maxRep [] = 0 := rfl
@[simp] theorem maxRep_req (ts : List Rep) : maxRep (.req :: ts) = maxRep ts := rfl
@[simp] theorem maxRep_opt (ts : List Rep) : maxRep (.opt :: ts) = maxRep ts := rfl
@[simp] theorem maxRep_rpt (ts : List Rep) : maxRep (.rpt :: ts) = maxRep ts + 1 := rfl

theorem maxDef_le_length (ts : List Rep) : maxDef ts ≤ ts.length := by
  induction ts with
  | nil => exact Nat.le_refl _
  | cons t ts ih => cases t <;> simp only [maxDef_req, maxDef_opt, maxDef_rpt, List.length_cons] <;> omega

theorem maxRep_le_maxDef (ts : List Rep) : maxRep ts ≤ maxDef ts := by
  induction ts with
  | nil => exact Nat.le_refl _
  | cons t ts ih =>
    cases t <;> simp only [maxDef_req, maxDef_opt, maxDef_rpt, maxRep_req, maxRep_opt, maxRep_rpt] <;> omega

theorem lt_two_pow_bitsLen (n : Nat) : n < 2 ^ bitsLen n := by
  unfold bitsLen
  by_cases h : n = 0
  · rw [if_pos h, h]; decide
  · rw [if_neg h]; exact Nat.lt_log2_self

theorem two_pow_bitsLen_pred_le (n : Nat) (h : 0 < n) : 2 ^ (bitsLen n - 1) ≤ n := by
  unfold bitsLen
  have h0 : n ≠ 0 := by omega
  rw [if_neg h0, Nat.add_sub_cancel]
  exact Nat.log2_self_le h0

/-- `bitsLen n` is the least width that can hold `n` -/
theorem bitsLen_le_of_lt_two_pow (n w : Nat) (h : n < 2 ^ w) : bitsLen n ≤ w := by
  unfold bitsLen
  by_cases h0 : n = 0
  · rw [if_pos h0]; exact Nat.zero_le _
  · rw [if_neg h0]
    have := (Nat.log2_lt (k := w) h0).2 h
    omega

/-! ## unfolding equations for `stripe` -/

theorem stripe_nil (r d k : Nat) (v : α) : stripe (α := α) [] r d k v = [⟨r, d, some v⟩] := rfl
theorem stripe_req (ts : List Rep) (r d k : Nat) (v : Proj α ts) :
    stripe (α := α) (.req :: ts) r d k v = stripe ts r d k v := rfl
theorem stripe_opt_none (ts : List Rep) (r d k : Nat) :
    stripe (α := α) (.opt :: ts) r d k (none : Option (Proj α ts)) = [⟨r, d, none⟩] := rfl
theorem stripe_opt_some (ts : List Rep) (r d k : Nat) (x : Proj α ts) :
    stripe (α := α) (.opt :: ts) r d k (some x : Option (Proj α ts)) = stripe ts r (d+1) k x := rfl
theorem stripe_rpt_nil (ts : List Rep) (r d k : Nat) :
    stripe (α := α) (.rpt :: ts) r d k ([] : List (Proj α ts)) = [⟨r, d, none⟩] := rfl
theorem stripe_rpt_cons (ts : List Rep) (r d k : Nat) (x : Proj α ts) (xs : List (Proj α ts)) :
    stripe (α := α) (.rpt :: ts) r d k (x :: xs : List (Proj α ts)) =
      stripe ts r (d+1) (k+1) x ++ xs.flatMap (stripe ts (k+1) (d+1) (k+1)) := rfl

/-! ## shape of a striping -/

/-- A striping is never empty; its first entry carries the requested repetition level `r`, every
later entry has a repetition level in `[k+1, k + maxRep ts]` (it repeats one of the repeated
fields *below* the `k` repeated ancestors), and all definition levels are `≥ d`. -/
theorem stripe_shape (ts : List Rep) (r d k : Nat) (v : Proj α ts) :
    ∃ e tl, stripe ts r d k v = e :: tl ∧ e.rep = r ∧ d ≤ e.dl ∧
      ∀ x ∈ tl, k + 1 ≤ x.rep ∧ x.rep ≤ k + maxRep ts := by
  induction ts generalizing r d k with
  | nil => exact ⟨_, _, rfl, rfl, Nat.le_refl _, fun x hx => nomatch hx⟩
  | cons t ts ih =>
    cases t with
    | req => exact ih r d k v
    | opt =>
      cases v with
      | none => exact ⟨_, _, rfl, rfl, Nat.le_refl _, fun x hx => nomatch hx⟩
      | some x =>
        obtain ⟨e, tl, h1, h2, h3, h4⟩ := ih r (d+1) k x
        exact ⟨e, tl, h1, h2, by omega, h4⟩
    | rpt =>
      cases v with
      | nil => exact ⟨_, _, rfl, rfl, Nat.le_refl _, fun x hx => nomatch hx⟩
      | cons x xs =>
        obtain ⟨e, tl, h1, h2, h3, h4⟩ := ih r (d+1) (k+1) x
        refine ⟨e, tl ++ xs.flatMap (stripe ts (k+1) (d+1) (k+1)), ?_, h2, by omega, ?_⟩
        · show stripe ts r (d+1) (k+1) x ++ _ = _
          rw [h1]; rfl
        · intro y hy
          rw [maxRep_rpt]
          rcases List.mem_append.1 hy with hy | hy
          · have := h4 y hy; omega
          · obtain ⟨z, _, hz⟩ := List.mem_flatMap.1 hy
            obtain ⟨e2, tl2, g1, g2, _, g4⟩ := ih (k+1) (d+1) (k+1) z
            rw [g1] at hz
            rcases List.mem_cons.1 hz with hz | hz
            · subst hz; omega
            · have := g4 y hz; omega

theorem stripe_head (ts : List Rep) (r d k : Nat) (v : Proj α ts) :
    ∃ e tl, stripe ts r d k v = e :: tl ∧ e.rep = r ∧ d ≤ e.dl := by
  obtain ⟨e, tl, h1, h2, h3, _⟩ := stripe_shape ts r d k v
  exact ⟨e, tl, h1, h2, h3⟩

theorem stripe_ne_nil (ts : List Rep) (r d k : Nat) (v : Proj α ts) : stripe ts r d k v ≠ [] := by
  obtain ⟨e, tl, h1, _⟩ := stripe_head ts r d k v
  rw [h1]; exact List.cons_ne_nil _ _

/-- every repetition level emitted is `r` or at most `k + maxRep ts` -/
theorem stripe_rep_le (ts : List Rep) (r d k : Nat) (v : Proj α ts) :
    ∀ e ∈ stripe ts r d k v, e.rep ≤ max r (k + maxRep ts) := by
  obtain ⟨e, tl, h1, h2, _, h4⟩ := stripe_shape ts r d k v
  intro x hx
  rw [h1] at hx
  rcases List.mem_cons.1 hx with hx | hx
  · subst hx; omega
  · have := h4 x hx; omega

/-- definition levels lie in `[d, d + maxDef ts]` and a value is present exactly at the top level -/
theorem stripe_levels (ts : List Rep) (r d k : Nat) (v : Proj α ts) :
    ∀ e ∈ stripe ts r d k v,
      d ≤ e.dl ∧ e.dl ≤ d + maxDef ts ∧ (e.val.isSome ↔ e.dl = d + maxDef ts) := by
  induction ts generalizing r d k with
  | nil =>
    intro e he
    replace he : e ∈ ([⟨r, d, some v⟩] : List (Entry α)) := he
    rw [List.mem_singleton.1 he]
    exact ⟨Nat.le_refl _, Nat.le_refl _, fun _ => rfl, fun _ => rfl⟩
  | cons t ts ih =>
    cases t with
    | req => exact ih r d k v
    | opt =>
      cases v with
      | none =>
        intro e he
        rw [stripe_opt_none] at he
        rw [List.mem_singleton.1 he]
        simp
      | some x =>
        intro e he
        obtain ⟨a, b, c⟩ := ih r (d+1) k x e he
        rw [maxDef_opt]
        refine ⟨by omega, by omega, ?_⟩
        rw [c]; omega
    | rpt =>
      cases v with
      | nil =>
        intro e he
        rw [stripe_rpt_nil] at he
        rw [List.mem_singleton.1 he]
        simp
      | cons x xs =>
        intro e he
        rw [stripe_rpt_cons] at he
        have key : d + 1 ≤ e.dl ∧ e.dl ≤ d + 1 + maxDef ts ∧
            (e.val.isSome ↔ e.dl = d + 1 + maxDef ts) := by
          rcases List.mem_append.1 he with he | he
          · exact ih r (d+1) (k+1) x e he
          · obtain ⟨z, _, hz⟩ := List.mem_flatMap.1 he
            exact ih (k+1) (d+1) (k+1) z e hz
        obtain ⟨a, b, c⟩ := key
        rw [maxDef_rpt]
        refine ⟨by omega, by omega, ?_⟩
        rw [c]; omega

/-- a column below only required ancestors: one entry, levels unchanged -/
theorem stripe_required (ts : List Rep) (hreq : ∀ t ∈ ts, t = Rep.req) (r d k : Nat)
    (v : Proj α ts) : ∃ x : α, stripe ts r d k v = [⟨r, d, some x⟩] := by
  induction ts with
  | nil => exact ⟨v, rfl⟩
  | cons t ts ih =>
    have ht : t = Rep.req := hreq t List.mem_cons_self
    subst ht
    exact ih (fun t h => hreq t (List.mem_cons_of_mem _ h)) v

/-! ## assembly inverts striping -/

/-- the stream after a value does not continue a list deeper than `k` repeated ancestors -/
def Stops (k : Nat) (rest : List (Entry α)) : Prop := ∀ e, rest.head? = some e → e.rep ≤ k

theorem Stops_nil (k : Nat) : Stops k ([] : List (Entry α)) := fun _ h => nomatch h

theorem Stops_cons (k : Nat) (e : Entry α) (tl : List (Entry α)) (h : e.rep ≤ k) :
    Stops k (e :: tl) := by
  intro e' he'
  simp only [List.head?_cons, Option.some.injEq] at he'
  subst he'; exact h

theorem Stops_zero_of (rest : List (Entry α))
    (h : rest = [] ∨ ∃ e tl, rest = e :: tl ∧ e.rep = 0) : Stops 0 rest := by
  rcases h with h | ⟨e, tl, h, h0⟩
  · subst h; exact Stops_nil 0
  · subst h; exact Stops_cons 0 e tl (by omega)

theorem Stops_mono {k k' : Nat} (hk : k ≤ k') (rest : List (Entry α)) (h : Stops k rest) :
    Stops k' rest := fun e he => Nat.le_trans (h e he) hk

theorem many_spec {β : Type} (p : List (Entry α) → Option (β × List (Entry α))) (lvl : Nat)
    (enc : β → List (Entry α))
    (henc : ∀ x, ∃ e tl, enc x = e :: tl ∧ e.rep = lvl)
    (hp : ∀ x rest, Stops lvl rest → p (enc x ++ rest) = some (x, rest))
    (xs : List β) (rest : List (Entry α)) (hrest : Stops (lvl - 1) rest) (hl : 0 < lvl)
    (fuel : Nat) (hf : (xs.flatMap enc ++ rest).length ≤ fuel) :
    many p lvl fuel (xs.flatMap enc ++ rest) = some (xs, rest) := by
  induction xs generalizing fuel with
  | nil =>
    simp only [List.flatMap_nil, List.nil_append]
    cases fuel with
    | zero => simp [many]
    | succ f =>
      cases rest with
      | nil => simp [many]
      | cons e rest =>
        have : e.rep ≤ lvl - 1 := hrest e rfl
        have : e.rep ≠ lvl := by omega
        simp [many, this]
  | cons x xs ih =>
    obtain ⟨e, tl, he, hrep⟩ := henc x
    have hstop : Stops lvl (xs.flatMap enc ++ rest) := by
      intro e' he'
      cases xs with
      | nil =>
        simp only [List.flatMap_nil, List.nil_append] at he'
        have := hrest e' he'; omega
      | cons y ys =>
        obtain ⟨e2, tl2, he2, hrep2⟩ := henc y
        simp only [List.flatMap_cons, he2, List.cons_append, List.head?_cons, Option.some.injEq] at he'
        subst he'; omega
    cases fuel with
    | zero => simp [List.flatMap_cons, he] at hf
    | succ f =>
      have hpx := hp x _ hstop
      simp only [List.flatMap_cons, List.append_assoc] at hf ⊢
      rw [he] at hf hpx ⊢
      simp only [List.cons_append] at hf hpx ⊢
      simp only [many, hrep, if_true, hpx]
      have := ih f (by simp only [List.length_cons] at hf; simp at hf ⊢; omega)
      rw [this]

/-- per-column Dremel losslessness, all repetition-type lists, all values -/
theorem parse_stripe (ts : List Rep) (r d k : Nat) (v : Proj α ts) (rest : List (Entry α))
    (h : Stops k rest) : parse ts d k (stripe ts r d k v ++ rest) = some (v, rest) := by
  induction ts generalizing r d k rest with
  | nil => simp [stripe, parse]
  | cons t ts ih =>
    cases t with
    | req => exact ih r d k v rest h
    | opt =>
      cases v with
      | none => simp [stripe, parse]
      | some x =>
        obtain ⟨e, tl, h1, _, h3⟩ := stripe_head ts r (d+1) k x
        have hx := ih r (d+1) k x rest h
        simp only [stripe, parse]
        rw [h1] at hx ⊢
        have : e.dl ≠ d := by omega
        simp only [List.cons_append, this, if_false] at hx ⊢
        rw [hx]
    | rpt =>
      cases v with
      | nil => simp [stripe, parse]
      | cons x xs =>
        obtain ⟨e, tl, h1, _, h3⟩ := stripe_head ts r (d+1) (k+1) x
        have henc : ∀ y : Proj α ts, ∃ e tl, stripe ts (k+1) (d+1) (k+1) y = e :: tl ∧ e.rep = k+1 := by
          intro y; obtain ⟨e, tl, a, b, _⟩ := stripe_head ts (k+1) (d+1) (k+1) y; exact ⟨e, tl, a, b⟩
        have hmany := many_spec (parse ts (d+1) (k+1)) (k+1) (stripe ts (k+1) (d+1) (k+1)) henc
          (fun y rest' hs => ih (k+1) (d+1) (k+1) y rest' hs) xs rest (by simpa using h) (by omega)
          _ (Nat.le_refl _)
        have hstop : Stops (k+1) (xs.flatMap (stripe ts (k+1) (d+1) (k+1)) ++ rest) := by
          intro e' he'
          cases xs with
          | nil =>
            simp only [List.flatMap_nil, List.nil_append] at he'
            have := h e' he'; omega
          | cons y ys =>
            obtain ⟨e2, tl2, he2, hrep2⟩ := henc y
            simp only [List.flatMap_cons, he2, List.cons_append, List.head?_cons, Option.some.injEq] at he'
            subst he'; omega
        have hx := ih r (d+1) (k+1) x _ hstop
        simp only [stripe, parse, List.append_assoc]
        rw [h1] at hx ⊢
        have : e.dl ≠ d := by omega
        simp only [List.cons_append, this, if_false] at hx ⊢
        rw [hx]
        simp only [hmany]

/-! ## record boundaries -/

theorem takeWhile_dropWhile_append_stop {β : Type} (p : β → Bool) (l rest : List β)
    (hl : ∀ x ∈ l, p x = true)
    (hr : rest = [] ∨ ∃ e tl, rest = e :: tl ∧ p e = false) :
    (l ++ rest).takeWhile p = l ∧ (l ++ rest).dropWhile p = rest := by
  induction l with
  | nil =>
    rcases hr with hr | ⟨e, tl, hr, he⟩
    · subst hr; exact ⟨rfl, rfl⟩
    · subst hr
      simp only [List.nil_append, List.takeWhile_cons, List.dropWhile_cons, he]
      exact ⟨rfl, rfl⟩
  | cons a l ih =>
    have ha : p a = true := hl a List.mem_cons_self
    obtain ⟨i1, i2⟩ := ih (fun x hx => hl x (List.mem_cons_of_mem _ hx))
    constructor <;>
      simp only [List.cons_append, List.takeWhile_cons, List.dropWhile_cons, ha, if_true, i1, i2]

/-- a record-level striping followed by the start of the next record (or nothing) is cut exactly
at the boundary -/
theorem takeRecord_stripeTop (ts : List Rep) (v : Proj α ts) (rest : List (Entry α))
    (h : rest = [] ∨ ∃ e tl, rest = e :: tl ∧ e.rep = 0) :
    takeRecord (stripeTop ts v ++ rest) = (stripeTop ts v, rest) := by
  obtain ⟨e, tl, h1, _, _, h4⟩ := stripe_shape ts 0 0 0 v
  unfold stripeTop
  rw [h1]
  have hr : rest = [] ∨ ∃ e tl, rest = e :: tl ∧ (fun x : Entry α => x.rep != 0) e = false := by
    rcases h with h | ⟨e, tl, h, h0⟩
    · exact Or.inl h
    · exact Or.inr ⟨e, tl, h, by simp [h0]⟩
  obtain ⟨t1, t2⟩ := takeWhile_dropWhile_append_stop (fun x : Entry α => x.rep != 0) tl rest
    (fun x hx => by have := h4 x hx; simp; omega) hr
  show (e :: (tl ++ rest).takeWhile _, (tl ++ rest).dropWhile _) = _
  rw [t1, t2]

theorem flatMap_stripeTop_boundary (ts : List Rep) (vs : List (Proj α ts)) :
    vs.flatMap (stripeTop ts) = [] ∨
      ∃ e tl, vs.flatMap (stripeTop ts) = e :: tl ∧ e.rep = 0 := by
  cases vs with
  | nil => exact Or.inl rfl
  | cons v vs =>
    obtain ⟨e, tl, h1, h2, _⟩ := stripe_shape ts 0 0 0 v
    refine Or.inr ⟨e, tl ++ vs.flatMap (stripeTop ts), ?_, h2⟩
    rw [List.flatMap_cons]
    show stripe ts 0 0 0 v ++ _ = _
    rw [h1]; rfl

theorem splitRecords_cons (fuel : Nat) (e : Entry α) (l : List (Entry α)) :
    splitRecords (fuel+1) (e :: l) =
      (takeRecord (e :: l)).1 :: splitRecords fuel (takeRecord (e :: l)).2 := rfl

/-- a stream made of the stripings of `vs` splits back into exactly those stripings -/
theorem splitRecords_flatMap (ts : List Rep) (vs : List (Proj α ts)) (fuel : Nat)
    (hf : vs.length ≤ fuel) :
    splitRecords fuel (vs.flatMap (stripeTop ts)) = vs.map (stripeTop ts) := by
  induction vs generalizing fuel with
  | nil => cases fuel <;> rfl
  | cons v vs ih =>
    cases fuel with
    | zero => simp at hf
    | succ f =>
      have htr := takeRecord_stripeTop ts v _ (flatMap_stripeTop_boundary ts vs)
      obtain ⟨e, tl, h1, _⟩ := stripe_shape ts 0 0 0 v
      have hcons : ∃ e' l', stripeTop ts v ++ vs.flatMap (stripeTop ts) = e' :: l' := by
        unfold stripeTop at *
        rw [h1]; exact ⟨_, _, rfl⟩
      obtain ⟨e', l', hc⟩ := hcons
      rw [List.flatMap_cons, List.map_cons]
      rw [hc] at htr ⊢
      rw [splitRecords_cons, htr]
      show stripeTop ts v :: splitRecords f (vs.flatMap (stripeTop ts)) = _
      rw [ih f (by simp only [List.length_cons] at hf; omega)]

/-- reassembling every record of a split stream gives back the records -/
theorem assemble_records (ts : List Rep) (vs : List (Proj α ts)) (fuel : Nat)
    (hf : vs.length ≤ fuel) :
    (splitRecords fuel (vs.flatMap (stripeTop ts))).map (assembleTop ts) =
      vs.map (fun v => some (v, [])) := by
  rw [splitRecords_flatMap ts vs fuel hf, List.map_map]
  apply List.map_congr_left
  intro v _
  have := parse_stripe ts 0 0 0 v [] (Stops_nil 0)
  rw [List.append_nil] at this
  exact this

/-! ## record-level corollaries -/

theorem assembleTop_stripeTop (ts : List Rep) (v : Proj α ts) :
    assembleTop ts (stripeTop ts v) = some (v, []) := by
  have := parse_stripe ts 0 0 0 v [] (Stops_nil 0)
  rwa [List.append_nil] at this

theorem stripeTop_injective (ts : List Rep) (v v' : Proj α ts)
    (h : stripeTop ts v = stripeTop ts v') : v = v' := by
  have a := assembleTop_stripeTop ts v
  have b := assembleTop_stripeTop ts v'
  rw [h, b] at a
  exact (Prod.mk.inj (Option.some.inj a)).1.symm

theorem stripeTop_levels (ts : List Rep) (v : Proj α ts) :
    ∀ e ∈ stripeTop ts v,
      e.dl ≤ maxDef ts ∧ e.rep ≤ maxRep ts ∧ (e.val.isSome ↔ e.dl = maxDef ts) := by
  intro e he
  obtain ⟨_, b, d⟩ := stripe_levels ts 0 0 0 v e he
  have c := stripe_rep_le ts 0 0 0 v e he
  simp only [Nat.zero_add] at b c d
  exact ⟨b, by omega, d⟩

theorem stripeTop_filter_count (ts : List Rep) (v : Proj α ts) :
    ((stripeTop ts v).filter (fun e => e.dl = maxDef ts)).length =
      ((stripeTop ts v).filter (fun e => e.val.isSome)).length := by
  congr 1
  apply List.filter_congr
  intro e he
  have h := (stripeTop_levels ts v e he).2.2
  by_cases c : e.dl = maxDef ts
  · rw [h.2 c]; exact decide_eq_true c
  · have : e.val.isSome = false := by
      cases hs : e.val.isSome with
      | false => rfl
      | true => exact absurd (h.1 hs) c
    rw [this]; exact decide_eq_false c

end PQ
