import PQ.Lemmas.ChunkRT
/-!
# The generated reader on one column chunk

* `requiredDoRead_pages` / `optionalDoRead_pages` – the page loops of `RequiredField.DoRead` and
  `OptionalField.DoRead` on a source positioned at the start of the pages the writer laid out
  (`chunkBytes k c ess`) consume exactly these pages and return the concatenated value sections, the
  per-page value counts and (optional columns) the levels of every page with the padding cut off;
* `readChunk_chunk` – the typed `Read` of one column chunk fills the column's buffer with exactly
  the chunk's levels and non-null values (`colBufOf`), multi-page boolean chunks included.
-/
namespace PQ
open PQ.Thrift

/-! ## the source -/

theorem readExactly_mid (pre mid post : Bytes) (n : Nat) (hn : n = mid.length) :
    (Src.mk (pre ++ mid ++ post) pre.length).readExactly n =
      .ok (mid, Src.mk (pre ++ mid ++ post) (pre.length + n)) := by
  subst hn
  unfold Src.readExactly
  simp only [List.append_assoc, List.drop_left, List.take_left, Nat.lt_irrefl, if_false]

theorem natOfInt_nat (n : Nat) : natOfInt (n : Int) = .ok n := by
  unfold natOfInt
  rw [if_neg (by omega), Int.toNat_natCast]

/-- the thrift header of the page holding `es` -/
def hdrT (k : Codec) (c : Col) (es : PageEntries) : TVal :=
  pageHeaderT (pagePayload c es).length (k.apply (pagePayload c es)).length es.length (.struct (pageStatsFields c es))

/-- … and what `PageHeader.Read` makes of it -/
def phOf (k : Codec) (c : Col) (es : PageEntries) : PHdr :=
  { ty := 0, uncompressed := ((pagePayload c es).length : Nat), compressed := ((k.apply (pagePayload c es)).length : Nat),
    dph := some ((es.length : Nat), 0, 3, 3, some (pageStatsFields c es)), hasDict := false, hasIndex := false, hasV2 := false }

theorem pageBytes_fst (k : Codec) (c : Col) (es : PageEntries) : (pageBytes k c es).1 = (hdrT k c es).enc := rfl
theorem pageBytes_snd (k : Codec) (c : Col) (es : PageEntries) : (pageBytes k c es).2 = k.apply (pagePayload c es) := rfl

theorem decPHdr_hdrT (k : Codec) (c : Col) (es : PageEntries) : decPHdr (hdrT k c es) = some (phOf k c es) :=
  decPHdr_pageHeader _ _ _ _

/-- `readStruct` at the start of a page returns its header and stops right after it -/
theorem readStruct_page (k : Codec) (c : Col) (es : PageEntries) (pre t : Bytes) :
    (Src.mk (pre ++ (pageBytes k c es).1 ++ t) pre.length).readStruct =
      .ok (hdrT k c es, Src.mk (pre ++ (pageBytes k c es).1 ++ t) (pre.length + (pageBytes k c es).1.length)) := by
  have hdec := decVal_pageHeader (pagePayload c es).length (k.apply (pagePayload c es)).length es.length
    (pageStatsFields c es) (statsFields_wf _) (statsFields_size _) t (((hdrT k c es).enc ++ t).length + 2)
    (by simp only [hdrT, List.length_append]; omega)
  unfold Src.readStruct
  simp only [pageBytes_fst, List.append_assoc, List.drop_left]
  simp only [hdrT] at hdec ⊢
  rw [hdec]
  simp only [List.length_append]
  congr 3
  omega

/-- `pageData` on the stored payload of a page -/
theorem pageData_page (dc : Decomp) (k : Codec) (c : Col) (es : PageEntries)
    (hk : CodecOK dc k (k.id : Int) (pagePayload c es)) (pre post : Bytes) :
    pageData dc (Src.mk (pre ++ (pageBytes k c es).2 ++ post) pre.length) (phOf k c es) (k.id : Int) =
      .ok (pagePayload c es, Src.mk (pre ++ (pageBytes k c es).2 ++ post) (pre.length + (pageBytes k c es).2.length)) := by
  rw [pageBytes_snd]
  unfold pageData
  rcases hk with ⟨h0, hid⟩ | ⟨h1, hid, hs⟩ | ⟨h2, hid, hs⟩
  · have ha : k.apply (pagePayload c es) = pagePayload c es := by unfold Codec.apply; rw [if_pos hid]
    rw [if_neg (by omega), if_neg (by omega), if_pos h0]
    simp only [phOf, natOfInt_nat, bind, Except.bind, ha]
    exact readExactly_mid pre (pagePayload c es) post _ rfl
  · have ha : k.apply (pagePayload c es) = k.compress (pagePayload c es) := by unfold Codec.apply; rw [if_neg hid]
    rw [if_pos h1]
    simp only [phOf, natOfInt_nat, bind, Except.bind, ha,
      readExactly_mid pre (k.compress (pagePayload c es)) post _ rfl, hs]
  · have ha : k.apply (pagePayload c es) = k.compress (pagePayload c es) := by unfold Codec.apply; rw [if_neg hid]
    rw [if_neg (by omega), if_pos h2]
    simp only [phOf, ha]
    rw [if_neg (by omega)]
    simp only [Int.toNat_natCast, bind, Except.bind,
      readExactly_mid pre (k.compress (pagePayload c es)) post _ rfl, hs]

theorem checkPage_phOf (k : Codec) (c : Col) (es : PageEntries) (d r : Bool) : checkPage (phOf k c es) d r = true := by
  cases d <;> cases r <;> simp [checkPage, phOf]

theorem numValuesOf_phOf (k : Codec) (c : Col) (es : PageEntries) : numValuesOf (phOf k c es) = .ok (es.length : Int) := rfl

/-- header and payload of one page, read one after the other -/
theorem readPage (dc : Decomp) (k : Codec) (c : Col) (es : PageEntries)
    (hk : CodecOK dc k (k.id : Int) (pagePayload c es)) (pre rest : Bytes) :
    (Src.mk (pre ++ (pageBytes k c es).1 ++ (pageBytes k c es).2 ++ rest) pre.length).readStruct =
      .ok (hdrT k c es, Src.mk (pre ++ (pageBytes k c es).1 ++ (pageBytes k c es).2 ++ rest)
        (pre.length + (pageBytes k c es).1.length)) ∧
    pageData dc (Src.mk (pre ++ (pageBytes k c es).1 ++ (pageBytes k c es).2 ++ rest)
        (pre.length + (pageBytes k c es).1.length)) (phOf k c es) (k.id : Int) =
      .ok (pagePayload c es, Src.mk (pre ++ (pageBytes k c es).1 ++ (pageBytes k c es).2 ++ rest)
        (pre.length + ((pageBytes k c es).1.length + (pageBytes k c es).2.length))) := by
  constructor
  · have := readStruct_page k c es pre ((pageBytes k c es).2 ++ rest)
    simp only [List.append_assoc] at this ⊢
    exact this
  · have := pageData_page dc k c es hk (pre ++ (pageBytes k c es).1) rest
    simp only [List.length_append, Nat.add_assoc] at this ⊢
    exact this

/-! ## `RequiredField.DoRead` -/

theorem requiredDoRead_step (dc : Decomp) (k : Codec) (c : Col) (es : PageEntries)
    (hk : CodecOK dc k (k.id : Int) (pagePayload c es)) (pg : PageMeta) (hcodec : pg.codec = (k.id : Int))
    (pre rest : Bytes) (fuel : Nat) (nRead : Int) (out : Bytes) (sizes : List Int) (hlt : nRead < pg.n) :
    requiredDoRead dc pg (fuel + 1)
        (Src.mk (pre ++ (pageBytes k c es).1 ++ (pageBytes k c es).2 ++ rest) pre.length) nRead out sizes =
      requiredDoRead dc pg fuel
        (Src.mk (pre ++ (pageBytes k c es).1 ++ (pageBytes k c es).2 ++ rest)
          (pre.length + ((pageBytes k c es).1.length + (pageBytes k c es).2.length)))
        (nRead + (es.length : Int)) (out ++ pagePayload c es) (sizes ++ [(es.length : Int)]) := by
  obtain ⟨h1, h2⟩ := readPage dc k c es hk pre rest
  rw [requiredDoRead, if_pos hlt]
  simp only [bind, Except.bind, h1, decPHdr_hdrT, pure, Except.pure, checkPage_phOf, Bool.not_true,
    Bool.false_eq_true, if_false, numValuesOf_phOf, hcodec, h2]

/-- **`RequiredField.DoRead` on the pages of one chunk.**  `N` is the chunk's `num_values`. -/
theorem requiredDoRead_pages (dc : Decomp) (k : Codec) (c : Col) (pg : PageMeta) (hcodec : pg.codec = (k.id : Int)) :
    ∀ (ess : List PageEntries) (pre post : Bytes) (fuel : Nat) (nRead : Int) (out : Bytes) (sizes : List Int),
      ess.length < fuel →
      (∀ es ∈ ess, CodecOK dc k (k.id : Int) (pagePayload c es) ∧ es ≠ []) →
      nRead + (((ess.map List.length).sum : Nat) : Int) = pg.n →
      requiredDoRead dc pg fuel (Src.mk (pre ++ chunkBytes k c ess ++ post) pre.length) nRead out sizes =
        .ok (out ++ ess.flatMap (pagePayload c), sizes ++ ess.map (fun es => (es.length : Int)),
             Src.mk (pre ++ chunkBytes k c ess ++ post) (pre.length + (chunkBytes k c ess).length))
  | [], pre, post, fuel, nRead, out, sizes, hf, _, hn => by
    cases fuel with
    | zero => omega
    | succ f =>
      simp only [List.map_nil, List.sum_nil, Int.natCast_zero, Int.add_zero] at hn
      rw [requiredDoRead, if_neg (by omega)]
      simp [chunkBytes_nil]
  | es :: ess, pre, post, fuel, nRead, out, sizes, hf, hg, hn => by
    cases fuel with
    | zero => omega
    | succ f =>
      obtain ⟨hk, hne⟩ := hg es List.mem_cons_self
      have hpos : 1 ≤ es.length := by
        cases es with
        | nil => exact absurd rfl hne
        | cons a b => simp
      simp only [List.map_cons, List.sum_cons, Int.natCast_add] at hn
      have hfile : pre ++ chunkBytes k c (es :: ess) ++ post =
          pre ++ (pageBytes k c es).1 ++ (pageBytes k c es).2 ++ (chunkBytes k c ess ++ post) := by
        rw [chunkBytes_cons]; simp only [List.append_assoc]
      have hfile2 : pre ++ chunkBytes k c (es :: ess) ++ post =
          (pre ++ (pageBytes k c es).1 ++ (pageBytes k c es).2) ++ chunkBytes k c ess ++ post := by
        rw [chunkBytes_cons]; simp only [List.append_assoc]
      have hl2 : (pre ++ (pageBytes k c es).1 ++ (pageBytes k c es).2).length =
          pre.length + ((pageBytes k c es).1.length + (pageBytes k c es).2.length) := by
        simp only [List.length_append]; omega
      have hlen : (chunkBytes k c (es :: ess)).length =
          (pageBytes k c es).1.length + (pageBytes k c es).2.length + (chunkBytes k c ess).length := by
        rw [chunkBytes_cons]; simp only [List.length_append]
      have ih := requiredDoRead_pages dc k c pg hcodec ess (pre ++ (pageBytes k c es).1 ++ (pageBytes k c es).2) post f
        (nRead + (es.length : Int)) (out ++ pagePayload c es) (sizes ++ [(es.length : Int)])
        (by simp only [List.length_cons] at hf; omega) (fun e he => hg e (List.mem_cons_of_mem _ he)) (by omega)
      rw [← hfile2, hl2] at ih
      have hstep := requiredDoRead_step dc k c es hk pg hcodec pre (chunkBytes k c ess ++ post) f nRead out sizes (by omega)
      rw [← hfile] at hstep
      rw [hstep, ih, hlen]
      simp only [List.flatMap_cons, List.map_cons, List.append_assoc, List.cons_append, List.nil_append, Nat.add_assoc]

/-! ## `OptionalField.DoRead` -/

/-- the column buffer after the levels of `es` were appended -/
def addLevels (c : Col) (buf : ColBuf) (es : PageEntries) : ColBuf :=
  { vals := buf.vals, defs := buf.defs ++ es.map (·.dl),
    reps := if c.maxRep > 0 then buf.reps ++ es.map (·.rep) else buf.reps }

theorem addLevels_nil (c : Col) (buf : ColBuf) : addLevels c buf [] = buf := by
  cases buf
  simp [addLevels]

theorem addLevels_append (c : Col) (buf : ColBuf) (a b : PageEntries) :
    addLevels c (addLevels c buf a) b = addLevels c buf (a ++ b) := by
  unfold addLevels
  by_cases h : c.maxRep > 0 <;> simp [h]

theorem take_append_replicate (xs : List Nat) (pad : Nat) : (xs ++ List.replicate pad 0).take xs.length = xs :=
  List.take_left

/-- the level sections of a page's payload, as `OptionalField.DoRead` reads them -/
theorem readLevels_page (c : Col) (es : PageEntries) (hreq : c.isRequired = false) (hwf : WFPage c es) :
    (∀ _ : c.maxRep > 0, ∃ pad, pad < 8 ∧
      readLevelsAt (bitsLen c.maxRep) (pagePayload c es) 0 =
        .ok (es.map (·.rep) ++ List.replicate pad 0, (encode (bitsLen c.maxRep) (es.map (·.rep))).length)) ∧
    (∃ pad, pad < 8 ∧
      readLevelsAt (bitsLen c.maxDef) (pagePayload c es)
          (if c.maxRep > 0 then (encode (bitsLen c.maxRep) (es.map (·.rep))).length else 0) =
        .ok (es.map (·.dl) ++ List.replicate pad 0, (encode (bitsLen c.maxDef) (es.map (·.dl))).length)) := by
  have hreq' : ¬ c.isRequired = true := by simp [hreq]
  have hent : ∀ e ∈ es, e.dl ≤ c.maxDef ∧ e.rep ≤ c.maxRep ∧ (e.val.isSome ↔ e.dl = c.maxDef) := by
    intro e he; have := hwf.entries e he; rwa [if_neg hreq'] at this
  have hmd := hwf.maxDef
  have hmr := c.maxRep_le_maxDef
  have hwd : 1 ≤ bitsLen c.maxDef ∧ bitsLen c.maxDef ≤ 4 :=
    ⟨one_le_bitsLen _ (one_le_maxDef_of_not_required c hreq), bitsLen_le_four _ hmd⟩
  have hlen := hwf.len
  have hdx : ∀ x ∈ es.map (·.dl), x ≤ c.maxDef := by
    intro x hx; obtain ⟨e, he, rfl⟩ := List.mem_map.mp hx; exact (hent e he).1
  have hrx : ∀ x ∈ es.map (·.rep), x ≤ c.maxRep := by
    intro x hx; obtain ⟨e, he, rfl⟩ := List.mem_map.mp hx; exact (hent e he).2.1
  unfold pagePayload
  rw [if_neg hreq']
  constructor
  · intro hrep
    have hwr : 1 ≤ bitsLen c.maxRep ∧ bitsLen c.maxRep ≤ 4 :=
      ⟨one_le_bitsLen _ hrep, bitsLen_le_four _ (by omega)⟩
    obtain ⟨pad, hp, h⟩ := readLevelsAt_encode c.maxRep (es.map (·.rep)) hrx hwr (by rw [List.length_map]; exact hlen) []
      (encode (bitsLen c.maxDef) (es.map (·.dl)) ++ plainValues c.ty (nonNull es))
    refine ⟨pad, hp, ?_⟩
    rw [if_pos hrep]
    simp only [List.nil_append, List.length_nil, List.append_assoc] at h ⊢
    exact h
  · by_cases hrep : c.maxRep > 0
    · obtain ⟨pad, hp, h⟩ := readLevelsAt_encode c.maxDef (es.map (·.dl)) hdx hwd (by rw [List.length_map]; exact hlen)
        (encode (bitsLen c.maxRep) (es.map (·.rep))) (plainValues c.ty (nonNull es))
      refine ⟨pad, hp, ?_⟩
      rw [if_pos hrep, if_pos hrep]
      exact h
    · obtain ⟨pad, hp, h⟩ := readLevelsAt_encode c.maxDef (es.map (·.dl)) hdx hwd (by rw [List.length_map]; exact hlen)
        [] (plainValues c.ty (nonNull es))
      refine ⟨pad, hp, ?_⟩
      rw [if_neg hrep, if_neg hrep]
      exact h

theorem count_maxDef' (c : Col) (es : PageEntries) (hreq : c.isRequired = false) (hwf : WFPage c es) :
    ((es.map (·.dl)).filter (· = c.maxDef)).length = (nonNull es).length := by
  apply count_maxDef
  intro e he
  have := hwf.entries e he
  rw [if_neg (by simp [hreq])] at this
  exact this.2.2

theorem optionalDoRead_step (dc : Decomp) (k : Codec) (c : Col) (es : PageEntries) (hreq : c.isRequired = false)
    (hwf : WFPage c es) (hk : CodecOK dc k (k.id : Int) (pagePayload c es)) (pg : PageMeta)
    (hcodec : pg.codec = (k.id : Int)) (pre rest : Bytes) (fuel : Nat) (nRead : Int) (buf : ColBuf) (out : Bytes)
    (sizes : List Int) (hlt : nRead < pg.size) :
    optionalDoRead dc c pg (fuel + 1)
        (Src.mk (pre ++ (pageBytes k c es).1 ++ (pageBytes k c es).2 ++ rest) pre.length) nRead buf out sizes =
      optionalDoRead dc c pg fuel
        (Src.mk (pre ++ (pageBytes k c es).1 ++ (pageBytes k c es).2 ++ rest)
          (pre.length + ((pageBytes k c es).1.length + (pageBytes k c es).2.length)))
        (nRead + ((((pageBytes k c es).1.length + (pageBytes k c es).2.length : Nat)) : Int))
        (addLevels c buf es) (out ++ plainValues c.ty (nonNull es)) (sizes ++ [((nonNull es).length : Int)]) := by
  obtain ⟨h1, h2⟩ := readPage dc k c es hk pre rest
  obtain ⟨hr, ⟨padd, hpd, hd⟩⟩ := readLevels_page c es hreq hwf
  have hcount := count_maxDef' c es hreq hwf
  have hpl := pagePayload_length c es
  rw [if_neg (by simp [hreq])] at hpl
  rw [optionalDoRead, if_pos hlt]
  simp only [bind, Except.bind, h1, decPHdr_hdrT, pure, Except.pure, checkPage_phOf, Bool.not_true,
    Bool.false_eq_true, if_false, numValuesOf_phOf, hcodec, h2]
  have hsub : pre.length + ((pageBytes k c es).1.length + (pageBytes k c es).2.length) - pre.length =
      (pageBytes k c es).1.length + (pageBytes k c es).2.length := by omega
  have hnv : ¬ (((es.length : Nat) : Int) < 0 ∨ es.length > (List.map (fun e : Entry Bytes => e.dl) es ++ List.replicate padd 0).length) := by
    simp only [List.length_append, List.length_map]; omega
  have hdrop : ∀ (a b : Bytes), (a ++ b).drop (a.length) = b := fun a b => List.drop_left
  by_cases hrep : c.maxRep > 0
  · obtain ⟨padr, hpr, hr'⟩ := hr hrep
    have hnv2 : ¬ (((es.length : Nat) : Int) < 0 ∨ es.length > (List.map (fun e : Entry Bytes => e.rep) es ++ List.replicate padr 0).length) := by
      simp only [List.length_append, List.length_map]; omega
    rw [if_pos hrep] at hd hpl
    have hle : ¬ ((encode (bitsLen c.maxRep) (es.map (·.rep))).length +
        (encode (bitsLen c.maxDef) (es.map (·.dl))).length > (pagePayload c es).length) := by omega
    have e1 : (List.map (fun e : Entry Bytes => e.rep) es ++ List.replicate padr 0).take es.length = es.map (·.rep) := by
      have := take_append_replicate (es.map (·.rep)) padr; rwa [List.length_map] at this
    have e2 : (List.map (fun e : Entry Bytes => e.dl) es ++ List.replicate padd 0).take es.length = es.map (·.dl) := by
      have := take_append_replicate (es.map (·.dl)) padd; rwa [List.length_map] at this
    have e3 : (pagePayload c es).drop ((encode (bitsLen c.maxRep) (es.map (·.rep))).length +
        (encode (bitsLen c.maxDef) (es.map (·.dl))).length) = plainValues c.ty (nonNull es) := by
      unfold pagePayload
      rw [if_neg (by simp [hreq]), if_pos hrep, ← List.length_append]
      exact List.drop_left
    simp only [if_pos hrep, hr', hnv2, if_false, hd, hnv, Int.toNat_natCast, hle, e1, e2, e3, hcount, hsub, addLevels]
  · rw [if_neg hrep] at hd hpl
    have hle : ¬ ((encode (bitsLen c.maxDef) (es.map (·.dl))).length > (pagePayload c es).length) := by omega
    have e2 : (List.map (fun e : Entry Bytes => e.dl) es ++ List.replicate padd 0).take es.length = es.map (·.dl) := by
      have := take_append_replicate (es.map (·.dl)) padd; rwa [List.length_map] at this
    have e3 : (pagePayload c es).drop (encode (bitsLen c.maxDef) (es.map (·.dl))).length = plainValues c.ty (nonNull es) := by
      unfold pagePayload
      rw [if_neg (by simp [hreq]), if_neg hrep, List.nil_append]
      exact List.drop_left
    simp only [if_neg hrep, hd, hnv, if_false, Int.toNat_natCast, Nat.zero_add, hle, e2, e3, hcount, hsub, addLevels]

/-- **`OptionalField.DoRead` on the pages of one chunk.**  `pg.size` is the chunk's
`total_compressed_size`; the loop runs until that many bytes were consumed. -/
theorem optionalDoRead_pages (dc : Decomp) (k : Codec) (c : Col) (hreq : c.isRequired = false) (pg : PageMeta)
    (hcodec : pg.codec = (k.id : Int)) :
    ∀ (ess : List PageEntries) (pre post : Bytes) (fuel : Nat) (nRead : Int) (buf : ColBuf) (out : Bytes) (sizes : List Int),
      ess.length < fuel →
      (∀ es ∈ ess, WFPage c es ∧ CodecOK dc k (k.id : Int) (pagePayload c es)) →
      nRead + (((chunkBytes k c ess).length : Nat) : Int) = pg.size →
      optionalDoRead dc c pg fuel (Src.mk (pre ++ chunkBytes k c ess ++ post) pre.length) nRead buf out sizes =
        .ok (addLevels c buf ess.flatten, out ++ ess.flatMap (fun es => plainValues c.ty (nonNull es)),
             sizes ++ ess.map (fun es => ((nonNull es).length : Int)),
             Src.mk (pre ++ chunkBytes k c ess ++ post) (pre.length + (chunkBytes k c ess).length))
  | [], pre, post, fuel, nRead, buf, out, sizes, hf, _, hn => by
    cases fuel with
    | zero => omega
    | succ f =>
      simp only [chunkBytes_nil, List.length_nil, Int.natCast_zero, Int.add_zero] at hn
      rw [optionalDoRead, if_neg (by omega)]
      simp [chunkBytes_nil, addLevels_nil]
  | es :: ess, pre, post, fuel, nRead, buf, out, sizes, hf, hg, hn => by
    cases fuel with
    | zero => omega
    | succ f =>
      obtain ⟨hwf, hk⟩ := hg es List.mem_cons_self
      have hpos := pageHeader_length_pos k c es
      have hfile : pre ++ chunkBytes k c (es :: ess) ++ post =
          pre ++ (pageBytes k c es).1 ++ (pageBytes k c es).2 ++ (chunkBytes k c ess ++ post) := by
        rw [chunkBytes_cons]; simp only [List.append_assoc]
      have hfile2 : pre ++ chunkBytes k c (es :: ess) ++ post =
          (pre ++ (pageBytes k c es).1 ++ (pageBytes k c es).2) ++ chunkBytes k c ess ++ post := by
        rw [chunkBytes_cons]; simp only [List.append_assoc]
      have hl2 : (pre ++ (pageBytes k c es).1 ++ (pageBytes k c es).2).length =
          pre.length + ((pageBytes k c es).1.length + (pageBytes k c es).2.length) := by
        simp only [List.length_append]; omega
      have hlen : (chunkBytes k c (es :: ess)).length =
          (pageBytes k c es).1.length + (pageBytes k c es).2.length + (chunkBytes k c ess).length := by
        rw [chunkBytes_cons]; simp only [List.length_append]
      rw [hlen] at hn
      have ih := optionalDoRead_pages dc k c hreq pg hcodec ess (pre ++ (pageBytes k c es).1 ++ (pageBytes k c es).2) post f
        (nRead + ((((pageBytes k c es).1.length + (pageBytes k c es).2.length : Nat)) : Int))
        (addLevels c buf es) (out ++ plainValues c.ty (nonNull es)) (sizes ++ [((nonNull es).length : Int)])
        (by simp only [List.length_cons] at hf; omega) (fun e he => hg e (List.mem_cons_of_mem _ he)) (by omega)
      rw [← hfile2, hl2] at ih
      have hstep := optionalDoRead_step dc k c es hreq hwf hk pg hcodec pre (chunkBytes k c ess ++ post) f nRead buf out sizes
        (by omega)
      rw [← hfile] at hstep
      rw [hstep, ih, hlen, addLevels_append]
      simp only [List.flatMap_cons, List.map_cons, List.flatten_cons, List.append_assoc, List.cons_append,
        List.nil_append, Nat.add_assoc]

/-! ## the typed `Read` of one chunk -/

/-- what a column's buffer holds for the entries `es`: all non-null values, and (optional columns)
the definition levels and, below a repeated element, the repetition levels of every entry -/
def colBufOf (c : Col) (es : PageEntries) : ColBuf :=
  if c.isRequired then { vals := nonNull es, defs := [], reps := [] }
  else { vals := nonNull es, defs := es.map (·.dl), reps := if c.maxRep > 0 then es.map (·.rep) else [] }

/-- the `PageMeta` (`Metadata.Pages()`) of the chunk whose pages hold `ess` -/
def pageMetaOf (k : Codec) (c : Col) (ess : List PageEntries) : PageMeta :=
  { n := ((colChunk k c ess).numValues : Nat), size := ((colChunk k c ess).totalCompressed : Nat), codec := (k.id : Nat) }

theorem nonNull_append (a b : PageEntries) : nonNull (a ++ b) = nonNull a ++ nonNull b := by
  simp [nonNull, List.filterMap_append]

theorem nonNull_flatten (ess : List PageEntries) : nonNull ess.flatten = (ess.map nonNull).flatten := by
  induction ess with
  | nil => rfl
  | cons e ess ih => simp only [List.flatten_cons, nonNull_append, ih, List.map_cons]

theorem flatMap_payload_required (c : Col) (hreq : c.isRequired = true) (ess : List PageEntries) :
    ess.flatMap (pagePayload c) = (ess.map nonNull).flatMap (plainValues c.ty) := by
  induction ess with
  | nil => rfl
  | cons e ess ih =>
    simp only [List.flatMap_cons, List.map_cons, ih]
    congr 1
    unfold pagePayload
    rw [if_pos hreq]

theorem required_nonNull_length (c : Col) (hreq : c.isRequired = true) (es : PageEntries) (hwf : WFPage c es) :
    (nonNull es).length = es.length := by
  apply (required_entries es _).1
  intro e he
  have := hwf.entries e he
  rwa [if_pos hreq] at this

/-- what each page of a chunk must satisfy for the reader -/
structure PageRd (dc : Decomp) (k : Codec) (c : Col) (es : PageEntries) : Prop where
  wf : WFPage c es
  codec : CodecOK dc k (k.id : Int) (pagePayload c es)
  ne : es ≠ []

theorem chunk_fuel (k : Codec) (c : Col) (ess : List PageEntries) (pre post : Bytes) :
    ess.length < (pre ++ chunkBytes k c ess ++ post).length + 2 := by
  have := chunkBytes_length_ge k c ess
  simp only [List.length_append]; omega

/-- **The typed `Read` of one column chunk** (`<T>Field.Read` / `<T>OptionalField.Read`), started on
an empty buffer at the chunk's first page: the source ends up right after the chunk and the buffer
holds exactly the chunk's entries — multi-page chunks of every type, booleans included. -/
theorem readChunk_chunk (dc : Decomp) (k : Codec) (c : Col) (ess : List PageEntries) (pre post : Bytes)
    (hg : ∀ es ∈ ess, PageRd dc k c es) :
    readChunk dc c (pageMetaOf k c ess) {} (Src.mk (pre ++ chunkBytes k c ess ++ post) pre.length) =
      .ok (colBufOf c ess.flatten,
           Src.mk (pre ++ chunkBytes k c ess ++ post) (pre.length + (chunkBytes k c ess).length)) := by
  have hvals : ∀ vs ∈ ess.map nonNull, ∀ v ∈ vs, WTVal c.ty v := by
    intro vs hvs v hv
    obtain ⟨es, hes, rfl⟩ := List.mem_map.mp hvs
    exact (hg es hes).wf.vals v hv
  have hrv := readValues_pages c.ty (ess.map nonNull) hvals
  rw [← nonNull_flatten] at hrv
  have hfuel := chunk_fuel k c ess pre post
  unfold readChunk
  by_cases hreq : c.isRequired = true
  · rw [if_pos hreq]
    have hsz : ess.map (fun es => (es.length : Int)) = (ess.map nonNull).map (fun vs => (vs.length : Int)) := by
      rw [List.map_map]
      apply List.map_congr_left
      intro es hes
      simp only [Function.comp, required_nonNull_length c hreq es (hg es hes).wf]
    have hn : (ess.map List.length).sum = (nonNull ess.flatten).length := by
      rw [nonNull_flatten, List.length_flatten, List.map_map]
      congr 1
      apply List.map_congr_left
      intro es hes
      simp only [Function.comp, required_nonNull_length c hreq es (hg es hes).wf]
    have hloop := requiredDoRead_pages dc k c (pageMetaOf k c ess) rfl ess pre post _ 0 [] [] hfuel
      (fun es hes => ⟨(hg es hes).codec, (hg es hes).ne⟩)
      (by simp only [pageMetaOf, colChunk_numValues]; omega)
    simp only [bind, Except.bind, hloop, List.nil_append]
    simp only [pageMetaOf, colChunk_numValues, natOfInt_nat, hn, flatMap_payload_required c hreq, hsz, hrv, colBufOf,
      if_pos hreq]
    cases c.ty <;> simp
  · have hreq' : c.isRequired = false := by simpa using hreq
    rw [if_neg hreq]
    have hloop := optionalDoRead_pages dc k c hreq' (pageMetaOf k c ess) rfl ess pre post _ 0 {} [] [] hfuel
      (fun es hes => ⟨(hg es hes).wf, (hg es hes).codec⟩)
      (by simp only [pageMetaOf, colChunk_totalCompressed]; omega)
    have hcount : (((ess.flatten).map (·.dl)).filter (· = c.maxDef)).length = (nonNull ess.flatten).length := by
      apply count_maxDef
      intro e he
      obtain ⟨es, hes, hee⟩ := List.mem_flatten.mp he
      have := (hg es hes).wf.entries e hee
      rw [if_neg hreq] at this
      exact this.2.2
    have hfm : (ess.flatMap fun es => plainValues c.ty (nonNull es)) = (ess.map nonNull).flatMap (plainValues c.ty) := by
      rw [List.flatMap_map]
    have hsz : ess.map (fun es => ((nonNull es).length : Int)) = (ess.map nonNull).map (fun vs => (vs.length : Int)) := by
      rw [List.map_map]; rfl
    simp only [bind, Except.bind, hloop, List.nil_append]
    simp only [addLevels, List.nil_append, hcount, List.length_nil, Nat.sub_zero, ite_self, hfm, hsz, hrv, colBufOf,
      if_neg hreq]

end PQ
