import PQ.Model.Writer
/-!
# Lemmas about the writer state machine (`PQ/Model/Writer.lean`)

Specification functions (`batches`, `chunksOf`, `chainOf`, `batchRG`, `batchOut`, `stateOf`) and the
proof that every reachable state is `stateOf … (pendingOf ops) (batches ops)`.
-/
namespace PQ

/-! ## Specification: batches -/

/-- records between consecutive writes, empty batches dropped, records after the last write dropped
(`pend` = records added since the last `Write`) -/
def batchesAux : List Rec → List Op → List (List Rec)
  | _, [] => []
  | pend, .add r :: ops => batchesAux (pend ++ [r]) ops
  | pend, .write :: ops => if pend.isEmpty then batchesAux [] ops else pend :: batchesAux [] ops
  | pend, .close :: ops => batchesAux pend ops

def batches (ops : List Op) : List (List Rec) := batchesAux [] ops

/-- records still pending (added after the last `Write`) -/
def pendingAux : List Rec → List Op → List Rec
  | pend, [] => pend
  | pend, .add r :: ops => pendingAux (pend ++ [r]) ops
  | _, .write :: ops => pendingAux [] ops
  | pend, .close :: ops => pendingAux pend ops

def pendingOf (ops : List Op) : List Rec := pendingAux [] ops

/-- number of `Add` calls -/
def addCount : List Op → Nat
  | [] => 0
  | .add _ :: ops => addCount ops + 1
  | _ :: ops => addCount ops

def Op.isClose : Op → Bool
  | .close => true
  | _ => false

def Op.isAdd : Op → Bool
  | .add _ => true
  | _ => false

/-! ## Specification: chunks of `max` -/

def chunksAux {α : Type} : Nat → Nat → List α → List (List α)
  | 0, _, _ => []
  | fuel+1, max, l => if l.isEmpty then [] else l.take max :: chunksAux fuel max (l.drop max)

/-- `l` cut into consecutive pieces of `max` elements (the last one may be shorter) -/
def chunksOf {α : Type} (max : Nat) (l : List α) : List (List α) := chunksAux l.length max l

theorem chunksAux_succ {α : Type} (fuel max : Nat) (l : List α) :
    chunksAux (fuel+1) max l = if l.isEmpty then [] else l.take max :: chunksAux fuel max (l.drop max) := rfl

theorem chunksAux_fuel {α : Type} {max : Nat} (hmax : 1 ≤ max) :
    ∀ (f g : Nat) (l : List α), l.length ≤ f → l.length ≤ g → chunksAux f max l = chunksAux g max l := by
  intro f
  induction f with
  | zero =>
    intro g l hf _
    have : l = [] := List.length_eq_zero_iff.mp (by omega)
    subst this
    cases g <;> simp [chunksAux]
  | succ f ih =>
    intro g l hf hg
    cases g with
    | zero =>
      have : l = [] := List.length_eq_zero_iff.mp (by omega)
      subst this
      simp [chunksAux]
    | succ g =>
      unfold chunksAux
      cases l with
      | nil => simp
      | cons a l =>
        simp only [List.isEmpty_cons, Bool.false_eq_true, if_false]
        congr 1
        apply ih <;> simp only [List.length_drop, List.length_cons] at * <;> omega

theorem chunksOf_nil {α : Type} (max : Nat) : chunksOf max ([] : List α) = [] := rfl

theorem chunksOf_cons_append {α : Type} {max : Nat} (hmax : 1 ≤ max) (c rest : List α)
    (hc : c.length = max) : chunksOf max (c ++ rest) = c :: chunksOf max rest := by
  unfold chunksOf
  have hlen : (c ++ rest).length = (c.length - 1 + rest.length) + 1 := by
    simp only [List.length_append]; omega
  rw [hlen, chunksAux_succ]
  have hne : (c ++ rest).isEmpty = false := by
    cases c with
    | nil => simp at hc; omega
    | cons a c => rfl
  rw [hne]
  simp only [Bool.false_eq_true, if_false]
  rw [← hc, List.take_left, List.drop_left]
  congr 1
  apply chunksAux_fuel (by omega) <;> omega

theorem chunksOf_single {α : Type} {max : Nat} (c : List α) (h1 : 1 ≤ c.length)
    (h2 : c.length ≤ max) : chunksOf max c = [c] := by
  unfold chunksOf
  cases c with
  | nil => simp at h1
  | cons a c =>
    simp only [List.length_cons]
    unfold chunksAux
    simp only [List.isEmpty_cons, Bool.false_eq_true, if_false]
    rw [List.take_of_length_le h2, List.drop_of_length_le h2]
    cases c.length <;> simp [chunksAux]

/-- normal form of a chain of chunks: all but the last are full, the last holds `1..max` -/
def NF {α : Type} (max : Nat) : List (List α) → Prop
  | [] => False
  | [c] => 1 ≤ c.length ∧ c.length ≤ max
  | c :: c' :: cs => c.length = max ∧ NF max (c' :: cs)

theorem NF_eq_chunksOf {α : Type} {max : Nat} (hmax : 1 ≤ max) :
    ∀ cs : List (List α), NF max cs → cs = chunksOf max cs.flatten
  | [], h => h.elim
  | [c], h => by
    simp only [List.flatten_cons, List.flatten_nil, List.append_nil]
    exact (chunksOf_single c h.1 h.2).symm
  | c :: c' :: cs, h => by
    rw [List.flatten_cons, chunksOf_cons_append hmax c _ h.1]
    congr 1
    exact NF_eq_chunksOf hmax (c' :: cs) h.2

/-- the ghost of `addToChain` on chunks of records -/
def addChunk {α : Type} (max : Nat) : List (List α) → α → List (List α)
  | [], r => [[r]]
  | c :: cs, r => if c.length = max then c :: addChunk max cs r else (c ++ [r]) :: cs

theorem addChunk_ne_nil {α : Type} (max : Nat) (cs : List (List α)) (r : α) :
    addChunk max cs r ≠ [] := by
  cases cs with
  | nil => simp [addChunk]
  | cons c cs => unfold addChunk; split <;> simp

theorem addChunk_NF {α : Type} {max : Nat} (hmax : 1 ≤ max) :
    ∀ (cs : List (List α)) (r : α), NF max cs →
      NF max (addChunk max cs r) ∧ (addChunk max cs r).flatten = cs.flatten ++ [r]
  | [], _, h => h.elim
  | [c], r, h => by
    unfold addChunk
    split
    · rename_i hc
      simp only [addChunk, NF]
      exact ⟨⟨hc, by simp, by simpa using hmax⟩, by simp⟩
    · simp only [NF, List.length_append, List.length_cons, List.length_nil]
      have := h.1; have := h.2
      exact ⟨by omega, by simp⟩
  | c :: c' :: cs, r, h => by
    have ih := addChunk_NF hmax (c' :: cs) r h.2
    unfold addChunk
    rw [if_pos h.1]
    have hne := addChunk_ne_nil max (c' :: cs) r
    cases hx : addChunk max (c' :: cs) r with
    | nil => exact (hne hx).elim
    | cons d ds =>
      rw [hx] at ih
      refine ⟨⟨h.1, ih.1⟩, ?_⟩
      rw [List.flatten_cons, ih.2]
      simp

theorem addChunk_foldl_NF {α : Type} {max : Nat} (hmax : 1 ≤ max) :
    ∀ (rs : List α) (cs : List (List α)), NF max cs →
      NF max (rs.foldl (addChunk max) cs) ∧ (rs.foldl (addChunk max) cs).flatten = cs.flatten ++ rs := by
  intro rs
  induction rs with
  | nil => intro cs h; simp [h]
  | cons r rs ih =>
    intro cs h
    have h1 := addChunk_NF hmax cs r h
    have := ih (addChunk max cs r) h1.1
    simp only [List.foldl_cons]
    refine ⟨this.1, ?_⟩
    rw [this.2, h1.2]
    simp

/-- chunks after adding `rs` one at a time to the fresh chain `[[]]` -/
theorem addChunk_foldl_fresh' {α : Type} {max : Nat} (hmax : 1 ≤ max) (rs : List α) (hrs : rs ≠ []) :
    rs.foldl (addChunk max) [[]] = chunksOf max rs ∧ NF max (chunksOf max rs) ∧ (chunksOf max rs).flatten = rs := by
  cases rs with
  | nil => exact (hrs rfl).elim
  | cons r rs =>
    have h0 : addChunk max [[]] r = [[r]] := by
      unfold addChunk
      rw [if_neg (by simp; omega)]
      rfl
    simp only [List.foldl_cons, h0]
    have hnf : NF max [[r]] := ⟨by simp, by simpa using hmax⟩
    have := addChunk_foldl_NF hmax rs [[r]] hnf
    have e := NF_eq_chunksOf hmax _ this.1
    rw [this.2] at e
    have e' : List.foldl (addChunk max) [[r]] rs = chunksOf max (r :: rs) := by simpa using e
    refine ⟨e', ?_, ?_⟩
    · rw [← e']; exact this.1
    · rw [← e', this.2]; rfl

theorem addChunk_foldl_fresh {α : Type} {max : Nat} (hmax : 1 ≤ max) (rs : List α) (hrs : rs ≠ []) :
    rs.foldl (addChunk max) [[]] = chunksOf max rs := (addChunk_foldl_fresh' hmax rs hrs).1

theorem chunksOf_NF {α : Type} {max : Nat} (hmax : 1 ≤ max) (rs : List α) (hrs : rs ≠ []) :
    NF max (chunksOf max rs) := (addChunk_foldl_fresh' hmax rs hrs).2.1

theorem chunksOf_flatten {α : Type} {max : Nat} (hmax : 1 ≤ max) (rs : List α) :
    (chunksOf max rs).flatten = rs := by
  cases rs with
  | nil => rfl
  | cons r rs => exact (addChunk_foldl_fresh' hmax (r :: rs) (by simp)).2.2

theorem NF_bounds {α : Type} {max : Nat} :
    ∀ cs : List (List α), NF max cs → (∀ c ∈ cs, 1 ≤ c.length ∧ c.length ≤ max) ∨ max = 0
  | [], h => h.elim
  | [c], h => by left; intro c' hc'; simp only [List.mem_singleton] at hc'; subst hc'; exact h
  | c :: c' :: cs, h => by
    cases NF_bounds (c' :: cs) h.2 with
    | inr h0 => right; exact h0
    | inl ih =>
      by_cases h0 : max = 0
      · right; exact h0
      · left
        intro d hd
        cases List.mem_cons.mp hd with
        | inl e => subst e; have := h.1; omega
        | inr e => exact ih d e

theorem NF_dropLast_full {α : Type} {max : Nat} :
    ∀ cs : List (List α), NF max cs → ∀ c ∈ cs.dropLast, c.length = max
  | [], h => h.elim
  | [c], _ => by simp
  | c :: c' :: cs, h => by
    intro d hd
    rw [List.dropLast_cons_cons] at hd
    cases List.mem_cons.mp hd with
    | inl e => subst e; exact h.1
    | inr e => exact NF_dropLast_full (c' :: cs) h.2 d e

theorem NF_ne_nil {α : Type} {max : Nat} : ∀ cs : List (List α), NF max cs → cs ≠ []
  | [], h => h.elim
  | _ :: _, _ => by simp

/-! ## Pages of chunks -/

/-- the page holding exactly the records `chunk` -/
def pageOf (n : Nat) (chunk : List Rec) : Page := chunk.foldl Page.add (emptyPage n)

theorem pageOf_nil (n : Nat) : pageOf n [] = emptyPage n := rfl

theorem pageOf_snoc (n : Nat) (c : List Rec) (r : Rec) : pageOf n (c ++ [r]) = (pageOf n c).add r := by
  simp [pageOf, List.foldl_append]

theorem foldl_add_len (rs : List Rec) (p : Page) : (rs.foldl Page.add p).len = p.len + rs.length := by
  induction rs generalizing p with
  | nil => rfl
  | cons r rs ih => simp only [List.foldl_cons, ih, Page.add, List.length_cons]; omega

theorem pageOf_len (n : Nat) (c : List Rec) : (pageOf n c).len = c.length := by
  simp [pageOf, foldl_add_len, emptyPage]

theorem addChunk_pages (max n : Nat) (cs : List (List Rec)) (r : Rec) :
    (addChunk max cs r).map (pageOf n) = addToChain max n (cs.map (pageOf n)) r := by
  induction cs with
  | nil => simp [addChunk, addToChain, pageOf]
  | cons c cs ih =>
    simp only [addChunk, List.map_cons, addToChain, pageOf_len]
    split
    · simp [ih]
    · simp [pageOf_snoc]

theorem addChunk_foldl_pages (max n : Nat) (rs : List Rec) (cs : List (List Rec)) :
    (rs.foldl (addChunk max) cs).map (pageOf n) = rs.foldl (addToChain max n) (cs.map (pageOf n)) := by
  induction rs generalizing cs with
  | nil => rfl
  | cons r rs ih => simp only [List.foldl_cons, ih, addChunk_pages]

/-- the chain holding the pending records `pend` -/
def chainOf (max n : Nat) (pend : List Rec) : List Page :=
  if pend.isEmpty then [emptyPage n] else (chunksOf max pend).map (pageOf n)

theorem chain_add_all {max : Nat} (hmax : 1 ≤ max) (n : Nat) (rs : List Rec) :
    rs.foldl (addToChain max n) [emptyPage n] = chainOf max n rs := by
  have := addChunk_foldl_pages max n rs [[]]
  simp only [List.map_cons, List.map_nil, pageOf_nil] at this
  rw [← this]
  unfold chainOf
  cases rs with
  | nil => rfl
  | cons r rs =>
    rw [addChunk_foldl_fresh hmax _ (by simp)]
    rfl

theorem chainOf_snoc {max : Nat} (hmax : 1 ≤ max) (n : Nat) (pend : List Rec) (r : Rec) :
    addToChain max n (chainOf max n pend) r = chainOf max n (pend ++ [r]) := by
  rw [← chain_add_all hmax, ← chain_add_all hmax, List.foldl_append]
  rfl

/-! ## One `Write()` -/

/-- `updateRowGroup`'s chunk accounting for one page of entries `es` of column `c` -/
def Chunk.addEntries (codec : Codec) (c : Col) (ch : Chunk) (es : PageEntries) : Chunk :=
  ch.addPage es.length ((pagePayload c es).length + (pageBytes codec c es).1.length)
    ((pageBytes codec c es).2.length + (pageBytes codec c es).1.length)

/-- the chunk totals of a column whose pages hold `ess` -/
def colChunk (codec : Codec) (c : Col) (ess : List PageEntries) : Chunk :=
  ess.foldl (Chunk.addEntries codec c) {}

/-- per page of the chain, the entries of column `i` -/
def colEntries (pages : List Page) (i : Nat) : List PageEntries := pages.map (·.cols.getD i [])

/-- the two sink writes of one page -/
def pageWrites (codec : Codec) (c : Col) (es : PageEntries) : List Bytes :=
  [(pageBytes codec c es).1, (pageBytes codec c es).2]

def updStep (codec : Codec) (docs : Nat) (rg : RG) (x : Nat × Col × PageEntries) : RG :=
  rg.update docs x.1 x.2.2.length ((pagePayload x.2.1 x.2.2).length + (pageBytes codec x.2.1 x.2.2).1.length)
    ((pageBytes codec x.2.1 x.2.2).2.length + (pageBytes codec x.2.1 x.2.2).1.length)

def WState.writeRG (s : WState) : RG :=
  (writeOrder s).foldl (updStep s.codec s.rowGroupDocs) (s.rgs.getLast?.getD (emptyRG s.cols.length))

def WState.writeOut (s : WState) : List Bytes :=
  (writeOrder s).flatMap fun x => pageWrites s.codec x.2.1 x.2.2

def WState.headLen (s : WState) : Nat := (s.pages.head?.map (·.len)).getD 0

theorem foldl_pair {α β γ : Type} (g : α → γ → α) (h : γ → List β) (l : List γ) (a : α) (b : List β) :
    l.foldl (fun (acc : α × List β) x => (g acc.1 x, acc.2 ++ h x)) (a, b) = (l.foldl g a, b ++ l.flatMap h) := by
  induction l generalizing a b with
  | nil => simp
  | cons x l ih => simp [ih]

theorem write_empty (s : WState) (h : s.headLen = 0) : s.write = (s, []) := by
  unfold WState.write
  have h' : (s.pages.head?.map (·.len)).getD 0 = 0 := h
  rw [if_pos h']

theorem write_nonempty (s : WState) (h : s.headLen ≠ 0) :
    s.write = ({ s with pages := [emptyPage s.cols.length], rowGroupDocs := 0, rgs := s.rgs.dropLast ++ [s.writeRG, emptyRG s.cols.length] }, s.writeOut) := by
  unfold WState.write
  have h' : ¬ (s.pages.head?.map (·.len)).getD 0 = 0 := h
  rw [if_neg h']
  have := foldl_pair (updStep s.codec s.rowGroupDocs) (fun x => pageWrites s.codec x.2.1 x.2.2) (writeOrder s)
    (s.rgs.getLast?.getD (emptyRG s.cols.length)) []
  simp only [List.nil_append] at this
  have e1 : s.writeRG = ((writeOrder s).foldl (fun (acc : RG × List Bytes) x => (updStep s.codec s.rowGroupDocs acc.1 x, acc.2 ++ pageWrites s.codec x.2.1 x.2.2)) (s.rgs.getLast?.getD (emptyRG s.cols.length), [])).1 := by
    rw [this]; rfl
  have e2 : s.writeOut = ((writeOrder s).foldl (fun (acc : RG × List Bytes) x => (updStep s.codec s.rowGroupDocs acc.1 x, acc.2 ++ pageWrites s.codec x.2.1 x.2.2)) (s.rgs.getLast?.getD (emptyRG s.cols.length), [])).2 := by
    rw [this]; rfl
  rw [e1, e2]
  rfl

theorem modify_append_length {α : Type} (pre : List α) (a : α) (rest : List α) (f : α → α) :
    (pre ++ a :: rest).modify pre.length f = pre ++ f a :: rest := by
  induction pre with
  | nil => simp
  | cons x pre ih => simp [ih]

/-- one column's pages folded into the row group -/
theorem colFold (codec : Codec) (docs i : Nat) (c : Col) (ess : List PageEntries) (e : PageEntries) (rg : RG) :
    ((e :: ess).map fun es => (i, c, es)).foldl (updStep codec docs) rg =
      { numRows := docs,
        chunks := rg.chunks.modify i fun o => some ((e :: ess).foldl (Chunk.addEntries codec c) (o.getD {})) } := by
  induction ess generalizing e rg with
  | nil => simp [updStep, RG.update, Chunk.addEntries]
  | cons e' ess ih =>
    have := ih e' (updStep codec docs rg (i, c, e))
    simp only [List.map_cons, List.foldl_cons] at this ⊢
    rw [this]
    simp only [updStep, RG.update, List.modify_modify_eq]
    congr 2

/-- all columns' pages folded into a row group whose chunks from `k` on are still `none` -/
theorem colsFold (codec : Codec) (docs : Nat) (p : Page) (ps : List Page) :
    ∀ (cs : List Col) (k r0 : Nat) (pre : List (Option Chunk)), pre.length = k →
      ((cs.zipIdx k).flatMap fun (c, i) => (p :: ps).map fun p => (i, c, p.cols.getD i [])).foldl (updStep codec docs)
          { numRows := r0, chunks := pre ++ List.replicate cs.length none } =
        { numRows := if cs.isEmpty then r0 else docs,
          chunks := pre ++ (cs.zipIdx k).map fun (c, i) => some (colChunk codec c (colEntries (p :: ps) i)) }
  | [], k, r0, pre, _ => by simp
  | c :: cs, k, r0, pre, hk => by
    simp only [List.zipIdx_cons, List.flatMap_cons, List.foldl_append, List.map_cons, List.length_cons]
    have h1 := colFold codec docs k c (ps.map fun p => p.cols.getD k []) (p.cols.getD k [])
      { numRows := r0, chunks := pre ++ List.replicate (cs.length + 1) none }
    simp only [List.map_cons, List.map_map] at h1
    rw [show (List.map (fun p => (k, c, p.cols.getD k [])) ps) = List.map ((fun es => (k, c, es)) ∘ fun p => p.cols.getD k []) ps from rfl]
    rw [h1]
    simp only [List.replicate_succ]
    rw [← hk, modify_append_length]
    have h2 := colsFold codec docs p ps cs (k + 1) docs (pre ++ [some (colChunk codec c (colEntries (p :: ps) k))])
      (by simp [hk])
    simp only [List.append_assoc, List.singleton_append, List.map_cons] at h2
    subst hk
    simp only [colChunk, colEntries, List.map_cons, Option.getD_none] at h2 ⊢
    rw [h2]
    simp

/-! ## Reachable states -/

/-- the row group a batch `b` becomes -/
def batchRG (cols : List Col) (max : Nat) (codec : Codec) (b : List Rec) : RG :=
  { numRows := b.length,
    chunks := cols.zipIdx.map fun (c, i) => some (colChunk codec c (colEntries (chainOf max cols.length b) i)) }

/-- the sink writes of the `Write()` of batch `b`: per column, per page, header then payload -/
def batchOut (cols : List Col) (max : Nat) (codec : Codec) (b : List Rec) : List Bytes :=
  cols.zipIdx.flatMap fun (c, i) => (colEntries (chainOf max cols.length b) i).flatMap (pageWrites codec c)

/-- the state with `pend` pending records, written batches `done` and `docs` records added in total -/
def stateOf (cols : List Col) (max : Nat) (codec : Codec) (pend : List Rec) (done : List (List Rec)) (docs : Nat) : WState :=
  { cols := cols, max := max, codec := codec, pages := chainOf max cols.length pend, docs := docs,
    rowGroupDocs := pend.length, rgs := done.map (batchRG cols max codec) ++ [emptyRG cols.length] }

theorem init_eq_stateOf (cols : List Col) (max : Nat) (codec : Codec) :
    WState.init cols max codec = stateOf cols max codec [] [] 0 := rfl

theorem stateOf_add {max : Nat} (hmax : 1 ≤ max) (cols : List Col) (codec : Codec) (pend : List Rec)
    (done : List (List Rec)) (docs : Nat) (r : Rec) :
    (stateOf cols max codec pend done docs).add r = stateOf cols max codec (pend ++ [r]) done (docs + 1) := by
  simp only [WState.add, stateOf, chainOf_snoc hmax, List.length_append, List.length_cons, List.length_nil]

theorem chunksOf_cons {α : Type} (max : Nat) (a : α) (l : List α) :
    chunksOf max (a :: l) = (a :: l).take max :: chunksAux l.length max ((a :: l).drop max) := rfl

theorem chainOf_cons (max n : Nat) (a : Rec) (l : List Rec) :
    chainOf max n (a :: l) = pageOf n ((a :: l).take max) :: (chunksAux l.length max ((a :: l).drop max)).map (pageOf n) := rfl

theorem stateOf_headLen {max : Nat} (hmax : 1 ≤ max) (cols : List Col) (codec : Codec) (pend : List Rec)
    (done : List (List Rec)) (docs : Nat) :
    (stateOf cols max codec pend done docs).headLen = 0 ↔ pend = [] := by
  cases pend with
  | nil => simp [WState.headLen, stateOf, chainOf, emptyPage]
  | cons a l =>
    simp only [WState.headLen, stateOf, chainOf_cons, List.head?_cons, Option.map_some, Option.getD_some,
      pageOf_len, List.length_take, List.length_cons]
    constructor
    · intro h; omega
    · intro h; exact absurd h (by simp)

theorem stateOf_write_nil (cols : List Col) (max : Nat) (codec : Codec) (done : List (List Rec)) (docs : Nat) :
    (stateOf cols max codec [] done docs).write = (stateOf cols max codec [] done docs, []) :=
  write_empty _ rfl

theorem stateOf_writeRG {max : Nat} (cols : List Col) (hcols : cols ≠ []) (codec : Codec)
    (a : Rec) (l : List Rec) (done : List (List Rec)) (docs : Nat) :
    (stateOf cols max codec (a :: l) done docs).writeRG = batchRG cols max codec (a :: l) := by
  unfold WState.writeRG writeOrder
  have hlast : (stateOf cols max codec (a :: l) done docs).rgs.getLast?.getD (emptyRG (stateOf cols max codec (a :: l) done docs).cols.length)
      = { numRows := 0, chunks := [] ++ List.replicate cols.length none } := by
    simp [stateOf, emptyRG]
  rw [hlast]
  simp only [stateOf, chainOf_cons]
  rw [colsFold codec (List.length (a :: l)) _ _ cols 0 0 [] rfl]
  have : cols.isEmpty = false := by simpa using hcols
  simp only [this, batchRG, chainOf_cons, List.nil_append]
  rfl

theorem stateOf_writeOut {max : Nat} (cols : List Col) (codec : Codec)
    (pend : List Rec) (done : List (List Rec)) (docs : Nat) :
    (stateOf cols max codec pend done docs).writeOut = batchOut cols max codec pend := by
  unfold WState.writeOut writeOrder batchOut colEntries
  simp only [stateOf, List.flatMap_assoc, List.flatMap_map]

theorem stateOf_write_cons {max : Nat} (hmax : 1 ≤ max) (cols : List Col) (hcols : cols ≠ []) (codec : Codec)
    (a : Rec) (l : List Rec) (done : List (List Rec)) (docs : Nat) :
    (stateOf cols max codec (a :: l) done docs).write =
      (stateOf cols max codec [] (done ++ [a :: l]) docs, batchOut cols max codec (a :: l)) := by
  have hne : (stateOf cols max codec (a :: l) done docs).headLen ≠ 0 := by
    rw [Ne, stateOf_headLen hmax]; simp
  rw [write_nonempty _ hne, stateOf_writeRG cols hcols, stateOf_writeOut]
  simp [stateOf, chainOf]

/-- the state after a sequence of calls (`Close` does not change the state) -/
def WState.exec (s : WState) : List Op → WState
  | [] => s
  | .add r :: ops => (s.add r).exec ops
  | .write :: ops => s.write.1.exec ops
  | .close :: ops => s.exec ops

/-- the sink writes of each call of a `Close`-free history -/
def WState.outs (s : WState) : List Op → List (List Bytes)
  | [] => []
  | .add r :: ops => [] :: (s.add r).outs ops
  | .write :: ops => s.write.2 :: s.write.1.outs ops
  | .close :: ops => [] :: s.outs ops

/-- specification of `outs`: a `Write` of a non-empty batch emits `batchOut`, everything else nothing -/
def outsAux (cols : List Col) (max : Nat) (codec : Codec) : List Rec → List Op → List (List Bytes)
  | _, [] => []
  | pend, .add r :: ops => [] :: outsAux cols max codec (pend ++ [r]) ops
  | pend, .write :: ops => (if pend.isEmpty then [] else batchOut cols max codec pend) :: outsAux cols max codec [] ops
  | pend, .close :: ops => [] :: outsAux cols max codec pend ops

theorem exec_stateOf {max : Nat} (hmax : 1 ≤ max) (cols : List Col) (hcols : cols ≠ []) (codec : Codec) :
    ∀ (ops : List Op) (pend : List Rec) (done : List (List Rec)) (docs : Nat),
      (stateOf cols max codec pend done docs).exec ops =
        stateOf cols max codec (pendingAux pend ops) (done ++ batchesAux pend ops) (docs + addCount ops)
  | [], pend, done, docs => by simp [WState.exec, pendingAux, batchesAux, addCount]
  | .add r :: ops, pend, done, docs => by
    simp only [WState.exec, pendingAux, batchesAux, addCount, stateOf_add hmax]
    rw [exec_stateOf hmax cols hcols codec ops]
    congr 1; omega
  | .write :: ops, pend, done, docs => by
    cases pend with
    | nil =>
      simp only [WState.exec, pendingAux, batchesAux, addCount, stateOf_write_nil]
      rw [exec_stateOf hmax cols hcols codec ops]
      rfl
    | cons a l =>
      simp only [WState.exec, pendingAux, batchesAux, addCount, stateOf_write_cons hmax cols hcols]
      rw [exec_stateOf hmax cols hcols codec ops]
      simp
  | .close :: ops, pend, done, docs => by
    simp only [WState.exec, pendingAux, batchesAux, addCount]
    rw [exec_stateOf hmax cols hcols codec ops]

theorem outs_stateOf {max : Nat} (hmax : 1 ≤ max) (cols : List Col) (hcols : cols ≠ []) (codec : Codec) :
    ∀ (ops : List Op) (pend : List Rec) (done : List (List Rec)) (docs : Nat),
      (stateOf cols max codec pend done docs).outs ops = outsAux cols max codec pend ops
  | [], pend, done, docs => rfl
  | .add r :: ops, pend, done, docs => by
    simp only [WState.outs, outsAux, stateOf_add hmax]
    rw [outs_stateOf hmax cols hcols codec ops]
  | .write :: ops, pend, done, docs => by
    cases pend with
    | nil =>
      simp only [WState.outs, outsAux, stateOf_write_nil]
      rw [outs_stateOf hmax cols hcols codec ops]
      rfl
    | cons a l =>
      simp only [WState.outs, outsAux, stateOf_write_cons hmax cols hcols]
      rw [outs_stateOf hmax cols hcols codec ops]
      rfl
  | .close :: ops, pend, done, docs => by
    simp only [WState.outs, outsAux]
    rw [outs_stateOf hmax cols hcols codec ops]

theorem runOps_append (s : WState) :
    ∀ (body rest : List Op), (∀ op ∈ body, op.isClose = false) →
      runOps s (body ++ rest) = (s.outs body).map some ++ runOps (s.exec body) rest := by
  intro body
  induction body generalizing s with
  | nil => intro rest _; rfl
  | cons op body ih =>
    intro rest h
    have hb : ∀ op ∈ body, op.isClose = false := fun o ho => h o (List.mem_cons_of_mem _ ho)
    cases op with
    | add r => simp [runOps, WState.step, WState.outs, WState.exec, ih _ rest hb]
    | write => simp [runOps, WState.step, WState.outs, WState.exec, ih _ rest hb]
    | close => exact absurd (h .close List.mem_cons_self) (by simp [Op.isClose])

theorem runOps_noclose (s : WState) (body : List Op) (h : ∀ op ∈ body, op.isClose = false) :
    runOps s body = (s.outs body).map some := by
  have := runOps_append s body [] h
  simpa [runOps] using this

/-! ## Columns of a page -/

theorem foldl_add_cols (n i : Nat) (hi : i < n) :
    ∀ (rs : List Rec) (p : Page), p.cols.length = n → (∀ r ∈ rs, r.length = n) →
      (rs.foldl Page.add p).cols.getD i [] = p.cols.getD i [] ++ rs.flatMap (·.getD i [])
  | [], p, _, _ => by simp
  | r :: rs, p, hp, hr => by
    have hrn : r.length = n := hr r List.mem_cons_self
    have hlen : (p.add r).cols.length = n := by simp [Page.add, hp, hrn]
    rw [List.foldl_cons, foldl_add_cols n i hi rs (p.add r) hlen (fun r' h' => hr r' (List.mem_cons_of_mem _ h'))]
    have h1 : i < p.cols.length := by omega
    have h2 : i < r.length := by omega
    simp [Page.add, List.getD_eq_getElem?_getD, List.getElem?_zipWith, List.getElem?_eq_getElem h1, List.getElem?_eq_getElem h2]

/-- column `i` of the page of `chunk` is the concatenation of the records' entries for column `i` -/
theorem pageOf_col (n i : Nat) (hi : i < n) (chunk : List Rec) (h : ∀ r ∈ chunk, r.length = n) :
    (pageOf n chunk).cols.getD i [] = chunk.flatMap (·.getD i []) := by
  unfold pageOf
  rw [foldl_add_cols n i hi chunk (emptyPage n) (by simp [emptyPage]) h]
  simp [emptyPage, List.getD_eq_getElem?_getD, hi]

/-! ## Facts about `batches` -/

theorem batchesAux_ne_nil : ∀ (ops : List Op) (pend : List Rec), ∀ b ∈ batchesAux pend ops, b ≠ []
  | [], _, b, hb => by simp [batchesAux] at hb
  | .add r :: ops, pend, b, hb => batchesAux_ne_nil ops (pend ++ [r]) b hb
  | .close :: ops, pend, b, hb => batchesAux_ne_nil ops pend b hb
  | .write :: ops, pend, b, hb => by
    unfold batchesAux at hb
    split at hb
    · exact batchesAux_ne_nil ops [] b hb
    · rename_i hne
      cases List.mem_cons.mp hb with
      | inl e => subst e; simpa using hne
      | inr e => exact batchesAux_ne_nil ops [] b e

theorem batchRG_numRows (cols : List Col) (max : Nat) (codec : Codec) (b : List Rec) :
    (batchRG cols max codec b).numRows = b.length := rfl

theorem filter_done_rgs (cols : List Col) (max : Nat) (codec : Codec) (done : List (List Rec))
    (h : ∀ b ∈ done, b ≠ []) :
    (done.map (batchRG cols max codec)).filter (·.numRows ≠ 0) = done.map (batchRG cols max codec) := by
  rw [List.filter_eq_self]
  intro rg hrg
  obtain ⟨b, hb, rfl⟩ := List.mem_map.mp hrg
  have := h b hb
  simp only [batchRG_numRows, ne_eq, decide_eq_true_eq, List.length_eq_zero_iff]
  exact this

theorem chainOf_lens_sum {max : Nat} (hmax : 1 ≤ max) (n : Nat) (pend : List Rec) :
    ((chainOf max n pend).map (·.len)).sum = pend.length := by
  unfold chainOf
  cases pend with
  | nil => rfl
  | cons a l =>
    simp only [List.isEmpty_cons, Bool.false_eq_true, if_false, List.map_map]
    have : ((fun x : Page => x.len) ∘ pageOf n) = List.length := by
      funext c; simp [pageOf_len]
    rw [this, ← List.length_flatten, chunksOf_flatten hmax]

theorem sum_map_cast {α : Type} (l : List α) (f : α → Nat) :
    (l.map fun x => ((f x : Nat) : Int)).sum = (((l.map f).sum : Nat) : Int) := by
  induction l with
  | nil => rfl
  | cons a l ih => simp only [List.map_cons, List.sum_cons, ih, Int.natCast_add]

/-! ## Counting sink writes -/

theorem length_flatMap_const {α β : Type} (k : Nat) (f : α → List β) (l : List α) (h : ∀ x ∈ l, (f x).length = k) :
    (l.flatMap f).length = k * l.length := by
  induction l with
  | nil => simp
  | cons a l ih =>
    rw [List.flatMap_cons, List.length_append, h a List.mem_cons_self,
      ih (fun x hx => h x (List.mem_cons_of_mem _ hx)), List.length_cons, Nat.mul_succ]
    omega

theorem writeOrder_length (s : WState) : (writeOrder s).length = s.pages.length * s.cols.length := by
  unfold writeOrder
  rw [length_flatMap_const s.pages.length _ _ (by intro x _; simp), List.length_zipIdx]

theorem writeOut_length (s : WState) : s.writeOut.length = 2 * s.pages.length * s.cols.length := by
  unfold WState.writeOut
  rw [length_flatMap_const 2 _ _ (by intro x _; rfl), writeOrder_length, Nat.mul_assoc]

theorem batchOut_length (cols : List Col) (max : Nat) (codec : Codec) (b : List Rec) :
    (batchOut cols max codec b).length = 2 * (chainOf max cols.length b).length * cols.length := by
  have := writeOut_length (stateOf cols max codec b [] 0)
  rw [stateOf_writeOut] at this
  exact this

/-- sink writes per call of a `Close`-free history -/
def countsAux (max n : Nat) : List Rec → List Op → List Nat
  | _, [] => []
  | pend, .add r :: ops => 0 :: countsAux max n (pend ++ [r]) ops
  | pend, .write :: ops => 2 * (chunksOf max pend).length * n :: countsAux max n [] ops
  | pend, .close :: ops => 0 :: countsAux max n pend ops

theorem outsAux_lengths (cols : List Col) (max : Nat) (codec : Codec) :
    ∀ (ops : List Op) (pend : List Rec),
      (outsAux cols max codec pend ops).map List.length = countsAux max cols.length pend ops
  | [], _ => rfl
  | .add r :: ops, pend => by simp [outsAux, countsAux, outsAux_lengths cols max codec ops]
  | .close :: ops, pend => by simp [outsAux, countsAux, outsAux_lengths cols max codec ops]
  | .write :: ops, pend => by
    cases pend with
    | nil => simp [outsAux, countsAux, outsAux_lengths cols max codec ops, chunksOf_nil]
    | cons a l =>
      simp only [outsAux, countsAux, List.map_cons, outsAux_lengths cols max codec ops, List.isEmpty_cons,
        Bool.false_eq_true, if_false, batchOut_length]
      simp [chainOf]

/-! ## `Add`s change neither the row groups nor the footer -/

theorem footerT_congr (s s' : WState) (hc : s.cols = s'.cols) (hk : s.codec.id = s'.codec.id)
    (hr : s.rgs = s'.rgs) : footerT s = footerT s' := by
  unfold footerT
  rw [hc, hk, hr]

theorem close_congr (s s' : WState) (hc : s.cols = s'.cols) (hk : s.codec.id = s'.codec.id)
    (hr : s.rgs = s'.rgs) : s.close = s'.close := by
  unfold WState.close
  rw [footerT_congr s s' hc hk hr]

theorem exec_adds (s : WState) (adds : List Op) (h : ∀ op ∈ adds, op.isAdd = true) :
    (s.exec adds).cols = s.cols ∧ (s.exec adds).codec = s.codec ∧ (s.exec adds).rgs = s.rgs ∧
    (s.exec adds).max = s.max ∧ s.outs adds = List.replicate adds.length [] := by
  induction adds generalizing s with
  | nil => simp [WState.exec, WState.outs]
  | cons op adds ih =>
    cases op with
    | add r =>
      have := ih (s.add r) (fun o ho => h o (List.mem_cons_of_mem _ ho))
      simp only [WState.exec, WState.outs, List.length_cons, List.replicate_succ]
      refine ⟨this.1, this.2.1, this.2.2.1, this.2.2.2.1, ?_⟩
      rw [this.2.2.2.2]
    | write => exact absurd (h .write List.mem_cons_self) (by simp [Op.isAdd])
    | close => exact absurd (h .close List.mem_cons_self) (by simp [Op.isAdd])

theorem isAdd_not_isClose (adds : List Op) (h : ∀ op ∈ adds, op.isAdd = true) :
    ∀ op ∈ adds, op.isClose = false := by
  intro op ho
  have := h op ho
  cases op <;> simp_all [Op.isAdd, Op.isClose]

theorem exec_append (s : WState) (a b : List Op) : s.exec (a ++ b) = (s.exec a).exec b := by
  induction a generalizing s with
  | nil => rfl
  | cons op a ih => cases op <;> simp [WState.exec, ih]

theorem fileBytes_append (a b : List (Option (List Bytes))) : fileBytes (a ++ b) = fileBytes a ++ fileBytes b := by
  simp [fileBytes]

theorem fileBytes_cons (a : Option (List Bytes)) (b : List (Option (List Bytes))) :
    fileBytes (a :: b) = (a.getD []).flatten ++ fileBytes b := by
  simp [fileBytes]

theorem fileBytes_replicate_nil (k : Nat) : fileBytes (List.replicate k (some [])) = [] := by
  induction k with
  | zero => rfl
  | succ k ih => rw [List.replicate_succ, fileBytes_cons, ih]; rfl

/-! ## Layout of the data region and the offsets in the footer -/

/-- the bytes of a column chunk whose pages hold `ess`: header ‖ payload per page, along the chain -/
def chunkBytes (codec : Codec) (c : Col) (ess : List PageEntries) : Bytes :=
  (ess.flatMap (pageWrites codec c)).flatten

theorem foldl_addEntries_totals (codec : Codec) (c : Col) (ess : List PageEntries) (ch : Chunk) :
    (ess.foldl (Chunk.addEntries codec c) ch).totalCompressed = ch.totalCompressed + (chunkBytes codec c ess).length ∧
    (ess.foldl (Chunk.addEntries codec c) ch).numValues = ch.numValues + (ess.map List.length).sum := by
  induction ess generalizing ch with
  | nil => simp [chunkBytes]
  | cons e ess ih =>
    have := ih (ch.addEntries codec c e)
    simp only [List.foldl_cons, this.1, this.2]
    simp only [chunkBytes, List.flatMap_cons, pageWrites, List.flatten_append, List.flatten_cons, List.flatten_nil,
      List.length_append, Chunk.addEntries, Chunk.addPage, List.map_cons, List.sum_cons, List.length_nil]
    omega

theorem colChunk_totalCompressed (codec : Codec) (c : Col) (ess : List PageEntries) :
    (colChunk codec c ess).totalCompressed = (chunkBytes codec c ess).length := by
  have := (foldl_addEntries_totals codec c ess {}).1
  simpa [colChunk] using this

theorem colChunk_numValues (codec : Codec) (c : Col) (ess : List PageEntries) :
    (colChunk codec c ess).numValues = (ess.map List.length).sum := by
  have := (foldl_addEntries_totals codec c ess {}).2
  simpa [colChunk] using this

/-- a column chunk as the footer locates it -/
structure ChunkLoc where
  col : Col
  chunk : Chunk
  offset : Nat
  bytes : Bytes

/-- one row group's chunks `(column, totals, bytes)` laid out back to back from `pos` -/
def locsFrom : List (Col × Chunk × Bytes) → Nat → List ChunkLoc
  | [], _ => []
  | (c, ch, bs) :: rest, pos => ⟨c, ch, pos, bs⟩ :: locsFrom rest (pos + bs.length)

def itemsBytes (its : List (Col × Chunk × Bytes)) : Bytes := its.flatMap (·.2.2)

/-- row groups laid out back to back from `pos` -/
def fileLocs : List (List (Col × Chunk × Bytes)) → Nat → List (List ChunkLoc)
  | [], _ => []
  | its :: rest, pos => locsFrom its pos :: fileLocs rest (pos + (itemsBytes its).length)

/-- the chunks of batch `b`: per column its totals and its bytes -/
def batchItems (cols : List Col) (max : Nat) (codec : Codec) (b : List Rec) : List (Col × Chunk × Bytes) :=
  cols.zipIdx.map fun (c, i) =>
    (c, colChunk codec c (colEntries (chainOf max cols.length b) i),
        chunkBytes codec c (colEntries (chainOf max cols.length b) i))

/-- thrift `RowGroup`s for row groups `(num_rows, chunks)` laid out back to back from `pos`:
`file_offset` and `data_page_offset` of every chunk (both written by `chunkT`) are its `locsFrom`
offset, `total_byte_size` is the size of the row group's bytes -/
def rgTs (cid : Nat) : List (Nat × List (Col × Chunk × Bytes)) → Nat → List Thrift.TVal
  | [], _ => []
  | (rows, its) :: rest, pos =>
    Thrift.TVal.struct [(1, .list 12 ((locsFrom its pos).map fun x => chunkT x.col cid x.chunk x.offset)),
             (2, .int 6 ((itemsBytes its).length : Nat)), (3, .int 6 rows)] :: rgTs cid rest (pos + (itemsBytes its).length)

theorem rgChunksT_items (cols : List Col) (cid : Nat) :
    ∀ (its : List (Col × Chunk × Bytes)) (pos : Nat), (∀ it ∈ its, it.2.1.totalCompressed = it.2.2.length) →
      rgChunksT cols cid (its.map fun it => (it.1, some it.2.1)) pos =
        ((locsFrom its pos).map (fun x => chunkT x.col cid x.chunk x.offset),
          pos + (itemsBytes its).length, (itemsBytes its).length)
  | [], pos, _ => rfl
  | (c, ch, bs) :: rest, pos, h => by
    have hh : ch.totalCompressed = bs.length := h (c, ch, bs) List.mem_cons_self
    have ih := rgChunksT_items cols cid rest (pos + bs.length) (fun it hit => h it (List.mem_cons_of_mem _ hit))
    simp only [List.map_cons, rgChunksT, hh, ih, locsFrom, itemsBytes, List.flatMap_cons, List.length_append]
    simp only [Prod.mk.injEq, true_and]
    omega

theorem zip_zipIdx_map {α β : Type} (f : α × Nat → β) :
    ∀ (l : List α) (k : Nat), l.zip ((l.zipIdx k).map f) = (l.zipIdx k).map fun x => (x.1, f x)
  | [], _ => rfl
  | a :: l, k => by simp [zip_zipIdx_map f l (k + 1)]

theorem batchRG_zip (cols : List Col) (max : Nat) (codec : Codec) (b : List Rec) :
    cols.zip (batchRG cols max codec b).chunks =
      (batchItems cols max codec b).map fun it => (it.1, some it.2.1) := by
  unfold batchRG batchItems
  simp only [zip_zipIdx_map, List.map_map]
  rfl

theorem batchItems_sizes (cols : List Col) (max : Nat) (codec : Codec) (b : List Rec) :
    ∀ it ∈ batchItems cols max codec b, it.2.1.totalCompressed = it.2.2.length := by
  intro it hit
  unfold batchItems at hit
  obtain ⟨x, _, rfl⟩ := List.mem_map.mp hit
  exact colChunk_totalCompressed _ _ _

theorem rowGroupsT_empty (cols : List Col) (cid pos : Nat) : rowGroupsT cols cid [emptyRG cols.length] pos = [] := by
  simp [rowGroupsT, emptyRG]

/-- the footer's row groups for the closed row groups of the batches `done` -/
theorem rowGroupsT_done (cols : List Col) (max : Nat) (codec : Codec) :
    ∀ (done : List (List Rec)) (pos : Nat), (∀ b ∈ done, b ≠ []) →
      rowGroupsT cols codec.id (done.map (batchRG cols max codec) ++ [emptyRG cols.length]) pos =
        rgTs codec.id (done.map fun b => (b.length, batchItems cols max codec b)) pos
  | [], pos, _ => rowGroupsT_empty cols codec.id pos
  | b :: done, pos, h => by
    have hb : (batchRG cols max codec b).numRows ≠ 0 := by
      have := h b List.mem_cons_self
      simpa [batchRG_numRows] using this
    simp only [List.map_cons, List.cons_append, rowGroupsT, if_neg hb, batchRG_zip,
      rgChunksT_items cols codec.id _ pos (batchItems_sizes cols max codec b), rgTs]
    rw [rowGroupsT_done cols max codec done _ (fun b' hb' => h b' (List.mem_cons_of_mem _ hb'))]
    rfl

theorem locsFrom_slice :
    ∀ (its : List (Col × Chunk × Bytes)) (pre post : Bytes) (x : ChunkLoc), x ∈ locsFrom its pre.length →
      ((pre ++ itemsBytes its ++ post).drop x.offset).take x.bytes.length = x.bytes
  | [], _, _, x, hx => by simp [locsFrom] at hx
  | (c, ch, bs) :: rest, pre, post, x, hx => by
    simp only [locsFrom, List.mem_cons] at hx
    cases hx with
    | inl e =>
      subst e
      simp only [itemsBytes, List.flatMap_cons, List.append_assoc]
      rw [List.drop_left, List.take_left]
    | inr e =>
      have := locsFrom_slice rest (pre ++ bs) post x (by simpa using e)
      simpa [itemsBytes, List.append_assoc] using this

/-- every located chunk is where its offset says -/
theorem fileLocs_slice :
    ∀ (itss : List (List (Col × Chunk × Bytes))) (pre post : Bytes) (L : List ChunkLoc) (x : ChunkLoc),
      L ∈ fileLocs itss pre.length → x ∈ L →
      ((pre ++ itss.flatMap itemsBytes ++ post).drop x.offset).take x.bytes.length = x.bytes
  | [], _, _, L, _, hL, _ => by simp [fileLocs] at hL
  | its :: rest, pre, post, L, x, hL, hx => by
    simp only [fileLocs, List.mem_cons] at hL
    cases hL with
    | inl e =>
      subst e
      have := locsFrom_slice its pre (rest.flatMap itemsBytes ++ post) x hx
      simpa [List.append_assoc] using this
    | inr e =>
      have := fileLocs_slice rest (pre ++ itemsBytes its) post L x (by simpa using e) hx
      simpa [List.append_assoc] using this

theorem locsFrom_bytes : ∀ (its : List (Col × Chunk × Bytes)) (pos : Nat),
    (locsFrom its pos).flatMap (·.bytes) = itemsBytes its
  | [], _ => rfl
  | (c, ch, bs) :: rest, pos => by simp [locsFrom, itemsBytes, locsFrom_bytes rest]

/-- the located chunks, in order, tile the data region -/
theorem fileLocs_bytes : ∀ (itss : List (List (Col × Chunk × Bytes))) (pos : Nat),
    (fileLocs itss pos).flatten.flatMap (·.bytes) = itss.flatMap itemsBytes
  | [], _ => rfl
  | its :: rest, pos => by simp [fileLocs, locsFrom_bytes, fileLocs_bytes rest]

theorem locsFrom_sizes : ∀ (its : List (Col × Chunk × Bytes)) (pos : Nat),
    (∀ it ∈ its, it.2.1.totalCompressed = it.2.2.length) →
    ∀ x ∈ locsFrom its pos, x.chunk.totalCompressed = x.bytes.length
  | [], _, _, x, hx => by simp [locsFrom] at hx
  | (c, ch, bs) :: rest, pos, h, x, hx => by
    simp only [locsFrom, List.mem_cons] at hx
    cases hx with
    | inl e => subst e; exact h (c, ch, bs) List.mem_cons_self
    | inr e => exact locsFrom_sizes rest _ (fun it hit => h it (List.mem_cons_of_mem _ hit)) x e

theorem fileLocs_sizes : ∀ (itss : List (List (Col × Chunk × Bytes))) (pos : Nat),
    (∀ its ∈ itss, ∀ it ∈ its, it.2.1.totalCompressed = it.2.2.length) →
    ∀ L ∈ fileLocs itss pos, ∀ x ∈ L, x.chunk.totalCompressed = x.bytes.length
  | [], _, _, L, hL => by simp [fileLocs] at hL
  | its :: rest, pos, h, L, hL => by
    simp only [fileLocs, List.mem_cons] at hL
    cases hL with
    | inl e => subst e; exact locsFrom_sizes its pos (h its List.mem_cons_self)
    | inr e => exact fileLocs_sizes rest _ (fun its' h' => h its' (List.mem_cons_of_mem _ h')) L e

theorem flatten_flatMap {α β : Type} (f : α → List (List β)) (l : List α) :
    (l.flatMap f).flatten = l.flatMap fun x => (f x).flatten := by
  induction l with
  | nil => rfl
  | cons a l ih => simp [ih]

theorem batchOut_flatten (cols : List Col) (max : Nat) (codec : Codec) (b : List Rec) :
    (batchOut cols max codec b).flatten = itemsBytes (batchItems cols max codec b) := by
  unfold batchOut batchItems itemsBytes
  rw [flatten_flatMap, List.flatMap_map]
  rfl

/-- the bytes written by the calls of a `Close`-free history are the batches' bytes, in order -/
theorem fileBytes_outsAux (cols : List Col) (max : Nat) (codec : Codec) :
    ∀ (ops : List Op) (pend : List Rec),
      fileBytes ((outsAux cols max codec pend ops).map some) =
        (batchesAux pend ops).flatMap fun b => itemsBytes (batchItems cols max codec b)
  | [], _ => rfl
  | .add r :: ops, pend => by
    simp only [outsAux, batchesAux, List.map_cons, fileBytes_cons, fileBytes_outsAux cols max codec ops]
    rfl
  | .close :: ops, pend => by
    simp only [outsAux, batchesAux, List.map_cons, fileBytes_cons, fileBytes_outsAux cols max codec ops]
    rfl
  | .write :: ops, pend => by
    cases pend with
    | nil =>
      simp only [outsAux, batchesAux, List.map_cons, fileBytes_cons, fileBytes_outsAux cols max codec ops]
      rfl
    | cons a l =>
      simp only [outsAux, batchesAux, List.map_cons, fileBytes_cons, fileBytes_outsAux cols max codec ops,
        List.isEmpty_cons, Bool.false_eq_true, if_false, List.flatMap_cons, Option.getD_some, batchOut_flatten]

/-! ## Contiguity, explicitly -/

/-- `xs` are laid out back to back starting at `pos` -/
def Contig : Nat → List ChunkLoc → Prop
  | _, [] => True
  | pos, x :: xs => x.offset = pos ∧ Contig (pos + x.bytes.length) xs

theorem Contig_append : ∀ (a b : List ChunkLoc) (pos : Nat), Contig pos a →
    Contig (pos + (a.flatMap (·.bytes)).length) b → Contig pos (a ++ b)
  | [], b, pos, _, hb => by simpa using hb
  | x :: a, b, pos, ha, hb => by
    refine ⟨ha.1, Contig_append a b _ ha.2 ?_⟩
    simpa [List.flatMap_cons, Nat.add_assoc] using hb

theorem locsFrom_Contig : ∀ (its : List (Col × Chunk × Bytes)) (pos : Nat), Contig pos (locsFrom its pos)
  | [], _ => trivial
  | (_, _, bs) :: rest, pos => ⟨rfl, locsFrom_Contig rest (pos + bs.length)⟩

theorem fileLocs_Contig : ∀ (itss : List (List (Col × Chunk × Bytes))) (pos : Nat),
    Contig pos (fileLocs itss pos).flatten
  | [], _ => trivial
  | its :: rest, pos => by
    simp only [fileLocs, List.flatten_cons]
    apply Contig_append _ _ _ (locsFrom_Contig its pos)
    rw [locsFrom_bytes]
    exact fileLocs_Contig rest _

/-- the `k`-th chunk of a contiguous layout starts at `pos` + the sizes of the chunks before it -/
theorem Contig_offset : ∀ (xs : List ChunkLoc) (pos : Nat), Contig pos xs → ∀ (k : Nat) (h : k < xs.length),
    xs[k].offset = pos + ((xs.take k).map (·.bytes.length)).sum
  | [], _, _, k, h => by simp at h
  | x :: xs, pos, hc, 0, _ => by simpa using hc.1
  | x :: xs, pos, hc, k + 1, h => by
    have := Contig_offset xs _ hc.2 k (by simpa using h)
    simp only [List.getElem_cons_succ, this, List.take_succ_cons, List.map_cons, List.sum_cons]
    omega

/-! ## The number of pages -/

theorem chunksAux_length {α : Type} {max : Nat} (hmax : 1 ≤ max) :
    ∀ (f : Nat) (l : List α), l.length ≤ f → (chunksAux f max l).length = (l.length + max - 1) / max := by
  intro f
  induction f with
  | zero =>
    intro l h
    have : l = [] := List.length_eq_zero_iff.mp (by omega)
    subst this
    simp only [chunksAux, List.length_nil, Nat.zero_add]
    exact (Nat.div_eq_of_lt (by omega)).symm
  | succ f ih =>
    intro l h
    cases l with
    | nil =>
      simp only [chunksAux_succ, List.isEmpty_nil, if_true, List.length_nil, Nat.zero_add]
      exact (Nat.div_eq_of_lt (by omega)).symm
    | cons a l =>
      simp only [chunksAux_succ, List.isEmpty_cons, Bool.false_eq_true, if_false, List.length_cons]
      rw [ih _ (by simp only [List.length_drop, List.length_cons]; simp only [List.length_cons] at h; omega)]
      simp only [List.length_drop, List.length_cons]
      by_cases hc : max ≤ l.length + 1
      · have e1 : l.length + 1 - max + max - 1 = l.length := by omega
        have e2 : l.length + 1 + max - 1 = l.length + max := by omega
        rw [e1, e2, Nat.add_div_right _ (by omega : 0 < max)]
      · have e1 : l.length + 1 - max + max - 1 = max - 1 := by omega
        have e2 : l.length + 1 + max - 1 = l.length + max := by omega
        rw [e1, e2, Nat.add_div_right _ (by omega : 0 < max), Nat.div_eq_of_lt (by omega), Nat.div_eq_of_lt (by omega)]

/-- `⌈|l| / max⌉` chunks -/
theorem chunksOf_length {α : Type} {max : Nat} (hmax : 1 ≤ max) (l : List α) :
    (chunksOf max l).length = (l.length + max - 1) / max :=
  chunksAux_length hmax _ l (Nat.le_refl _)

end PQ
