import PQ.Model.Page
/-!
# Lemmas on the page statistics accumulators (`PQ/Model/Stats.lean`), used by `PQ/Props/C12.lean`

Layout
* vocabulary of the property: `Striped`, `acc`, `isNaN`, `le`, `key`, `Numeric`, `Seen`;
* order facts on `vLt`: irreflexive and transitive for *every* type and *every* pair of byte strings
  (NaN included: every comparison with a NaN is `false`), plus the characterisation of `le` by an
  integer key (numerics) / by `List` `≤` (strings), which is what makes `le` the column type's `≤`;
* one-step behaviour of `Stats.addEntry`, a generic `foldl` invariant principle (`acc_inv`);
* the invariants: null count, non-null count, bounds, provenance of min/max, min/max never NaN.
-/
namespace PQ.C12
open PQ

/-! ## Vocabulary -/

/-- what striping guarantees for the entries of one column (`PQ.C03.levels_bounded`) -/
def Striped (maxDef : Nat) (es : List (Entry Bytes)) : Prop :=
  ∀ e ∈ es, e.dl ≤ maxDef ∧ (e.val.isSome ↔ e.dl = maxDef)

instance (maxDef : Nat) (es : List (Entry Bytes)) : Decidable (Striped maxDef es) := by
  unfold Striped; exact inferInstance

/-- the accumulator after all entries of a page (`pageStats` with the column abstracted) -/
def acc (ty : PType) (maxDef : Nat) (es : List (Entry Bytes)) : Stats :=
  es.foldl (Stats.addEntry ty maxDef) (Stats.init ty)

theorem pageStats_eq (c : Col) (es : PageEntries) :
    pageStats c es = acc c.ty (if c.isRequired then 0 else c.maxDef) es := rfl

/-- fixed-width PLAIN value whose bytes are bytes (only used to show hypotheses are satisfiable: no
theorem needs it) -/
def WT (ty : PType) (v : Bytes) : Prop := v.length = ty.width ∧ ∀ b ∈ v, b < 256

instance (ty : PType) (v : Bytes) : Decidable (WT ty v) := by unfold WT; exact inferInstance

/-- NaN-ness of a PLAIN value in the column type -/
def isNaN (ty : PType) (v : Bytes) : Bool :=
  match ty with
  | .f32 => fIsNaN 8 23 (fromLE v)
  | .f64 => fIsNaN 11 52 (fromLE v)
  | _ => false

/-- `a ≤ b` in the column type's order (meaningful on non-NaN values, see `le_iff_key`) -/
def le (ty : PType) (a b : Bytes) : Prop := vLt ty b a = false

instance (ty : PType) (a b : Bytes) : Decidable (le ty a b) := by unfold le; exact inferInstance

/-- the integer the numeric orders compare -/
def key (ty : PType) (v : Bytes) : Int :=
  match ty with
  | .i32 => toSigned 4 (fromLE v)
  | .i64 => toSigned 8 (fromLE v)
  | .u32 | .u64 => (fromLE v : Int)
  | .f32 => fKey 8 23 (fromLE v)
  | .f64 => fKey 11 52 (fromLE v)
  | _ => 0

/-- the six types with a `math.Max<T>` / zero initialised accumulator -/
def Numeric (ty : PType) : Prop := ty ≠ .bool ∧ ty ≠ .str

instance (ty : PType) : Decidable (Numeric ty) := by unfold Numeric; exact inferInstance

/-- `v` is a value the accumulator consumed: an entry at the maximal definition level carrying `v` -/
def Seen (maxDef : Nat) (es : List (Entry Bytes)) (v : Bytes) : Prop :=
  ∃ e ∈ es, ¬ e.dl < maxDef ∧ e.val = some v

theorem seen_nil (maxDef : Nat) (v : Bytes) : ¬ Seen maxDef [] v := by
  intro ⟨e, he, _⟩; cases he

theorem seen_snoc (maxDef : Nat) (pre : List (Entry Bytes)) (e : Entry Bytes) (v : Bytes) :
    Seen maxDef (pre ++ [e]) v ↔ Seen maxDef pre v ∨ (¬ e.dl < maxDef ∧ e.val = some v) := by
  constructor
  · intro ⟨x, hx, h⟩
    rcases List.mem_append.1 hx with hx | hx
    · exact Or.inl ⟨x, hx, h⟩
    · have : x = e := by simpa using hx
      subst this; exact Or.inr h
  · intro h
    rcases h with ⟨x, hx, h⟩ | h
    · exact ⟨x, List.mem_append.2 (Or.inl hx), h⟩
    · exact ⟨e, List.mem_append.2 (Or.inr (by simp)), h⟩

/-- under striping, the consumed values are exactly the page's non-null values -/
theorem seen_of_striped {maxDef : Nat} {es : List (Entry Bytes)} (hs : Striped maxDef es)
    {e : Entry Bytes} (he : e ∈ es) {v : Bytes} (hv : e.val = some v) : Seen maxDef es v := by
  refine ⟨e, he, ?_, hv⟩
  have := (hs e he).2.1 (by rw [hv]; rfl)
  omega

theorem seen_value {maxDef : Nat} {es : List (Entry Bytes)} {v : Bytes} (h : Seen maxDef es v) :
    ∃ e ∈ es, e.val = some v := by
  let ⟨e, he, _, hv⟩ := h; exact ⟨e, he, hv⟩

/-! ## Order facts -/

theorem fLt_irrefl (e m a : Nat) : fLt e m a a = false := by
  unfold fLt
  have : ¬ fKey e m a < fKey e m a := Int.lt_irrefl _
  simp [this]

theorem fLt_trans (e m : Nat) {a b c : Nat} (h1 : fLt e m a b = true) (h2 : fLt e m b c = true) :
    fLt e m a c = true := by
  unfold fLt at *
  simp only [Bool.and_eq_true, Bool.not_eq_true', decide_eq_true_eq] at *
  exact ⟨⟨h1.1.1, h2.1.2⟩, Int.lt_trans h1.2 h2.2⟩

theorem fLt_not_nan (e m : Nat) {a b : Nat} (h : fLt e m a b = true) :
    fIsNaN e m a = false ∧ fIsNaN e m b = false := by
  unfold fLt at h
  simp only [Bool.and_eq_true, Bool.not_eq_true', decide_eq_true_eq] at h
  exact h.1

/-- `<` of every column type is irreflexive (NaN included) -/
theorem vLt_irrefl (ty : PType) (a : Bytes) : vLt ty a a = false := by
  cases ty <;> simp [vLt, fLt_irrefl, List.lt_irrefl]

/-- `<` of every column type is transitive (NaN included: a NaN is never related) -/
theorem vLt_trans (ty : PType) {a b c : Bytes} (h1 : vLt ty a b = true) (h2 : vLt ty b c = true) :
    vLt ty a c = true := by
  cases ty <;> simp only [vLt, decide_eq_true_eq] at *
  · exact Int.lt_trans h1 h2
  · exact Int.lt_trans h1 h2
  · exact Nat.lt_trans h1 h2
  · exact Nat.lt_trans h1 h2
  · exact fLt_trans _ _ h1 h2
  · exact fLt_trans _ _ h1 h2
  · exact absurd h1 (by simp)
  · exact List.lt_trans h1 h2

/-- every comparison with a NaN is false -/
theorem vLt_not_nan (ty : PType) {a b : Bytes} (h : vLt ty a b = true) :
    isNaN ty a = false ∧ isNaN ty b = false := by
  cases ty <;> simp only [vLt, isNaN, and_self] at *
  · exact fLt_not_nan _ _ h
  · exact fLt_not_nan _ _ h

theorem vLt_nan_left (ty : PType) {a : Bytes} (h : isNaN ty a = true) (b : Bytes) :
    vLt ty a b = false := by
  cases hv : vLt ty a b
  · rfl
  · have := (vLt_not_nan ty hv).1; rw [h] at this; cases this

theorem vLt_nan_right (ty : PType) {b : Bytes} (h : isNaN ty b = true) (a : Bytes) :
    vLt ty a b = false := by
  cases hv : vLt ty a b
  · rfl
  · have := (vLt_not_nan ty hv).2; rw [h] at this; cases this

/-- on numerics `<` is "neither side NaN and the keys are ordered" -/
theorem vLt_eq_key {ty : PType} (h : Numeric ty) (a b : Bytes) :
    vLt ty a b = (!isNaN ty a && !isNaN ty b && decide (key ty a < key ty b)) := by
  cases ty
  case bool => exact absurd rfl h.1
  case str => exact absurd rfl h.2
  all_goals first | rfl | simp [vLt, isNaN, key]

/-- `le` is `≤` of the keys on non-NaN numerics: signed, unsigned or IEEE order -/
theorem le_iff_key {ty : PType} (h : Numeric ty) {a b : Bytes}
    (ha : isNaN ty a = false) (hb : isNaN ty b = false) : le ty a b ↔ key ty a ≤ key ty b := by
  unfold le
  rw [vLt_eq_key h, ha, hb]
  simp [Int.not_lt]

/-- `le` is bytewise lexicographic `≤` on strings -/
theorem le_str_iff (a b : Bytes) : le .str a b ↔ a ≤ b := by
  unfold le
  simp [vLt, List.not_lt]

theorem le_refl (ty : PType) (a : Bytes) : le ty a a := vLt_irrefl ty a

theorem le_total_num {ty : PType} (h : Numeric ty) {a b : Bytes}
    (ha : isNaN ty a = false) (hb : isNaN ty b = false) : le ty a b ∨ le ty b a := by
  rw [le_iff_key h ha hb, le_iff_key h hb ha]; omega

theorem le_trans_num {ty : PType} (h : Numeric ty) {a b c : Bytes}
    (ha : isNaN ty a = false) (hb : isNaN ty b = false) (hc : isNaN ty c = false)
    (h1 : le ty a b) (h2 : le ty b c) : le ty a c := by
  rw [le_iff_key h ha hb] at h1; rw [le_iff_key h hb hc] at h2; rw [le_iff_key h ha hc]; omega

theorem le_total_str (a b : Bytes) : le .str a b ∨ le .str b a := by
  rw [le_str_iff, le_str_iff]; exact List.le_total a b

theorem le_trans_str {a b c : Bytes} (h1 : le .str a b) (h2 : le .str b c) : le .str a c := by
  rw [le_str_iff] at *; exact List.le_trans h1 h2

/-! ## The initial values are ordinary (non-NaN) numbers -/

theorem init_min_not_nan (ty : PType) : isNaN ty (Stats.init ty).min = false := by
  cases ty <;> decide

theorem init_max_not_nan (ty : PType) : isNaN ty (Stats.init ty).max = false := by
  cases ty <;> decide

/-! ## One step of the accumulators -/

theorem addVal_nils (ty : PType) (s : Stats) (v : Bytes) : (s.addVal ty v).nils = s.nils := by
  cases ty <;> rfl

theorem addVal_nonNils (ty : PType) (s : Stats) (v : Bytes) :
    (s.addVal ty v).nonNils = s.nonNils + 1 := by
  cases ty <;> rfl

theorem addVal_min_num {ty : PType} (h : Numeric ty) (s : Stats) (v : Bytes) :
    (s.addVal ty v).min = if vLt ty v s.min then v else s.min := by
  cases ty
  case bool => exact absurd rfl h.1
  case str => exact absurd rfl h.2
  all_goals rfl

theorem addVal_max_num {ty : PType} (h : Numeric ty) (s : Stats) (v : Bytes) :
    (s.addVal ty v).max = if vLt ty s.max v then v else s.max := by
  cases ty
  case bool => exact absurd rfl h.1
  case str => exact absurd rfl h.2
  all_goals rfl

theorem addVal_min_str (s : Stats) (v : Bytes) :
    (s.addVal .str v).min = if s.nonNils = 0 then v else if vLt .str v s.min then v else s.min := rfl

theorem addVal_max_str (s : Stats) (v : Bytes) :
    (s.addVal .str v).max = if s.nonNils = 0 then v else if vLt .str s.max v then v else s.max := rfl

/-- NaN never enters a numeric accumulator -/
theorem addVal_nan {ty : PType} (h : Numeric ty) (s : Stats) {v : Bytes} (hv : isNaN ty v = true) :
    s.addVal ty v = { s with nonNils := s.nonNils + 1 } := by
  have h1 := addVal_min_num h s v
  have h2 := addVal_max_num h s v
  rw [vLt_nan_left ty hv] at h1
  rw [vLt_nan_right ty hv] at h2
  have h3 := addVal_nils ty s v
  have h4 := addVal_nonNils ty s v
  cases hs : s.addVal ty v with
  | mk mn mx n nn =>
    rw [hs] at h1 h2 h3 h4
    simp only [Bool.false_eq_true, if_false] at h1 h2
    simp only at h3 h4
    subst h1 h2 h3 h4
    rfl

/-- the three things one entry can do -/
theorem addEntry_cases (ty : PType) (maxDef : Nat) (s : Stats) (e : Entry Bytes) :
    (e.dl < maxDef ∧ Stats.addEntry ty maxDef s e = s.addNull) ∨
    (¬ e.dl < maxDef ∧ e.val = none ∧ Stats.addEntry ty maxDef s e = s) ∨
    (∃ v, ¬ e.dl < maxDef ∧ e.val = some v ∧ Stats.addEntry ty maxDef s e = s.addVal ty v) := by
  unfold Stats.addEntry
  by_cases h : e.dl < maxDef
  · exact Or.inl ⟨h, by rw [if_pos h]⟩
  · rw [if_neg h]
    cases hv : e.val with
    | none => exact Or.inr (Or.inl ⟨h, rfl, rfl⟩)
    | some v => exact Or.inr (Or.inr ⟨v, h, rfl, rfl⟩)

/-- invariants over "entries consumed so far" carry through the fold -/
theorem foldl_inv {ty : PType} {maxDef : Nat} {I : List (Entry Bytes) → Stats → Prop}
    (step : ∀ pre s e, I pre s → I (pre ++ [e]) (Stats.addEntry ty maxDef s e)) :
    ∀ (es pre : List (Entry Bytes)) (s : Stats), I pre s →
      I (pre ++ es) (es.foldl (Stats.addEntry ty maxDef) s) := by
  intro es
  induction es with
  | nil => intro pre s h; simpa using h
  | cons e es ih =>
    intro pre s h
    have := ih (pre ++ [e]) _ (step pre s e h)
    simpa using this

theorem acc_inv {ty : PType} {maxDef : Nat} {I : List (Entry Bytes) → Stats → Prop}
    (h0 : I [] (Stats.init ty))
    (step : ∀ pre s e, I pre s → I (pre ++ [e]) (Stats.addEntry ty maxDef s e))
    (es : List (Entry Bytes)) : I es (acc ty maxDef es) := by
  have := foldl_inv step es [] _ h0
  simpa [acc] using this

/-! ## Counts -/

theorem nils_eq (ty : PType) (maxDef : Nat) (es : List (Entry Bytes)) :
    (acc ty maxDef es).nils = (es.filter (fun e => decide (e.dl < maxDef))).length := by
  refine acc_inv (I := fun pre s => s.nils = (pre.filter (fun e => decide (e.dl < maxDef))).length)
    ?_ ?_ es
  · cases ty <;> rfl
  · intro pre s e ih
    rw [List.filter_append, List.length_append]
    rcases addEntry_cases ty maxDef s e with ⟨h, hs⟩ | ⟨h, _, hs⟩ | ⟨v, h, _, hs⟩
    · rw [hs]; simp [Stats.addNull, h, ih]
    · rw [hs]; simp [h, ih]
    · rw [hs, addVal_nils]; simp [h, ih]

theorem filter_null_striped {maxDef : Nat} {es : List (Entry Bytes)} (hs : Striped maxDef es) :
    es.filter (fun e => decide (e.dl < maxDef)) = es.filter (fun e => e.val.isNone) := by
  apply List.filter_congr
  intro e he
  have ⟨h1, h2⟩ := hs e he
  cases hv : e.val with
  | none =>
    have : ¬ e.dl = maxDef := fun h => by have := h2.2 h; rw [hv] at this; cases this
    have : e.dl < maxDef := by omega
    simp [this]
  | some v =>
    have : e.dl = maxDef := h2.1 (by rw [hv]; rfl)
    simp [this]

theorem nonNils_eq (ty : PType) (maxDef : Nat) (es : List (Entry Bytes)) :
    (acc ty maxDef es).nonNils =
      (es.filter (fun e => !decide (e.dl < maxDef) && e.val.isSome)).length := by
  refine acc_inv (I := fun pre s => s.nonNils =
    (pre.filter (fun e => !decide (e.dl < maxDef) && e.val.isSome)).length) ?_ ?_ es
  · cases ty <;> rfl
  · intro pre s e ih
    rw [List.filter_append, List.length_append]
    rcases addEntry_cases ty maxDef s e with ⟨h, hs⟩ | ⟨h, hv, hs⟩ | ⟨v, h, hv, hs⟩
    · rw [hs]; simp [Stats.addNull, h, ih]
    · rw [hs]; simp [h, hv, ih]
    · rw [hs, addVal_nonNils]; simp [h, hv, ih]

/-- `nonNils = 0` exactly when no value was consumed -/
theorem nonNils_zero_iff (ty : PType) (maxDef : Nat) (es : List (Entry Bytes)) :
    (acc ty maxDef es).nonNils = 0 ↔ ∀ v, ¬ Seen maxDef es v := by
  rw [nonNils_eq, List.length_eq_zero_iff, List.filter_eq_nil_iff]
  constructor
  · intro h v ⟨e, he, hd, hv⟩
    apply h e he
    simp [hd, hv]
  · intro h e he hc
    simp only [Bool.and_eq_true, Bool.not_eq_true', decide_eq_false_iff_not] at hc
    cases hv : e.val with
    | none => rw [hv] at hc; exact absurd hc.2 (by simp)
    | some v => exact h v ⟨e, he, hc.1, hv⟩

theorem nonNils_zero_of_no_value (ty : PType) (maxDef : Nat) {es : List (Entry Bytes)}
    (h : ∀ e ∈ es, e.val = none) : (acc ty maxDef es).nonNils = 0 := by
  rw [nonNils_zero_iff]
  intro v ⟨e, he, _, hv⟩
  rw [h e he] at hv; cases hv

/-! ## Bounds -/

section generic
variable {lt : Bytes → Bytes → Bool}

theorem min_step (irr : ∀ a, lt a a = false)
    (tr : ∀ {a b c}, lt a b = true → lt b c = true → lt a c = true)
    {P : Bytes → Prop} {m : Bytes} (v : Bytes) (h : ∀ w, P w → lt w m = false) :
    ∀ w, (P w ∨ w = v) → lt w (if lt v m then v else m) = false := by
  intro w hw
  cases hvm : lt v m
  · simp only [Bool.false_eq_true, if_false]
    rcases hw with hw | rfl
    · exact h w hw
    · exact hvm
  · simp only [if_true]
    rcases hw with hw | rfl
    · cases hwv : lt w v
      · rfl
      · have := tr hwv hvm; rw [h w hw] at this; cases this
    · exact irr _

theorem max_step (irr : ∀ a, lt a a = false)
    (tr : ∀ {a b c}, lt a b = true → lt b c = true → lt a c = true)
    {P : Bytes → Prop} {m : Bytes} (v : Bytes) (h : ∀ w, P w → lt m w = false) :
    ∀ w, (P w ∨ w = v) → lt (if lt m v then v else m) w = false := by
  intro w hw
  cases hvm : lt m v
  · simp only [Bool.false_eq_true, if_false]
    rcases hw with hw | rfl
    · exact h w hw
    · exact hvm
  · simp only [if_true]
    rcases hw with hw | rfl
    · cases hwv : lt v w
      · rfl
      · have := tr hvm hwv; rw [h w hw] at this; cases this
    · exact irr _

end generic

/-- numeric accumulators: every consumed value (NaN or not) is not below `min` and not above `max` -/
theorem bounds_num {ty : PType} (hn : Numeric ty) (maxDef : Nat) (es : List (Entry Bytes)) :
    ∀ v, Seen maxDef es v →
      vLt ty v (acc ty maxDef es).min = false ∧ vLt ty (acc ty maxDef es).max v = false := by
  refine acc_inv (I := fun pre s => ∀ v, Seen maxDef pre v →
    vLt ty v s.min = false ∧ vLt ty s.max v = false) ?_ ?_ es
  · intro v hv; exact absurd hv (seen_nil _ _)
  · intro pre s e ih w hw
    rw [seen_snoc] at hw
    rcases addEntry_cases ty maxDef s e with ⟨h, hs⟩ | ⟨h, hv, hs⟩ | ⟨v, h, hv, hs⟩
    · rw [hs]
      rcases hw with hw | ⟨hd, _⟩
      · exact ih w hw
      · exact absurd h hd
    · rw [hs]
      rcases hw with hw | ⟨_, hv'⟩
      · exact ih w hw
      · rw [hv] at hv'; cases hv'
    · rw [hs, addVal_min_num hn, addVal_max_num hn]
      have hw' : Seen maxDef pre w ∨ w = v := by
        rcases hw with hw | ⟨_, hv'⟩
        · exact Or.inl hw
        · rw [hv] at hv'; cases hv'; exact Or.inr rfl
      exact ⟨min_step (vLt_irrefl ty) (vLt_trans ty) v (fun w hw => (ih w hw).1) w hw',
             max_step (vLt_irrefl ty) (vLt_trans ty) v (fun w hw => (ih w hw).2) w hw'⟩

/-- string accumulators (with the `seen` flag = `nonNils > 0`) -/
theorem bounds_str (maxDef : Nat) (es : List (Entry Bytes)) :
    ∀ v, Seen maxDef es v →
      vLt .str v (acc .str maxDef es).min = false ∧ vLt .str (acc .str maxDef es).max v = false := by
  have key := acc_inv (ty := .str) (maxDef := maxDef)
    (I := fun pre s => (s.nonNils = 0 → ∀ v, ¬ Seen maxDef pre v) ∧ ∀ v, Seen maxDef pre v →
      vLt .str v s.min = false ∧ vLt .str s.max v = false) ?_ ?_ es
  · exact key.2
  · exact ⟨fun _ v => seen_nil _ _, fun v hv => absurd hv (seen_nil _ _)⟩
  · intro pre s e ⟨ih0, ih⟩
    rcases addEntry_cases .str maxDef s e with ⟨h, hs⟩ | ⟨h, hv, hs⟩ | ⟨v, h, hv, hs⟩
    · rw [hs]
      have hseen : ∀ w, Seen maxDef (pre ++ [e]) w → Seen maxDef pre w := by
        intro w hw
        rcases (seen_snoc _ _ _ _).1 hw with hw | ⟨hd, _⟩
        · exact hw
        · exact absurd h hd
      exact ⟨fun h0 w hw => ih0 h0 w (hseen w hw), fun w hw => ih w (hseen w hw)⟩
    · rw [hs]
      have hseen : ∀ w, Seen maxDef (pre ++ [e]) w → Seen maxDef pre w := by
        intro w hw
        rcases (seen_snoc _ _ _ _).1 hw with hw | ⟨_, hv'⟩
        · exact hw
        · rw [hv] at hv'; cases hv'
      exact ⟨fun h0 w hw => ih0 h0 w (hseen w hw), fun w hw => ih w (hseen w hw)⟩
    · rw [hs]
      refine ⟨fun h0 => ?_, ?_⟩
      · rw [addVal_nonNils] at h0; omega
      · intro w hw
        have hw' : Seen maxDef pre w ∨ w = v := by
          rcases (seen_snoc _ _ _ _).1 hw with hw | ⟨_, hv'⟩
          · exact Or.inl hw
          · rw [hv] at hv'; cases hv'; exact Or.inr rfl
        rw [addVal_min_str, addVal_max_str]
        by_cases h0 : s.nonNils = 0
        · rw [if_pos h0, if_pos h0]
          rcases hw' with hw' | rfl
          · exact absurd hw' (ih0 h0 w)
          · exact ⟨vLt_irrefl _ _, vLt_irrefl _ _⟩
        · rw [if_neg h0, if_neg h0]
          exact ⟨min_step (vLt_irrefl .str) (vLt_trans .str) v (fun w hw => (ih w hw).1) w hw',
                 max_step (vLt_irrefl .str) (vLt_trans .str) v (fun w hw => (ih w hw).2) w hw'⟩

/-! ## Provenance of min / max, and: they are never NaN -/

theorem attained_num {ty : PType} (hn : Numeric ty) (maxDef : Nat) (es : List (Entry Bytes)) :
    ((acc ty maxDef es).min = (Stats.init ty).min ∨ Seen maxDef es (acc ty maxDef es).min) ∧
    ((acc ty maxDef es).max = (Stats.init ty).max ∨ Seen maxDef es (acc ty maxDef es).max) := by
  refine acc_inv (I := fun pre s =>
    (s.min = (Stats.init ty).min ∨ Seen maxDef pre s.min) ∧
    (s.max = (Stats.init ty).max ∨ Seen maxDef pre s.max)) ?_ ?_ es
  · exact ⟨Or.inl rfl, Or.inl rfl⟩
  · intro pre s e ⟨ih1, ih2⟩
    have mono : ∀ w, Seen maxDef pre w → Seen maxDef (pre ++ [e]) w :=
      fun w hw => (seen_snoc _ _ _ _).2 (Or.inl hw)
    rcases addEntry_cases ty maxDef s e with ⟨h, hs⟩ | ⟨h, hv, hs⟩ | ⟨v, h, hv, hs⟩
    · rw [hs]; exact ⟨ih1.imp id (mono _), ih2.imp id (mono _)⟩
    · rw [hs]; exact ⟨ih1.imp id (mono _), ih2.imp id (mono _)⟩
    · rw [hs, addVal_min_num hn, addVal_max_num hn]
      have new : Seen maxDef (pre ++ [e]) v := (seen_snoc _ _ _ _).2 (Or.inr ⟨h, hv⟩)
      constructor
      · split
        · exact Or.inr new
        · exact ih1.imp id (mono _)
      · split
        · exact Or.inr new
        · exact ih2.imp id (mono _)

theorem attained_str (maxDef : Nat) (es : List (Entry Bytes)) :
    (acc .str maxDef es).nonNils ≠ 0 →
      Seen maxDef es (acc .str maxDef es).min ∧ Seen maxDef es (acc .str maxDef es).max := by
  refine acc_inv (ty := .str) (I := fun pre s => s.nonNils ≠ 0 →
    Seen maxDef pre s.min ∧ Seen maxDef pre s.max) ?_ ?_ es
  · intro h; exact absurd rfl h
  · intro pre s e ih
    have mono : ∀ w, Seen maxDef pre w → Seen maxDef (pre ++ [e]) w :=
      fun w hw => (seen_snoc _ _ _ _).2 (Or.inl hw)
    rcases addEntry_cases .str maxDef s e with ⟨h, hs⟩ | ⟨h, hv, hs⟩ | ⟨v, h, hv, hs⟩
    · rw [hs]; intro h0; exact ⟨mono _ (ih h0).1, mono _ (ih h0).2⟩
    · rw [hs]; intro h0; exact ⟨mono _ (ih h0).1, mono _ (ih h0).2⟩
    · rw [hs, addVal_min_str, addVal_max_str]
      intro _
      have new : Seen maxDef (pre ++ [e]) v := (seen_snoc _ _ _ _).2 (Or.inr ⟨h, hv⟩)
      by_cases h0 : s.nonNils = 0
      · rw [if_pos h0, if_pos h0]; exact ⟨new, new⟩
      · rw [if_neg h0, if_neg h0]
        constructor
        · split
          · exact new
          · exact mono _ (ih h0).1
        · split
          · exact new
          · exact mono _ (ih h0).2

/-- the accumulated min / max of a numeric column are never NaN -/
theorem not_nan_num {ty : PType} (hn : Numeric ty) (maxDef : Nat) (es : List (Entry Bytes)) :
    isNaN ty (acc ty maxDef es).min = false ∧ isNaN ty (acc ty maxDef es).max = false := by
  refine acc_inv (I := fun _ s => isNaN ty s.min = false ∧ isNaN ty s.max = false) ?_ ?_ es
  · exact ⟨init_min_not_nan ty, init_max_not_nan ty⟩
  · intro pre s e ⟨ih1, ih2⟩
    rcases addEntry_cases ty maxDef s e with ⟨h, hs⟩ | ⟨h, hv, hs⟩ | ⟨v, h, hv, hs⟩
    · rw [hs]; exact ⟨ih1, ih2⟩
    · rw [hs]; exact ⟨ih1, ih2⟩
    · rw [hs, addVal_min_num hn, addVal_max_num hn]
      constructor
      · cases hc : vLt ty v s.min
        · simpa using ih1
        · simpa using (vLt_not_nan ty hc).1
      · cases hc : vLt ty s.max v
        · simpa using ih2
        · simpa using (vLt_not_nan ty hc).2

/-! ## What `Stats.result` reports -/

theorem result_nulls_optional (ty : PType) (s : Stats) : (s.result ty false).1 = some s.nils := by
  cases ty <;> rfl

theorem result_nulls_required (ty : PType) (s : Stats) : (s.result ty true).1 = none := by
  cases ty <;> rfl

theorem result_bool (required : Bool) (s : Stats) :
    (s.result .bool required).2.1 = none ∧ (s.result .bool required).2.2 = none := by
  cases required <;> exact ⟨rfl, rfl⟩

theorem result_required_num {ty : PType} (hn : Numeric ty) (s : Stats) :
    (s.result ty true).2.1 = some s.min ∧ (s.result ty true).2.2 = some s.max := by
  cases ty
  case bool => exact absurd rfl hn.1
  case str => exact absurd rfl hn.2
  all_goals exact ⟨rfl, rfl⟩

/-- `Min()` / `Max()` of the kinds that can omit them: present iff `nonNils ≠ 0` -/
theorem result_guarded {ty : PType} {required : Bool} (h : required = false ∨ ty = .str)
    (hb : ty ≠ .bool) (s : Stats) :
    (s.result ty required).2.1 = (if s.nonNils = 0 then none else some s.min) ∧
    (s.result ty required).2.2 = (if s.nonNils = 0 then none else some s.max) := by
  rcases h with rfl | rfl
  · cases ty
    case bool => exact absurd rfl hb
    all_goals exact ⟨rfl, rfl⟩
  · exact ⟨rfl, rfl⟩

/-- whatever is reported is the accumulator's field -/
theorem result_min_some {ty : PType} {required : Bool} {s : Stats} {mn : Bytes}
    (h : (s.result ty required).2.1 = some mn) : mn = s.min := by
  cases ty <;> cases required <;> simp only [Stats.result] at h <;>
    first
    | (cases h; rfl)
    | (split at h <;> first | (cases h; rfl) | cases h)
    | cases h

theorem result_max_some {ty : PType} {required : Bool} {s : Stats} {mx : Bytes}
    (h : (s.result ty required).2.2 = some mx) : mx = s.max := by
  cases ty <;> cases required <;> simp only [Stats.result] at h <;>
    first
    | (cases h; rfl)
    | (split at h <;> first | (cases h; rfl) | cases h)
    | cases h

/-- a reported string min means a value was consumed -/
theorem result_str_some_nonNils {required : Bool} {s : Stats} {mn : Bytes}
    (h : (s.result .str required).2.1 = some mn) : s.nonNils ≠ 0 := by
  intro h0
  simp only [Stats.result, h0, if_true] at h
  cases h

theorem result_str_some_nonNils' {required : Bool} {s : Stats} {mx : Bytes}
    (h : (s.result .str required).2.2 = some mx) : s.nonNils ≠ 0 := by
  intro h0
  simp only [Stats.result, h0, if_true] at h
  cases h

/-! ## Reported statistics of a page -/

theorem seen_iff_striped {maxDef : Nat} {es : List (Entry Bytes)} (hs : Striped maxDef es)
    (v : Bytes) : Seen maxDef es v ↔ ∃ e ∈ es, e.val = some v :=
  ⟨seen_value, fun ⟨_, he, hv⟩ => seen_of_striped hs he hv⟩

/-- every type, every kind: whatever min / max are reported bound every consumed value -/
theorem bounds_reported (ty : PType) (maxDef : Nat) (es : List (Entry Bytes)) (required : Bool)
    {mn mx : Bytes}
    (hmn : ((acc ty maxDef es).result ty required).2.1 = some mn)
    (hmx : ((acc ty maxDef es).result ty required).2.2 = some mx) :
    ∀ v, Seen maxDef es v → vLt ty v mn = false ∧ vLt ty mx v = false := by
  have e1 := result_min_some hmn
  have e2 := result_max_some hmx
  subst e1 e2
  by_cases hb : ty = .bool
  · subst hb; rw [(result_bool required _).1] at hmn; cases hmn
  · by_cases hstr : ty = .str
    · subst hstr; exact bounds_str maxDef es
    · exact bounds_num ⟨hb, hstr⟩ maxDef es

/-- kinds that can omit min / max report them exactly when a value was consumed -/
theorem present_iff {ty : PType} {required : Bool} (h : required = false ∨ ty = .str)
    (hb : ty ≠ .bool) (maxDef : Nat) (es : List (Entry Bytes)) :
    ((((acc ty maxDef es).result ty required).2.1.isSome = true) ↔ ∃ v, Seen maxDef es v) ∧
    ((((acc ty maxDef es).result ty required).2.2.isSome = true) ↔ ∃ v, Seen maxDef es v) := by
  have hz := nonNils_zero_iff ty maxDef es
  rw [(result_guarded h hb _).1, (result_guarded h hb _).2]
  by_cases h0 : (acc ty maxDef es).nonNils = 0
  · rw [if_pos h0, if_pos h0]
    have hn := hz.1 h0
    have : ¬ ∃ v, Seen maxDef es v := fun ⟨v, hv⟩ => hn v hv
    simp [this]
  · rw [if_neg h0, if_neg h0]
    have : ∃ v, Seen maxDef es v := by
      apply Classical.byContradiction
      intro hc
      exact h0 (hz.2 (fun v hv => hc ⟨v, hv⟩))
    simp [this]

theorem absent_of_no_value {ty : PType} {required : Bool}
    (h : required = false ∨ ty = .str ∨ ty = .bool) (maxDef : Nat) {es : List (Entry Bytes)}
    (hv : ∀ e ∈ es, e.val = none) :
    ((acc ty maxDef es).result ty required).2.1 = none ∧
    ((acc ty maxDef es).result ty required).2.2 = none := by
  by_cases hb : ty = .bool
  · subst hb; exact result_bool _ _
  · have h' : required = false ∨ ty = .str := by
      rcases h with h | h | h
      · exact Or.inl h
      · exact Or.inr h
      · exact absurd h hb
    have h0 := nonNils_zero_of_no_value ty maxDef hv
    rw [(result_guarded h' hb _).1, (result_guarded h' hb _).2, if_pos h0, if_pos h0]
    exact ⟨rfl, rfl⟩

/-- reported min / max: the initial value or a consumed value (strings: always a consumed value) -/
theorem attained_reported (ty : PType) (maxDef : Nat) (es : List (Entry Bytes)) (required : Bool) :
    (∀ mn, ((acc ty maxDef es).result ty required).2.1 = some mn →
      (Numeric ty ∧ mn = (Stats.init ty).min) ∨ Seen maxDef es mn) ∧
    (∀ mx, ((acc ty maxDef es).result ty required).2.2 = some mx →
      (Numeric ty ∧ mx = (Stats.init ty).max) ∨ Seen maxDef es mx) := by
  by_cases hb : ty = .bool
  · subst hb
    constructor
    · intro mn h; rw [(result_bool required _).1] at h; cases h
    · intro mx h; rw [(result_bool required _).2] at h; cases h
  · by_cases hstr : ty = .str
    · subst hstr
      constructor
      · intro mn h
        have e := result_min_some h; subst e
        exact Or.inr (attained_str maxDef es (result_str_some_nonNils h)).1
      · intro mx h
        have e := result_max_some h; subst e
        exact Or.inr (attained_str maxDef es (result_str_some_nonNils' h)).2
    · have hn : Numeric ty := ⟨hb, hstr⟩
      have ha := attained_num hn maxDef es
      constructor
      · intro mn h
        have e := result_min_some h; subst e
        exact ha.1.imp (fun h => ⟨hn, h⟩) id
      · intro mx h
        have e := result_max_some h; subst e
        exact ha.2.imp (fun h => ⟨hn, h⟩) id

/-- reported numeric min / max are never NaN -/
theorem not_nan_reported (ty : PType) (maxDef : Nat) (es : List (Entry Bytes)) (required : Bool) :
    (∀ mn, ((acc ty maxDef es).result ty required).2.1 = some mn → isNaN ty mn = false) ∧
    (∀ mx, ((acc ty maxDef es).result ty required).2.2 = some mx → isNaN ty mx = false) := by
  by_cases hn : Numeric ty
  · constructor
    · intro mn h; have e := result_min_some h; subst e; exact (not_nan_num hn maxDef es).1
    · intro mx h; have e := result_max_some h; subst e; exact (not_nan_num hn maxDef es).2
  · have : ∀ v, isNaN ty v = false := by
      intro v
      cases ty <;> first | rfl | exact absurd (by decide) hn
    exact ⟨fun mn _ => this mn, fun mx _ => this mx⟩

end PQ.C12
