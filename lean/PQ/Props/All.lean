import PQ.Props.C17
