import PQ.Props.C17
import PQ.Props.C07
import PQ.Lemmas.BitpackNat
