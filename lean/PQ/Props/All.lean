import PQ.Props.C17
import PQ.Props.C07
import PQ.Props.C03
import PQ.Lemmas.BitpackNat
import PQ.Lemmas.Thrift
