import PQ.Lemmas.Thrift
import PQ.Props.C07
import PQ.Model.Spec
import PQ.Lemmas.PageRT
import PQ.Props.C06
/-!
# C02 — every written file is structurally valid Parquet with a truthful footer

Carried so far by theorems over the model: the thrift layer (footer and page headers decode to
what was encoded; a truncated struct never decodes; every emitted byte is a byte), the level
sections (well-formed hybrid streams with exact length prefix), and — in `PQ/Props/C06.lean` — the
layout of the sink stream (offsets and sizes recorded in the footer equal the positions and
lengths of the bytes written).  The statement `parseFile (fileBytes (runWriter …)) = ok …` for all
histories is **not yet a single theorem**; `PQ.parseFile` is evaluated on every file the
implementation writes on every run, and the model writer's bytes equal the implementation's.
-/
namespace PQ.C02

/-- the footer / page headers are decodable exactly (independent thrift reader) -/
theorem thrift_decodes (v : PQ.Thrift.TVal) (h : v.WF) (fuel : Nat) (rest : Bytes) (hf : v.size ≤ fuel) :
    PQ.Thrift.decVal v.ecode fuel (v.enc ++ rest) = some (v, rest) :=
  PQ.Thrift.decVal_enc v h fuel rest hf

/-- every byte of an encoded thrift value is < 256 -/
theorem thrift_bytes (v : PQ.Thrift.TVal) (h : v.WF') : ∀ b ∈ v.enc, b < 256 :=
  PQ.Thrift.enc_bytes_lt v h

/-- level sections have an exact length prefix and decode (specification decoder) to the levels -/
theorem level_section_valid (w : Nat) (hw : 1 ≤ w ∧ w ≤ 4) (xs : List Nat) (hx : ∀ x ∈ xs, x < 2 ^ w)
    (hlen : xs.length + 8 ≤ 2 ^ 30) :
    ∃ pad, pad < 8 ∧ specDecode w (encode w xs) = some (xs ++ List.replicate pad 0, (encode w xs).length) :=
  PQ.C07.spec_decode_encode w hw xs hx hlen

/-- each data page's level and value sections have exactly the lengths its header implies: the
independent page parser accepts the page as written and recovers its entries -/
theorem page_valid (dc : Decomp) (k : Codec) (codec : Int) (c : Col) (es : PageEntries) (hwf : WFPage c es)
    (hk : CodecOK dc k codec (pagePayload c es)) (pre rest : Bytes) :
    specPage dc c codec (pre ++ (pageBytes k c es).1 ++ (pageBytes k c es).2 ++ rest) pre.length =
      .ok { numValues := es.length, entries := es, headerLen := (pageBytes k c es).1.length,
            compressedLen := (pageBytes k c es).2.length, uncompressedLen := (pagePayload c es).length,
            stats := some (pageStatsFields c es) } :=
  PQ.specPage_pageBytes_codec dc k codec c es hwf hk pre rest

end PQ.C02
