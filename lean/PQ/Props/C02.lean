import PQ.Model.Spec
