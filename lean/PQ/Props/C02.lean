import PQ.Lemmas.Thrift
import PQ.Props.C07
import PQ.Model.Spec
import PQ.Lemmas.PageRT
import PQ.Props.C06
import PQ.Lemmas.FileRT
import PQ.Lemmas.SchemaTree
/-!
# C02 — every written file is structurally valid Parquet with a truthful footer

Carried so far by theorems over the model: the thrift layer (footer and page headers decode to
what was encoded; a truncated struct never decodes; every emitted byte is a byte), the level
sections (well-formed hybrid streams with exact length prefix), and — in `PQ/Props/C06.lean` — the
layout of the sink stream (offsets and sizes recorded in the footer equal the positions and
lengths of the bytes written).  `file_valid` below is the full statement: for every struct shape (every well-formed field forest:
any nesting depth, repeated groups, same-named groups under different parents), every history of
Add/Write ending in Close, every page size ≥ 1 and every codec with a correct decompressor, the
bytes the writer model gives to the sink are accepted by the independent parser/validator
`PQ.parseFile` (magic, footer length, thrift, schema tree = the struct's columns, every offset /
size / count / codec, page record limits and boundaries, exact level and value section lengths)
and contain exactly the written batches.  The model writer's bytes equal the implementation's on
every run (exact tie), and `PQ.parseFile` is also evaluated on every file the implementation writes.
-/
namespace PQ.C02

/-- the footer / page headers are decodable exactly (independent thrift reader) -/
theorem thrift_decodes (v : PQ.Thrift.TVal) (h : v.WF) (fuel : Nat) (rest : Bytes) (hf : v.size ≤ fuel) :
    PQ.Thrift.decVal v.ecode fuel (v.enc ++ rest) = some (v, rest) :=
  PQ.Thrift.decVal_enc v h fuel rest hf

/-- every byte of an encoded thrift value is < 256 -/
theorem thrift_bytes (v : PQ.Thrift.TVal) (h : v.WF') : ∀ b ∈ v.enc, b < 256 :=
  PQ.Thrift.enc_bytes_lt v h

/-- level sections have an exact length prefix and decode (specification decoder) to the levels -/
theorem level_section_valid (w : Nat) (hw : 1 ≤ w ∧ w ≤ 4) (xs : List Nat) (hx : ∀ x ∈ xs, x < 2 ^ w)
    (hlen : xs.length + 8 ≤ 2 ^ 30) :
    ∃ pad, pad < 8 ∧ specDecode w (encode w xs) = some (xs ++ List.replicate pad 0, (encode w xs).length) :=
  PQ.C07.spec_decode_encode w hw xs hx hlen

/-- each data page's level and value sections have exactly the lengths its header implies: the
independent page parser accepts the page as written and recovers its entries -/
theorem page_valid (dc : Decomp) (k : Codec) (codec : Int) (c : Col) (es : PageEntries) (hwf : WFPage c es)
    (hk : CodecOK dc k codec (pagePayload c es)) (pre rest : Bytes) :
    specPage dc c codec (pre ++ (pageBytes k c es).1 ++ (pageBytes k c es).2 ++ rest) pre.length =
      .ok { numValues := es.length, entries := es, headerLen := (pageBytes k c es).1.length,
            compressedLen := (pageBytes k c es).2.length, uncompressedLen := (pagePayload c es).length,
            stats := some (pageStatsFields c es) } :=
  PQ.specPage_pageBytes_codec dc k codec c es hwf hk pre rest

/-- **C02, full statement over the model.** Hypotheses: the struct is a well-formed field forest;
every added record has, for each column, the entries of one striped record (`RecColOK`: starts at
`rep = 0`, levels within the column's maxima, value present iff `def = maxDef`, values well-typed —
what `PQ.C03.levels_bounded`/`first_rep_zero` give for `stripeTop`, see `PQ.recColOK_stripe`);
nesting ≤ 15 (level widths ≤ 4 bits, the library's limit); sizes below the format's 32-bit fields;
the codec's decompressor inverts its compressor. -/
theorem file_valid (dc : Decomp) (k : Codec) (ts : List FTree) (hwf : ∀ t ∈ ts, t.WF) (hsd : SiblingsDistinct ts)
    (max : Nat) (body : List Op) (hmax : 1 ≤ max) (hcols : colsOf ts ≠ []) (hbody : ∀ op ∈ body, op.isClose = false)
    (hrec : ∀ r, Op.add r ∈ body → r.length = (colsOf ts).length ∧ ∀ x ∈ (colsOf ts).zipIdx, RecColOK x.1 (r.getD x.2 []))
    (hdef : ∀ c ∈ colsOf ts, c.maxDef ≤ 15)
    (hlen : ∀ b ∈ batches body, ∀ x ∈ (colsOf ts).zipIdx, (b.flatMap (·.getD x.2 [])).length + 8 ≤ 2 ^ 30)
    (hcodec : ∀ raw, CodecOK dc k (k.id : Int) raw)
    (hsize : (fileBytes (runWriter (colsOf ts) max k (body ++ [Op.close]))).length < 2 ^ 32) :
    ∃ f, parseFile dc (colsOf ts) max (fileBytes (runWriter (colsOf ts) max k (body ++ [Op.close]))) = .ok f ∧
      f.numRows = ((batches body).map List.length).sum ∧
      f.fmd.numRows = (((batches body).map List.length).sum : Nat) ∧
      f.rowGroups.map (·.numRows) = (batches body).map List.length ∧
      f.rowGroups.map (fun rg => rg.chunks.map (·.entries)) =
        (batches body).map (fun b => (List.range (colsOf ts).length).map fun i => b.flatMap (·.getD i [])) := by
  obtain ⟨se, h1, _, h3, h4⟩ := schema_valid ts hwf hsd
  exact parseFile_runWriter_records dc k (colsOf ts) max body hmax hcols hbody hrec hdef hlen hcodec hsize se _ h1 h3 h4

end PQ.C02
