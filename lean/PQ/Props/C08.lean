import PQ.Model.IO
import PQ.Model.Reader
/-!
# C08 — reading does not depend on how the source fragments its reads

* `readFull_indep`: `io.ReadFull` over *any* fragmentation schedule (any grant sizes ≥ 1, EOF
  reported together with the last bytes or not) returns exactly the requested bytes, or fails
  exactly when fewer are available — independent of the schedule.
* `no_single_read_sites`: in the working tree (inventory regenerated on every run) no read on the
  source is a bare single `Read`: every site is `io.ReadFull`/`io.CopyN`/`binary.Read`, a `Seek`,
  or the pass-through of `readCounter`; the remaining reads are inside the thrift transport.
* The reader model (`PQ.Src.readExactly`, `PQ.Src.readStruct`) consumes the source only through
  functions of (bytes, position): `model_read_is_readExactly`.
Not carried by a theorem: that the thrift library's transport performs full reads (trusted,
exercised by the fragmenting-source runs).
-/
namespace PQ.C08
open PQ.IO PQ.Gen

theorem granted_pos (σ : Sched) (i req avail : Nat) : 1 ≤ granted σ i req avail := by
  unfold granted; omega

theorem granted_le (σ : Sched) (i req avail : Nat) (hr : 1 ≤ req) (ha : 1 ≤ avail) :
    granted σ i req avail ≤ req ∧ granted σ i req avail ≤ avail := by
  unfold granted; omega

/-- general form with an accumulator -/
theorem readFull_spec (σ : Sched) : ∀ (fuel i n : Nat) (src acc : Bytes), n ≤ fuel →
    (readFull σ fuel i n src acc).map (fun r => (r.1, r.2.1)) =
      (if src.length < n then none else some (acc ++ src.take n, src.drop n)) := by
  intro fuel
  induction fuel with
  | zero =>
    intro i n src acc h
    have : n = 0 := by omega
    subst this
    simp [readFull]
  | succ fuel ih =>
    intro i n src acc h
    cases n with
    | zero => simp [readFull]
    | succ n =>
      unfold readFull
      by_cases hs : src = []
      · subst hs; simp
      · rw [if_neg hs]
        have hlen : 1 ≤ src.length := by
          cases src with
          | nil => exact absurd rfl hs
          | cons _ _ => simp
        have hg := granted_le σ i (n+1) src.length (by omega) hlen
        have hp := granted_pos σ i (n+1) src.length
        rw [ih (i+1) (n + 1 - granted σ i (n+1) src.length) _ _ (by omega)]
        simp only [List.length_drop]
        by_cases hlt : src.length < n + 1
        · rw [if_pos hlt, if_pos (by omega)]
        · rw [if_neg hlt, if_neg (by omega)]
          congr 1
          have e1 : src.take (n+1) = src.take (granted σ i (n+1) src.length) ++ (src.drop (granted σ i (n+1) src.length)).take (n + 1 - granted σ i (n+1) src.length) := by
            rw [← List.take_add]
            congr 1; omega
          rw [e1, List.append_assoc, List.drop_drop]
          congr 2
          omega

/-- `io.ReadFull` is independent of the fragmentation schedule -/
theorem readFull_indep (σ : Sched) (i n : Nat) (src : Bytes) :
    (readFull σ n i n src []).map (fun r => (r.1, r.2.1)) = readExactly n src := by
  rw [readFull_spec σ n i n src [] (Nat.le_refl _)]
  simp [readExactly]

/-- two schedules give the same bytes and the same remaining source -/
theorem readFull_sched_indep (σ τ : Sched) (i j n : Nat) (src : Bytes) :
    (readFull σ n i n src []).map (fun r => (r.1, r.2.1)) = (readFull τ n j n src []).map (fun r => (r.1, r.2.1)) := by
  rw [readFull_indep, readFull_indep]

/-- the reader model's page read is `readExactly` at the current position -/
theorem model_read_is_readExactly (s : Src) (n : Nat) :
    (s.readExactly n).toOption.map (fun r => (r.1, r.2.pos)) =
      (readExactly n (s.data.drop s.pos)).map (fun r => (r.1, s.pos + n)) := by
  unfold Src.readExactly readExactly
  simp only [List.length_take, List.length_drop]
  by_cases h : min n (s.data.length - s.pos) < n
  · rw [if_pos h, if_pos (by omega)]; rfl
  · rw [if_neg h, if_neg (by omega)]; rfl

/-- every read on the source in the working tree is a full read (or a seek / pass-through) -/
theorem no_single_read_sites : (Facts.sourceSiteList.all fun s => s.kind != .single) = true := by decide

/-- the inventory has not silently gone empty: there are still full reads of page/footer data -/
theorem source_inventory_covers : 4 ≤ Facts.sourceSiteList.length ∧
    2 ≤ (Facts.sourceSiteList.filter fun s => s.kind == .full).length := by decide

/-- the only library objects that are handed the source itself are thrift's stream transports (whose
reads are trusted to be full reads and are exercised by the fragmenting-source runs) -/
theorem source_extern_allowed : (Facts.sourceExternList.all fun s =>
    s == "thrift.StreamTransport" || s == "thrift.NewStreamTransportR" || s == "thrift.NewStreamTransport") = true := by decide

/-- and the error of every such site reaches the caller -/
theorem source_sites_propagate : (Facts.sourceSiteList.all Site.propagates) = true := by decide

example : ∃ σ : Sched, ∀ i r a, granted σ i r a = 1 := ⟨⟨fun _ _ => 0, fun _ => true⟩, by intros; simp [granted]⟩
example : (readFull ⟨fun _ _ => 1, fun _ => true⟩ 3 0 3 [1, 2, 3, 4] []).map (fun r => (r.1, r.2.1)) = some ([1, 2, 3], [4]) := by decide

end PQ.C08
