import PQ.Model.ParseStruct
import PQ.Model.Structs
import PQ.Lemmas.ParseStruct
/-!
# C15 — a struct regenerated from a file reads that file back faithfully (structural part)

`parquetgen -parquet` calls `structs.Struct` (`PQ.Structs.structOf`) on the footer schema and then
generates code for the struct it printed, i.e. for the field tree `parse.Fields`
(`PQ.Parse.parseStruct`) finds in it.  For a field forest `ts` the writer's footer schema is
`root :: flattenT ts` (`PQ.schemaElems_tree`).

* `structOf_regenerates` — step (a): `structOf` consumes exactly that flattening and returns the
  declarations `declsOf structName ts` (no condition on names);
* `regenerate` — steps (b), (c): parsed back, these declarations give the field tree `treeOf ts`:
  same columns (`col`), nesting (`children`), optionality (`rt`) and physical types (`ty`), Go names
  being the Title-cased column names — provided no node is repeated, leaf types are among
  int32/int64/float32/float64/bool/string, names are usable, and **group names are unique in the
  whole forest and differ from the struct name** (`structOf` names the type of a group after it);
* `regenerate_written`: the same starting from the columns, through `schemaElems`;
* a counter-example for non-unique group names.

Statement-level definitions (`toSE`, `treeOf`, `declsOf`, `OKL`, `groupNames`, …) live in
`PQ/Lemmas/ParseStruct.lean`, namespace `PQ.Structs`; their defining equations are restated below.
-/
namespace PQ.C15
open PQ PQ.Parse PQ.Structs

/-! ## the definitions the statements use -/

example (e : SElem) : toSE e = { name := e.name, ty := e.ty, rep := e.rep, nc := e.numChildren } := rfl

example (n : String) (r : Rep) (ty : PType) :
    treeOf1 (.leaf n r ty) = { name := title n, col := n, ty := goType ty.phys, rt := rtOf r, children := [] } := by rw [treeOf1]
example (n : String) (r : Rep) (cs : List FTree) :
    treeOf1 (.group n r cs) = { name := title n, col := n, ty := title n, rt := rtOf r, children := treeOf cs } := by rw [treeOf1]
example : treeOf [] = [] := by rw [treeOf]
example (t : FTree) (ts : List FTree) : treeOf (t :: ts) = treeOf1 t :: treeOf ts := by rw [treeOf]

example (structName : String) (ts : List FTree) :
    declsOf structName ts = { name := title structName, fields := fieldsOf ts } :: nestedOf ts := rfl
example (n : String) (r : Rep) (cs : List FTree) :
    nestedOf1 (.group n r cs) = { name := title n, fields := fieldsOf cs } :: nestedOf cs := by rw [nestedOf1]
example (n : String) (r : Rep) (ty : PType) : nestedOf1 (.leaf n r ty) = [] := by rw [nestedOf1]
example (t : FTree) (ts : List FTree) : nestedOf (t :: ts) = nestedOf1 t ++ nestedOf ts := by rw [nestedOf]
example (ts : List FTree) : fieldsOf ts = ts.map fun t => fieldOf (hdSE t) := rfl

example (priv : String → Bool) (n : String) :
    GoodName priv n ↔ (priv (title n) = false ∧ n ≠ "-" ∧ parseTag ("parquet:\"" ++ n ++ "\"") = n) := Iff.rfl
example (priv : String → Bool) (n : String) (r : Rep) (ty : PType) :
    OKT priv (.leaf n r ty) ↔ (GoodName priv n ∧ r ≠ .rpt ∧ ty ≠ .u32 ∧ ty ≠ .u64) := by rw [OKT]
example (priv : String → Bool) (n : String) (r : Rep) (cs : List FTree) :
    OKT priv (.group n r cs) ↔ (GoodName priv n ∧ r ≠ .rpt ∧ primitives.contains (title n) = false ∧ OKL priv cs) := by rw [OKT]
example (priv : String → Bool) (t : FTree) (ts : List FTree) : OKL priv (t :: ts) ↔ (OKT priv t ∧ OKL priv ts) := by rw [OKL]
example (n : String) (r : Rep) (cs : List FTree) : groupNames1 (.group n r cs) = n :: groupNames cs := by rw [groupNames1]
example (t : FTree) (ts : List FTree) : groupNames (t :: ts) = groupNames1 t ++ groupNames ts := by rw [groupNames]

/-- the name conditions hold for a column name without `"` and `:` whose Title-cased form is exported -/
theorem goodName (priv : String → Bool) (n : String) (h1 : priv (title n) = false) (h2 : n ≠ "-")
    (hq : '"' ∉ n.toList) (hc : ':' ∉ n.toList) : GoodName priv n :=
  goodName_of priv n h1 h2 hq (fun hs => hc (hs.subset (by decide)))

/-! ## the theorems -/

/-- **(a)** `structs.Struct` consumes exactly the flattening of the forest and returns one
declaration for the struct and one per group, own first, nested ones after it in order.
`root` is any element announcing `ts.length` children (the writer's is named `root`). -/
theorem structOf_regenerates (structName : String) (ts : List FTree) (hwf : ∀ t ∈ ts, t.WF) (root : SElem)
    (hroot : root.numChildren = some ts.length) :
    structOf structName ((root :: flattenT ts).map toSE) = some (declsOf structName ts) :=
  structOf_forest structName ts ((WFL_iff ts).mpr hwf) root hroot

/-- **(b), (c)** the regenerated declarations, read by `parse.Fields`, give back the forest -/
theorem parse_regenerated (priv : String → Bool) (structName : String) (ts : List FTree) (hwf : ∀ t ∈ ts, t.WF)
    (hok : OKL priv ts) (huniq : (title structName :: (groupNames ts).map title).Nodup) :
    parseStruct priv (declsOf structName ts) (title structName) = treeOf ts :=
  parse_declsOf priv structName ts ((WFL_iff ts).mpr hwf) hok huniq

/-- **A struct regenerated from a file's schema has the same columns, nesting, optionality and
physical types**: for a forest without repeated nodes, with int32/int64/float32/float64/bool/string
leaves, usable names and uniquely named groups, `structs.Struct` succeeds on the footer schema
`root :: flattenT ts` and `parse.Fields` of its output is `treeOf ts`. -/
theorem regenerate (priv : String → Bool) (structName : String) (ts : List FTree) (hwf : ∀ t ∈ ts, t.WF)
    (hok : OKL priv ts) (huniq : (title structName :: (groupNames ts).map title).Nodup)
    (root : SElem) (hroot : root.numChildren = some ts.length) :
    ∃ ds, structOf structName ((root :: flattenT ts).map toSE) = some ds ∧
      parseStruct priv ds (title structName) = treeOf ts :=
  ⟨_, structOf_regenerates structName ts hwf root hroot, parse_regenerated priv structName ts hwf hok huniq⟩

/-- … starting from the columns the writer declares for the shape: the footer schema is the one Go's
`schema()` produces (`schemaElems_tree`) -/
theorem regenerate_written (priv : String → Bool) (structName : String) (ts : List FTree) (hwf : ∀ t ∈ ts, t.WF)
    (hsd : SiblingsDistinct ts) (hok : OKL priv ts) (huniq : (title structName :: (groupNames ts).map title).Nodup) :
    ∃ elems ds, schemaElems (colsOf ts) = some elems ∧ structOf structName (elems.map toSE) = some ds ∧
      parseStruct priv ds (title structName) = treeOf ts := by
  obtain ⟨ds, h1, h2⟩ := regenerate priv structName ts hwf hok huniq { name := "root", numChildren := some ts.length } rfl
  exact ⟨_, ds, schemaElems_tree ts hwf hsd, h1, h2⟩

/-! ## Examples -/

section examples

/-- a file written for `Person { ID int64 "id"; Hobby *Hobby "hobby" { Name string "name"; Difficulty *int32 "difficulty" }; Sleepy bool }` -/
def exPerson : List FTree :=
  [.leaf "id" .req .i64,
   .group "hobby" .opt [.leaf "name" .req .str, .leaf "difficulty" .opt .i32],
   .leaf "Sleepy" .req .bool]

example : ∀ t ∈ exPerson, t.WF := by decide
example : OKL isPrivateUpper exPerson := okL_of_B _ _ (by decide)
example : (title "Person" :: (groupNames exPerson).map title).Nodup := by decide

set_option maxRecDepth 100000 in
/-- the Go text `structs.Struct` returns for it -/
example : (structOf "Person" (({ name := "root", numChildren := some 3 } :: flattenT exPerson).map toSE)).map render =
    some "type Person struct {\n\t\nId int64 `parquet:\"id\"`\nHobby *Hobby `parquet:\"hobby\"`\nSleepy bool `parquet:\"Sleepy\"`\n}\n\ntype Hobby struct {\n\t\nName string `parquet:\"name\"`\nDifficulty *int32 `parquet:\"difficulty\"`\n}" := by
  rw [structOf_regenerates "Person" exPerson (by decide) _ rfl]
  decide

/-- parsed back: same columns, nesting, optionality, types -/
example : flatFs 0 (parseStruct isPrivateUpper (declsOf "Person" exPerson) "Person") =
    [(0, "Id", "id", "int64", .req, false),
     (0, "Hobby", "hobby", "Hobby", .opt, false),
       (1, "Name", "name", "string", .req, false), (1, "Difficulty", "difficulty", "int32", .opt, false),
     (0, "Sleepy", "Sleepy", "bool", .req, false)] := by
  rw [parseStructL_eq]; decide

/-! ### why group names must be unique

Two groups named `g` under different parents, with different children: a legal shape (siblings are
distinct, `schema()` handles it — `schemaElems_tree`), but `structs.Struct` declares the type `G`
twice, and whichever declaration `parse.Fields` picks, one of the two groups gets the other's
children. -/

def exDup : List FTree :=
  [.group "a" .req [.group "g" .req [.leaf "x" .req .i32]],
   .group "b" .req [.group "g" .req [.leaf "y" .req .i64]]]

example : ∀ t ∈ exDup, t.WF := by decide
example : SiblingsDistinct exDup := by decide
example : OKL isPrivateUpper exDup := okL_of_B _ _ (by decide)
example : ¬ (title "Top" :: (groupNames exDup).map title).Nodup := by decide

/-- the regenerated declarations: `G` is declared twice (with different fields) -/
example : (structOf "Top" (({ name := "root", numChildren := some 2 } :: flattenT exDup).map toSE)).map (fun ds => ds.map (·.name)) =
    some ["Top", "A", "G", "B", "G"] := by
  rw [structOf_regenerates "Top" exDup (by decide) _ rfl]
  decide

/-- parsed back (first declaration wins in the model): column `b.g.y` has become `b.g.x`, an int32 -/
example : flatFs 0 (parseStruct isPrivateUpper (declsOf "Top" exDup) "Top") =
    [(0, "A", "a", "A", .req, false), (1, "G", "g", "G", .req, false), (2, "X", "x", "int32", .req, false),
     (0, "B", "b", "B", .req, false), (1, "G", "g", "G", .req, false), (2, "X", "x", "int32", .req, false)] := by
  rw [parseStructL_eq]; decide

example : flatFs 0 (treeOf exDup) =
    [(0, "A", "a", "A", .req, false), (1, "G", "g", "G", .req, false), (2, "X", "x", "int32", .req, false),
     (0, "B", "b", "B", .req, false), (1, "G", "g", "G", .req, false), (2, "Y", "y", "int64", .req, false)] := by
  decide

/-- so the conclusion of `regenerate` fails for this forest -/
example : parseStruct isPrivateUpper (declsOf "Top" exDup) "Top" ≠ treeOf exDup := by
  intro h
  have := congrArg (flatFs 0) h
  rw [parseStructL_eq] at this
  revert this; decide

/-- with the other choice (the last declaration wins, as in Go's map of type specs) it is `a.g` that is wrong -/
example : flatFs 0 (parseStruct isPrivateUpper (declsOf "Top" exDup).reverse "Top") =
    [(0, "A", "a", "A", .req, false), (1, "G", "g", "G", .req, false), (2, "Y", "y", "int64", .req, false),
     (0, "B", "b", "B", .req, false), (1, "G", "g", "G", .req, false), (2, "Y", "y", "int64", .req, false)] := by
  rw [parseStructL_eq]; decide

/-- the theorem applies to `exPerson` -/
example : ∃ ds, structOf "Person" (({ name := "root", numChildren := some 3 } :: flattenT exPerson).map toSE) = some ds ∧
    parseStruct isPrivateUpper ds "Person" = treeOf exPerson := by
  have := regenerate isPrivateUpper "Person" exPerson (by decide) (okL_of_B _ _ (by decide)) (by decide) { name := "root", numChildren := some 3 } rfl
  rwa [show title "Person" = "Person" by decide] at this

end examples
end PQ.C15
