import PQ.Model.Structs
