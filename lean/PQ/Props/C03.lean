import PQ.Model.Dremel
import PQ.Lemmas.Dremel
/-!
# C03 — Dremel striping of one column is lossless, level-bounded and record-delimited

Only the property theorems and their non-vacuity examples live here; the proofs are in
`PQ/Lemmas/Dremel.lean`.

`ts : List Rep` is the list of repetition types on the path from the record root to the column's
leaf (outermost first), `Proj α ts` the projection of a record on that column, `stripeTop` the
reference striping (Dremel paper §4.1 / Parquet spec) and `assembleTop` the reference assembly.
Every theorem quantifies over **all** `ts`, all leaf types `α` and all values: nesting depth and
list lengths are unbounded.
-/
namespace PQ.C03
open PQ

variable {α : Type}

/-! ## 1. losslessness -/

/-- **General form.**  Parsing the striping of `v` (emitted with any first repetition level `r`,
below `d` defined and `k` repeated ancestors), followed by any stream that does not continue a
list deeper than `k`, gives back `v` and leaves exactly that stream. -/
theorem parse_stripe (ts : List Rep) (r d k : Nat) (v : Proj α ts) (rest : List (Entry α))
    (h : ∀ e, rest.head? = some e → e.rep ≤ k) :
    parse ts d k (stripe ts r d k v ++ rest) = some (v, rest) :=
  PQ.parse_stripe ts r d k v rest h

/-- **Record form.**  Assembling a record's striping followed by nothing or by the start of another
record gives back the record's column value and the untouched remainder. -/
theorem assemble_stripe (ts : List Rep) (v : Proj α ts) (rest : List (Entry α))
    (h : rest = [] ∨ ∃ e tl, rest = e :: tl ∧ e.rep = 0) :
    assembleTop ts (stripeTop ts v ++ rest) = some (v, rest) :=
  PQ.parse_stripe ts 0 0 0 v rest (PQ.Stops_zero_of rest h)

theorem assemble_stripe_nil (ts : List Rep) (v : Proj α ts) :
    assembleTop ts (stripeTop ts v) = some (v, []) :=
  PQ.assembleTop_stripeTop ts v

/-! ## 2. level bounds -/

/-- general form: definition levels in `[d, d + maxDef ts]`, a value exactly at the top definition
level, repetition levels `r` (first entry) or at most `k + maxRep ts` -/
theorem levels_bounded_gen (ts : List Rep) (r d k : Nat) (v : Proj α ts) :
    ∀ e ∈ stripe ts r d k v,
      d ≤ e.dl ∧ e.dl ≤ d + maxDef ts ∧ e.rep ≤ max r (k + maxRep ts) ∧
        (e.val.isSome ↔ e.dl = d + maxDef ts) := fun e he =>
  have h := PQ.stripe_levels ts r d k v e he
  ⟨h.1, h.2.1, PQ.stripe_rep_le ts r d k v e he, h.2.2⟩

theorem levels_bounded (ts : List Rep) (v : Proj α ts) :
    ∀ e ∈ stripeTop ts v,
      e.dl ≤ maxDef ts ∧ e.rep ≤ maxRep ts ∧ (e.val.isSome ↔ e.dl = maxDef ts) :=
  PQ.stripeTop_levels ts v

/-! ## 3. record boundaries -/

/-- a record's striping is non-empty, starts with `rep = 0` and has no other `rep = 0` entry -/
theorem first_rep_zero (ts : List Rep) (v : Proj α ts) :
    ∃ e tl, stripeTop ts v = e :: tl ∧ e.rep = 0 ∧ ∀ x ∈ tl, 1 ≤ x.rep := by
  obtain ⟨e, tl, h1, h2, _, h4⟩ := PQ.stripe_shape ts 0 0 0 v
  exact ⟨e, tl, h1, h2, fun x hx => by have := h4 x hx; omega⟩

/-- general form: below `k` repeated ancestors, every entry after the first has `rep > k` -/
theorem first_rep_gen (ts : List Rep) (r d k : Nat) (v : Proj α ts) :
    ∃ e tl, stripe ts r d k v = e :: tl ∧ e.rep = r ∧ d ≤ e.dl ∧
      ∀ x ∈ tl, k + 1 ≤ x.rep ∧ x.rep ≤ k + maxRep ts :=
  PQ.stripe_shape ts r d k v

/-! ## 4. cutting a stream into records -/

theorem takeRecord_stripe (ts : List Rep) (v : Proj α ts) (rest : List (Entry α))
    (h : rest = [] ∨ ∃ e tl, rest = e :: tl ∧ e.rep = 0) :
    takeRecord (stripeTop ts v ++ rest) = (stripeTop ts v, rest) :=
  PQ.takeRecord_stripeTop ts v rest h

/-- the concatenated stripings of `vs` split into exactly the individual stripings, given fuel at
least the number of records -/
theorem splitRecords_stripe (ts : List Rep) (vs : List (Proj α ts)) (fuel : Nat)
    (hf : vs.length ≤ fuel) :
    splitRecords fuel (vs.flatMap (stripeTop ts)) = vs.map (stripeTop ts) :=
  PQ.splitRecords_flatMap ts vs fuel hf

/-- … and assembling each piece gives back each record (whole column chunk round trip) -/
theorem assemble_splitRecords (ts : List Rep) (vs : List (Proj α ts)) (fuel : Nat)
    (hf : vs.length ≤ fuel) :
    (splitRecords fuel (vs.flatMap (stripeTop ts))).map (assembleTop ts) =
      vs.map (fun v => some (v, [])) :=
  PQ.assemble_records ts vs fuel hf

/-! ## 5. injectivity -/

theorem stripe_injective (ts : List Rep) (v v' : Proj α ts)
    (h : stripeTop ts v = stripeTop ts v') : v = v' :=
  PQ.stripeTop_injective ts v v' h

/-! ## 6. number of stored values -/

/-- the number of entries at the maximum definition level equals the number of values stored: this
is how a reader knows how many PLAIN values a page holds -/
theorem nonnull_count (ts : List Rep) (v : Proj α ts) :
    ((stripeTop ts v).filter (fun e => e.dl = maxDef ts)).length =
      ((stripeTop ts v).filter (fun e => e.val.isSome)).length :=
  PQ.stripeTop_filter_count ts v

/-! ## 7. required-only columns -/

theorem required_only (ts : List Rep) (hreq : ∀ t ∈ ts, t = Rep.req) (v : Proj α ts) :
    ∃ x : α, stripeTop ts v = [⟨0, 0, some x⟩] :=
  PQ.stripe_required ts hreq 0 0 0 v

/-! ## 8. level bit widths -/

theorem bitsLen_spec (n : Nat) : n < 2 ^ bitsLen n := PQ.lt_two_pow_bitsLen n

theorem bitsLen_min (n : Nat) (h : 0 < n) : 2 ^ (bitsLen n - 1) ≤ n :=
  PQ.two_pow_bitsLen_pred_le n h

theorem bitsLen_least (n w : Nat) (h : n < 2 ^ w) : bitsLen n ≤ w :=
  PQ.bitsLen_le_of_lt_two_pow n w h

theorem maxDef_le_length (ts : List Rep) : maxDef ts ≤ ts.length := PQ.maxDef_le_length ts

theorem maxRep_le_maxDef (ts : List Rep) : maxRep ts ≤ maxDef ts := PQ.maxRep_le_maxDef ts

/-- every level of a striping fits in the bit width the writer derives from the schema -/
theorem levels_fit (ts : List Rep) (v : Proj α ts) :
    ∀ e ∈ stripeTop ts v, e.dl < 2 ^ bitsLen (maxDef ts) ∧ e.rep < 2 ^ bitsLen (maxRep ts) :=
  fun e he =>
    have h := levels_bounded ts v e he
    ⟨Nat.lt_of_le_of_lt h.1 (bitsLen_spec _), Nat.lt_of_le_of_lt h.2.1 (bitsLen_spec _)⟩

/-! ## non-vacuity: the Dremel paper's example (Melnik et al., VLDB 2010, figures 2 and 3)

`Name` is repeated, `Name.Language` is repeated, `Language.Code` is required and
`Language.Country` is optional.  Record `r1` has three `Name`s: the first with languages
`(en-us, us)` and `(en, —)`, the second with no language, the third with `(en-gb, gb)`.  Record `r2`
has one `Name` without language. -/
section Examples

abbrev tsCode : List Rep := [.rpt, .rpt, .req]
abbrev tsCountry : List Rep := [.rpt, .rpt, .opt]

def r1Code : Proj String tsCode := ([["en-us", "en"], [], ["en-gb"]] : List (List String))
def r2Code : Proj String tsCode := ([[]] : List (List String))
def r1Country : Proj String tsCountry :=
  ([[some "us", none], [], [some "gb"]] : List (List (Option String)))
def r2Country : Proj String tsCountry := ([[]] : List (List (Option String)))

example : maxDef tsCode = 2 ∧ maxRep tsCode = 2 ∧ maxDef tsCountry = 3 ∧ maxRep tsCountry = 2 := by
  decide

/-- column `Name.Language.Code` of figure 3 -/
example : stripeTop tsCode r1Code =
    [⟨0, 2, some "en-us"⟩, ⟨2, 2, some "en"⟩, ⟨1, 1, none⟩, ⟨1, 2, some "en-gb"⟩] := by decide
example : stripeTop tsCode r2Code = [⟨0, 1, none⟩] := by decide

/-- column `Name.Language.Country` of figure 3 -/
example : stripeTop tsCountry r1Country =
    [⟨0, 3, some "us"⟩, ⟨2, 2, none⟩, ⟨1, 1, none⟩, ⟨1, 3, some "gb"⟩] := by decide
example : stripeTop tsCountry r2Country = [⟨0, 1, none⟩] := by decide

/-- assembly of the column chunk `r1 ++ r2`: record `r1` comes back, the stream of `r2` is left -/
example : assembleTop tsCountry
    [⟨0, 3, some "us"⟩, ⟨2, 2, none⟩, ⟨1, 1, none⟩, ⟨1, 3, some "gb"⟩, ⟨0, 1, none⟩] =
    some (r1Country, [⟨0, 1, none⟩]) := rfl
example : assembleTop tsCountry [⟨0, 1, none⟩] = some (r2Country, []) := rfl
example : assembleTop tsCode
    [⟨0, 2, some "en-us"⟩, ⟨2, 2, some "en"⟩, ⟨1, 1, none⟩, ⟨1, 2, some "en-gb"⟩, ⟨0, 1, none⟩] =
    some (r1Code, [⟨0, 1, none⟩]) := rfl

/-- the record splitter cuts the chunk at the `rep = 0` entries -/
example : splitRecords 2 (stripeTop tsCountry r1Country ++ stripeTop tsCountry r2Country) =
    [stripeTop tsCountry r1Country, stripeTop tsCountry r2Country] := by decide

/-- a deeper mix: repeated / optional / repeated, with an empty outer list, a null, an empty inner
list and non-empty inner lists -/
abbrev tsMix : List Rep := [.rpt, .opt, .rpt]
def mix : Proj Nat tsMix := ([some [1, 2], none, some [], some [3]] : List (Option (List Nat)))

example : stripeTop tsMix mix =
    [⟨0, 3, some 1⟩, ⟨2, 3, some 2⟩, ⟨1, 1, none⟩, ⟨1, 2, none⟩, ⟨1, 3, some 3⟩] := by decide
example : stripeTop tsMix ([] : List (Option (List Nat))) = [⟨0, 0, none⟩] := by decide
example : assembleTop tsMix
    [⟨0, 3, some 1⟩, ⟨2, 3, some 2⟩, ⟨1, 1, none⟩, ⟨1, 2, none⟩, ⟨1, 3, some 3⟩, ⟨0, 0, none⟩] =
    some (mix, [⟨0, 0, none⟩]) := rfl

/-- the hypothesis of `assemble_stripe` is needed: a remainder that continues the list (`rep = 1`)
is swallowed into the value -/
example : assembleTop tsMix (stripeTop tsMix mix ++ [⟨1, 1, none⟩]) =
    some ((([some [1, 2], none, some [], some [3], none] : List (Option (List Nat))) : Proj Nat tsMix),
      []) := rfl

/-- assembly rejects an entry at the maximum definition level without a value, a definition level
above the maximum, and an empty stream -/
example : assembleTop (α := Nat) tsMix [⟨0, 3, none⟩] = none := rfl
example : assembleTop (α := Nat) tsMix [⟨0, 4, some 7⟩] = none := rfl
example : assembleTop (α := Nat) tsMix [] = none := rfl

/-- a required-only path: one entry per record, levels 0 -/
example : stripeTop (α := Nat) [.req, .req] (5 : Nat) = [⟨0, 0, some 5⟩] := rfl

example : bitsLen 0 = 0 ∧ bitsLen 1 = 1 ∧ bitsLen 3 = 2 ∧ bitsLen 4 = 3 ∧ bitsLen 255 = 8 := by
  decide

end Examples

end PQ.C03
