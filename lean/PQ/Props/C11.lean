import PQ.Model.Reader
/-!
# C11 — a truncated file is never accepted

The literal statement ("every strict prefix of every valid file is rejected") is false for *any*
reader: a data value may contain a complete footer, its length and the magic, and the prefix ending
there is itself a well-formed Parquet file (`PQ.C11` cannot and does not claim it; the check lists
that crafted input as a known finding).  What is proved:

`truncated_rejected_partial`: if the magic `PAR1` occurs in the file only at its two ends, then
every strict prefix is rejected by the reader model at open time — for every file, whatever it
contains otherwise (the reader checks the trailing magic before trusting the footer length).
-/
namespace PQ.C11

def magic : Bytes := [80, 65, 82, 49]

/-- `PAR1` occurs only at offset 0 and at offset `length - 4` -/
def NoInnerMagic (F : Bytes) : Prop := ∀ o, o + 4 ≤ F.length → (F.drop o).take 4 = magic → o = 0 ∨ o + 4 = F.length

theorem drop_take_prefix (F : Bytes) (n : Nat) (hn : n ≤ F.length) (h4 : 4 ≤ n) :
    (F.take n).drop ((F.take n).length - 4) = (F.drop (n - 4)).take 4 := by
  have hl : (F.take n).length = n := by simp [List.length_take]; omega
  rw [hl]
  rw [List.drop_take]
  congr 1
  omega

/-- every strict prefix of a file without inner magic is rejected when it is opened -/
theorem truncated_rejected_partial (cols : List Col) (dc : Decomp) (F : Bytes) (h : NoInnerMagic F)
    (n : Nat) (hn : n < F.length) : ∃ e, openReader cols dc (F.take n) = .error e := by
  unfold openReader
  have hl : (F.take n).length = n := by simp [List.length_take]; omega
  by_cases h8 : (F.take n).length < 8
  · rw [if_pos h8]; exact ⟨_, rfl⟩
  · rw [if_neg h8]
    have hm : (F.take n).drop ((F.take n).length - 4) ≠ [80, 65, 82, 49] := by
      rw [drop_take_prefix F n (by omega) (by omega)]
      intro heq
      rcases h (n - 4) (by omega) heq with h0 | h1
      · omega
      · omega
    rw [if_pos hm]; exact ⟨_, rfl⟩

/-- short prefixes (fewer than 8 bytes) are rejected whatever the content -/
theorem short_rejected (cols : List Col) (dc : Decomp) (F : Bytes) (h : F.length < 8) :
    openReader cols dc F = .error .err := by
  unfold openReader; rw [if_pos h]

/-- a file not ending with the magic is rejected whatever the content -/
theorem no_trailing_magic_rejected (cols : List Col) (dc : Decomp) (F : Bytes)
    (h : F.drop (F.length - 4) ≠ magic) : ∃ e, openReader cols dc F = .error e := by
  unfold openReader
  by_cases h8 : F.length < 8
  · rw [if_pos h8]; exact ⟨_, rfl⟩
  · have h' : F.drop (F.length - 4) ≠ [80, 65, 82, 49] := h
    rw [if_neg h8, if_pos h']; exact ⟨_, rfl⟩

/-- a byte string that is itself a complete file as far as `NewParquetReader` can tell: it ends with a
footer that the thrift decoder accepts as a `FileMetaData`, the footer's length, and the magic -/
def HasTrailer (P : Bytes) : Prop :=
  8 ≤ P.length ∧ P.drop (P.length - 4) = magic ∧
  fromLE ((P.drop (P.length - 8)).take 4) + 8 ≤ P.length ∧
  ∃ t s f, ({ data := P, pos := P.length - (fromLE ((P.drop (P.length - 8)).take 4) + 8) } : Src).readStruct = .ok (t, s) ∧
    decFMD t = some f

/-- **What is accepted at all.**  Whatever bytes the reader is given (a prefix of a file or anything else): if
`NewParquetReader` succeeds, the bytes end with a complete trailer — magic, length, and a footer that decodes.
So the only strict prefixes that can ever be accepted are those that are themselves well-formed up to their
own footer (the known finding: a data value holding a complete trailer); every other truncation is refused
when the file is opened, before any page is read. -/
theorem accepted_has_trailer (cols : List Col) (dc : Decomp) (P : Bytes) (st : RState)
    (h : openReader cols dc P = .ok st) : HasTrailer P := by
  unfold openReader at h
  by_cases h8 : P.length < 8
  · rw [if_pos h8] at h; exact absurd h (by simp)
  · rw [if_neg h8] at h
    by_cases hm : P.drop (P.length - 4) ≠ [80, 65, 82, 49]
    · rw [if_pos hm] at h; exact absurd h (by simp)
    · rw [if_neg hm] at h
      simp only at h
      by_cases hs : fromLE ((P.drop (P.length - 8)).take 4) + 8 > P.length
      · rw [if_pos hs] at h; exact absurd h (by simp)
      · rw [if_neg hs] at h
        cases hr : ({ data := P, pos := P.length - (fromLE ((P.drop (P.length - 8)).take 4) + 8) } : Src).readStruct with
        | error e => rw [hr] at h; exact absurd h (by simp)
        | ok r =>
          obtain ⟨t, s⟩ := r
          rw [hr] at h
          simp only at h
          cases hd : decFMD t with
          | none => rw [hd] at h; exact absurd h (by simp)
          | some f =>
            refine ⟨by omega, ?_, by omega, t, s, f, hr, hd⟩
            exact Classical.not_not.mp hm

/-- contrapositive, for prefixes: a strict prefix without a complete trailer of its own is refused -/
theorem truncated_rejected_unless_trailer (cols : List Col) (dc : Decomp) (F : Bytes) (n : Nat)
    (h : ¬ HasTrailer (F.take n)) : ∃ e, openReader cols dc (F.take n) = .error e := by
  cases ho : openReader cols dc (F.take n) with
  | error e => exact ⟨e, rfl⟩
  | ok st => exact absurd (accepted_has_trailer cols dc _ st ho) h

example : NoInnerMagic (magic ++ [1, 2, 3, 4, 5, 6, 7, 8] ++ magic) := by
  intro o ho h
  simp [magic] at ho
  have : o = 0 ∨ o = 1 ∨ o = 2 ∨ o = 3 ∨ o = 4 ∨ o = 5 ∨ o = 6 ∨ o = 7 ∨ o = 8 ∨ o = 9 ∨ o = 10 ∨ o = 11 ∨ o = 12 := by omega
  rcases this with h|h|h|h|h|h|h|h|h|h|h|h|h <;> subst h <;> simp_all [magic]

end PQ.C11
