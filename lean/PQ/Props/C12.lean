import PQ.Lemmas.Stats
/-!
# C12 — page statistics are sound bounds and exact null counts

"The statistics written for each page are sound: null_count equals the number of entries without a
value, and when min/max are present every non-null, non-NaN value v of the page satisfies
min <= v <= max in the column type's order (signed, unsigned, floating point, bytewise for
strings). Min/max are absent when the page has no non-null value."

Vocabulary (defined in `PQ/Lemmas/Stats.lean`): `acc ty maxDef es` is the accumulator after the
page `es` (`pageStats c es = acc c.ty (if c.isRequired then 0 else c.maxDef) es` by `rfl`),
`Striped maxDef es` the striping invariant (`PQ.C03.levels_bounded`), `isNaN ty v`,
`le ty a b := vLt ty b a = false` (`a ≤ b` in the column type's order; `le_iff_key`, `le_str_iff`
say it is `≤` on the signed / unsigned / IEEE key, resp. bytewise lexicographic `≤`),
`Numeric ty := ty ≠ .bool ∧ ty ≠ .str`.

Hypotheses that turned out not to be needed are not assumed: no well-typedness of values (`WT`),
no `Striped` for `absent_if_empty`, and the bounds hold for the NaN values too in the `¬ <` form
(every comparison with NaN is false); the `¬ isNaN` guard is what makes `le` read as `≤`.
-/
namespace PQ.C12
open PQ

/-! ## 1. null_count -/

/-- `nils` counts exactly the entries below the maximal definition level -/
theorem null_count_exact (ty : PType) (maxDef : Nat) (es : List (Entry Bytes)) :
    (acc ty maxDef es).nils = (es.filter (fun e => decide (e.dl < maxDef))).length :=
  nils_eq ty maxDef es

/-- … which for striped entries are exactly the entries without a value -/
theorem null_count_exact_striped (ty : PType) {maxDef : Nat} {es : List (Entry Bytes)}
    (hs : Striped maxDef es) :
    (acc ty maxDef es).nils = (es.filter (fun e => e.val.isNone)).length := by
  rw [nils_eq, filter_null_striped hs]

/-- every optional kind (all eight types, bool and string included) reports it -/
theorem null_count_reported (ty : PType) {maxDef : Nat} {es : List (Entry Bytes)}
    (hs : Striped maxDef es) :
    ((acc ty maxDef es).result ty false).1 = some (es.filter (fun e => e.val.isNone)).length := by
  rw [result_nulls_optional, null_count_exact_striped ty hs]

/-- the required kinds report no null_count (and a striped required page has no null entry) -/
theorem null_count_required (ty : PType) (maxDef : Nat) (es : List (Entry Bytes)) :
    ((acc ty maxDef es).result ty true).1 = none :=
  result_nulls_required ty _

/-! ## 2./3. min ≤ v ≤ max -/

/-- all types and kinds at once: if min and max are reported, every non-null non-NaN value of the
page lies between them in the column type's order -/
theorem bounds_sound (ty : PType) {maxDef : Nat} {es : List (Entry Bytes)} (required : Bool)
    (hs : Striped maxDef es) {mn mx : Bytes}
    (hmn : ((acc ty maxDef es).result ty required).2.1 = some mn)
    (hmx : ((acc ty maxDef es).result ty required).2.2 = some mx) :
    ∀ e ∈ es, ∀ v, e.val = some v → isNaN ty v = false → le ty mn v ∧ le ty v mx :=
  fun _ he v hv _ => bounds_reported ty maxDef es required hmn hmx v (seen_of_striped hs he hv)

/-- the reported bounds are themselves never NaN, so `le` against them is a genuine `≤` -/
theorem bounds_not_nan (ty : PType) (maxDef : Nat) (es : List (Entry Bytes)) (required : Bool)
    {mn mx : Bytes}
    (hmn : ((acc ty maxDef es).result ty required).2.1 = some mn)
    (hmx : ((acc ty maxDef es).result ty required).2.2 = some mx) :
    isNaN ty mn = false ∧ isNaN ty mx = false :=
  ⟨(not_nan_reported ty maxDef es required).1 mn hmn, (not_nan_reported ty maxDef es required).2 mx hmx⟩

/-- numeric types, on the integer key the type's order compares (two's complement value,
unsigned value, IEEE sign-magnitude key) -/
theorem bounds_sound_key {ty : PType} (hn : Numeric ty) {maxDef : Nat} {es : List (Entry Bytes)}
    (required : Bool) (hs : Striped maxDef es) {mn mx : Bytes}
    (hmn : ((acc ty maxDef es).result ty required).2.1 = some mn)
    (hmx : ((acc ty maxDef es).result ty required).2.2 = some mx) :
    ∀ e ∈ es, ∀ v, e.val = some v → isNaN ty v = false →
      key ty mn ≤ key ty v ∧ key ty v ≤ key ty mx := by
  intro e he v hv hnan
  have ⟨n1, n2⟩ := bounds_not_nan ty maxDef es required hmn hmx
  have ⟨b1, b2⟩ := bounds_sound ty required hs hmn hmx e he v hv hnan
  exact ⟨(le_iff_key hn n1 hnan).1 b1, (le_iff_key hn hnan n2).1 b2⟩

theorem bounds_sound_i32 {maxDef : Nat} {es : List (Entry Bytes)} (required : Bool)
    (hs : Striped maxDef es) {mn mx : Bytes}
    (hmn : ((acc .i32 maxDef es).result .i32 required).2.1 = some mn)
    (hmx : ((acc .i32 maxDef es).result .i32 required).2.2 = some mx) :
    ∀ e ∈ es, ∀ v, e.val = some v →
      toSigned 4 (fromLE mn) ≤ toSigned 4 (fromLE v) ∧ toSigned 4 (fromLE v) ≤ toSigned 4 (fromLE mx) :=
  fun e he v hv => bounds_sound_key (ty := .i32) (by decide) required hs hmn hmx e he v hv rfl

theorem bounds_sound_i64 {maxDef : Nat} {es : List (Entry Bytes)} (required : Bool)
    (hs : Striped maxDef es) {mn mx : Bytes}
    (hmn : ((acc .i64 maxDef es).result .i64 required).2.1 = some mn)
    (hmx : ((acc .i64 maxDef es).result .i64 required).2.2 = some mx) :
    ∀ e ∈ es, ∀ v, e.val = some v →
      toSigned 8 (fromLE mn) ≤ toSigned 8 (fromLE v) ∧ toSigned 8 (fromLE v) ≤ toSigned 8 (fromLE mx) :=
  fun e he v hv => bounds_sound_key (ty := .i64) (by decide) required hs hmn hmx e he v hv rfl

theorem bounds_sound_u32 {maxDef : Nat} {es : List (Entry Bytes)} (required : Bool)
    (hs : Striped maxDef es) {mn mx : Bytes}
    (hmn : ((acc .u32 maxDef es).result .u32 required).2.1 = some mn)
    (hmx : ((acc .u32 maxDef es).result .u32 required).2.2 = some mx) :
    ∀ e ∈ es, ∀ v, e.val = some v → fromLE mn ≤ fromLE v ∧ fromLE v ≤ fromLE mx := by
  intro e he v hv
  have := bounds_sound_key (ty := .u32) (by decide) required hs hmn hmx e he v hv rfl
  simp only [key] at this
  omega

theorem bounds_sound_u64 {maxDef : Nat} {es : List (Entry Bytes)} (required : Bool)
    (hs : Striped maxDef es) {mn mx : Bytes}
    (hmn : ((acc .u64 maxDef es).result .u64 required).2.1 = some mn)
    (hmx : ((acc .u64 maxDef es).result .u64 required).2.2 = some mx) :
    ∀ e ∈ es, ∀ v, e.val = some v → fromLE mn ≤ fromLE v ∧ fromLE v ≤ fromLE mx := by
  intro e he v hv
  have := bounds_sound_key (ty := .u64) (by decide) required hs hmn hmx e he v hv rfl
  simp only [key] at this
  omega

theorem bounds_sound_f32 {maxDef : Nat} {es : List (Entry Bytes)} (required : Bool)
    (hs : Striped maxDef es) {mn mx : Bytes}
    (hmn : ((acc .f32 maxDef es).result .f32 required).2.1 = some mn)
    (hmx : ((acc .f32 maxDef es).result .f32 required).2.2 = some mx) :
    fIsNaN 8 23 (fromLE mn) = false ∧ fIsNaN 8 23 (fromLE mx) = false ∧
    ∀ e ∈ es, ∀ v, e.val = some v → fIsNaN 8 23 (fromLE v) = false →
      fLt 8 23 (fromLE v) (fromLE mn) = false ∧ fLt 8 23 (fromLE mx) (fromLE v) = false ∧
      fKey 8 23 (fromLE mn) ≤ fKey 8 23 (fromLE v) ∧ fKey 8 23 (fromLE v) ≤ fKey 8 23 (fromLE mx) :=
  have nn := bounds_not_nan .f32 maxDef es required hmn hmx
  ⟨nn.1, nn.2, fun e he v hv hnan =>
    have b := bounds_sound .f32 required hs hmn hmx e he v hv hnan
    have k := bounds_sound_key (ty := .f32) (by decide) required hs hmn hmx e he v hv hnan
    ⟨b.1, b.2, k.1, k.2⟩⟩

theorem bounds_sound_f64 {maxDef : Nat} {es : List (Entry Bytes)} (required : Bool)
    (hs : Striped maxDef es) {mn mx : Bytes}
    (hmn : ((acc .f64 maxDef es).result .f64 required).2.1 = some mn)
    (hmx : ((acc .f64 maxDef es).result .f64 required).2.2 = some mx) :
    fIsNaN 11 52 (fromLE mn) = false ∧ fIsNaN 11 52 (fromLE mx) = false ∧
    ∀ e ∈ es, ∀ v, e.val = some v → fIsNaN 11 52 (fromLE v) = false →
      fLt 11 52 (fromLE v) (fromLE mn) = false ∧ fLt 11 52 (fromLE mx) (fromLE v) = false ∧
      fKey 11 52 (fromLE mn) ≤ fKey 11 52 (fromLE v) ∧ fKey 11 52 (fromLE v) ≤ fKey 11 52 (fromLE mx) :=
  have nn := bounds_not_nan .f64 maxDef es required hmn hmx
  ⟨nn.1, nn.2, fun e he v hv hnan =>
    have b := bounds_sound .f64 required hs hmn hmx e he v hv hnan
    have k := bounds_sound_key (ty := .f64) (by decide) required hs hmn hmx e he v hv hnan
    ⟨b.1, b.2, k.1, k.2⟩⟩

/-- strings: bytewise lexicographic order (`List Nat` `≤` = Go's string comparison) -/
theorem bounds_sound_str {maxDef : Nat} {es : List (Entry Bytes)} (required : Bool)
    (hs : Striped maxDef es) {mn mx : Bytes}
    (hmn : ((acc .str maxDef es).result .str required).2.1 = some mn)
    (hmx : ((acc .str maxDef es).result .str required).2.2 = some mx) :
    ∀ e ∈ es, ∀ v, e.val = some v → mn ≤ v ∧ v ≤ mx := by
  intro e he v hv
  have ⟨b1, b2⟩ := bounds_sound .str required hs hmn hmx e he v hv rfl
  exact ⟨(le_str_iff mn v).1 b1, (le_str_iff v mx).1 b2⟩

/-- NaN never enters a numeric accumulator: min and max are untouched -/
theorem nan_ignored {ty : PType} (hn : Numeric ty) (s : Stats) {v : Bytes} (hv : isNaN ty v = true) :
    s.addVal ty v = { s with nonNils := s.nonNils + 1 } :=
  addVal_nan hn s hv

/-! ## 4. presence -/

/-- no non-null value: optional kinds, strings and bools report neither min nor max -/
theorem absent_if_empty {ty : PType} {required : Bool}
    (h : required = false ∨ ty = .str ∨ ty = .bool) (maxDef : Nat) {es : List (Entry Bytes)}
    (hv : ∀ e ∈ es, e.val = none) :
    ((acc ty maxDef es).result ty required).2.1 = none ∧
    ((acc ty maxDef es).result ty required).2.2 = none :=
  absent_of_no_value h maxDef hv

/-- bool columns never report min / max -/
theorem bool_always_absent (required : Bool) (maxDef : Nat) (es : List (Entry Bytes)) :
    ((acc .bool maxDef es).result .bool required).2.1 = none ∧
    ((acc .bool maxDef es).result .bool required).2.2 = none :=
  result_bool required _

/-- optional kinds and strings: min / max are present exactly when the page has a non-null value -/
theorem present_iff_value {ty : PType} {required : Bool} (h : required = false ∨ ty = .str)
    (hb : ty ≠ .bool) {maxDef : Nat} {es : List (Entry Bytes)} (hs : Striped maxDef es) :
    ((((acc ty maxDef es).result ty required).2.1.isSome = true) ↔ ∃ e ∈ es, e.val.isSome = true) ∧
    ((((acc ty maxDef es).result ty required).2.2.isSome = true) ↔ ∃ e ∈ es, e.val.isSome = true) := by
  have hseen : (∃ v, Seen maxDef es v) ↔ ∃ e ∈ es, e.val.isSome = true := by
    constructor
    · intro ⟨v, hv⟩
      have ⟨e, he, hev⟩ := (seen_iff_striped hs v).1 hv
      exact ⟨e, he, by rw [hev]; rfl⟩
    · intro ⟨e, he, hev⟩
      cases hv : e.val with
      | none => rw [hv] at hev; cases hev
      | some v => exact ⟨v, (seen_iff_striped hs v).2 ⟨e, he, hv⟩⟩
  have := present_iff h hb maxDef es
  rw [hseen] at this
  exact this

/-- required numeric kinds always report min and max (also for a page without values, where they
are the initial `math.Max<T>` / `0`): the property's last clause needs the guard "page has ≥ 1
value" for them, which holds for every written page -/
theorem required_numeric_always_present {ty : PType} (hn : Numeric ty) (maxDef : Nat)
    (es : List (Entry Bytes)) :
    ((acc ty maxDef es).result ty true).2.1 = some (acc ty maxDef es).min ∧
    ((acc ty maxDef es).result ty true).2.2 = some (acc ty maxDef es).max :=
  result_required_num hn _

/-! ## 5. provenance -/

/-- statistics never invent values: a reported min (max) is the initial `math.Max<T>` (`0`) of a
numeric accumulator or one of the page's non-null values; for strings always the latter -/
theorem minmax_attained_or_init (ty : PType) (maxDef : Nat) (es : List (Entry Bytes))
    (required : Bool) :
    (∀ mn, ((acc ty maxDef es).result ty required).2.1 = some mn →
      (Numeric ty ∧ mn = (Stats.init ty).min) ∨ ∃ e ∈ es, e.val = some mn) ∧
    (∀ mx, ((acc ty maxDef es).result ty required).2.2 = some mx →
      (Numeric ty ∧ mx = (Stats.init ty).max) ∨ ∃ e ∈ es, e.val = some mx) :=
  have h := attained_reported ty maxDef es required
  ⟨fun mn hmn => (h.1 mn hmn).imp id seen_value, fun mx hmx => (h.2 mx hmx).imp id seen_value⟩

/-! ## The property on `pageStats` / the `Statistics` of a written page -/

/-- C12 for the statistics `pageBytes` puts in a data page header -/
theorem page_stats_sound (c : Col) (es : PageEntries)
    (hs : Striped (if c.isRequired then 0 else c.maxDef) es) :
    let r := (pageStats c es).result c.ty c.isRequired
    (c.isRequired = false → r.1 = some (es.filter (fun e => e.val.isNone)).length) ∧
    (∀ mn mx, r.2.1 = some mn → r.2.2 = some mx →
      isNaN c.ty mn = false ∧ isNaN c.ty mx = false ∧
      ∀ e ∈ es, ∀ v, e.val = some v → isNaN c.ty v = false → le c.ty mn v ∧ le c.ty v mx) ∧
    ((∀ e ∈ es, e.val = none) → (c.isRequired = false ∨ c.ty = .str ∨ c.ty = .bool) →
      r.2.1 = none ∧ r.2.2 = none) := by
  intro r
  refine ⟨fun hr => ?_, fun mn mx hmn hmx => ?_, fun hv hk => absent_if_empty hk _ hv⟩
  · have := null_count_reported c.ty hs
    rw [← hr] at this
    exact this
  · have nn := bounds_not_nan c.ty _ es c.isRequired hmn hmx
    exact ⟨nn.1, nn.2, bounds_sound c.ty c.isRequired hs hmn hmx⟩

/-! ## Non-vacuity: concrete pages -/

section examples

private def ent (dl : Nat) (v : Option Bytes) : Entry Bytes := { rep := 0, dl := dl, val := v }

/-- required i32 page `[-5, -7]` -/
private def pI32 : List (Entry Bytes) :=
  [ent 0 (some (leBytes 4 (2^32 - 5))), ent 0 (some (leBytes 4 (2^32 - 7)))]

example : Striped 0 pI32 := by decide
example : ∀ v ∈ nonNull pI32, WT .i32 v := by decide
/-- min = −7, max = 0: loose (no value is 0) but sound -/
example : (acc .i32 0 pI32).result .i32 true =
    (none, some [0xf9, 0xff, 0xff, 0xff], some [0, 0, 0, 0]) := by decide
example : ∀ e ∈ pI32, ∀ v, e.val = some v →
    toSigned 4 (fromLE [0xf9, 0xff, 0xff, 0xff]) ≤ toSigned 4 (fromLE v) ∧
    toSigned 4 (fromLE v) ≤ toSigned 4 (fromLE [0, 0, 0, 0]) :=
  bounds_sound_i32 (maxDef := 0) true (by decide) (by decide) (by decide)
/-- the same bytes as u32: 4294967289 and 4294967291, max is attained -/
example : (acc .u32 0 pI32).result .u32 true =
    (none, some [0xf9, 0xff, 0xff, 0xff], some [0xfb, 0xff, 0xff, 0xff]) := by decide

/-- optional f32 page (maxDef 1): NaN, −0.0, null, +0.0, 1.5, +Inf, null -/
private def pF32 : List (Entry Bytes) :=
  [ent 1 (some (leBytes 4 0x7fc00000)), ent 1 (some (leBytes 4 0x80000000)), ent 0 none,
   ent 1 (some (leBytes 4 0)), ent 1 (some (leBytes 4 0x3fc00000)),
   ent 1 (some (leBytes 4 0x7f800000)), ent 0 none]

example : Striped 1 pF32 := by decide
example : isNaN .f32 (leBytes 4 0x7fc00000) = true := by decide
/-- null_count 2, min = −0.0 (first of the two zeros), max = +Inf; the NaN left no trace -/
example : (acc .f32 1 pF32).result .f32 false =
    (some 2, some [0, 0, 0, 0x80], some [0, 0, 0x80, 0x7f]) := by decide
example : le .f32 [0, 0, 0, 0x80] (leBytes 4 0) ∧ le .f32 (leBytes 4 0) [0, 0, 0, 0x80] := by decide
example : ∀ e ∈ pF32, ∀ v, e.val = some v → isNaN .f32 v = false →
    le .f32 [0, 0, 0, 0x80] v ∧ le .f32 v [0, 0, 0x80, 0x7f] :=
  bounds_sound .f32 (maxDef := 1) false (by decide) (by decide) (by decide)
/-- all-NaN page: values present, min / max stay at the initial MaxFloat32 / 0 -/
example : (acc .f32 1 [ent 1 (some (leBytes 4 0x7fc00000))]).result .f32 false =
    (some 0, some (leBytes 4 0x7f7fffff), some [0, 0, 0, 0]) := by decide

/-- +Inf alone: it is above the initial min MaxFloat32, so min stays MaxFloat32 ≤ +Inf (sound) -/
example : (acc .f32 0 [ent 0 (some (leBytes 4 0x7f800000))]).result .f32 true =
    (none, some (leBytes 4 0x7f7fffff), some (leBytes 4 0x7f800000)) := by decide
/-- −Inf alone: min = −Inf, max stays 0 -/
example : (acc .f64 0 [ent 0 (some (leBytes 8 0xfff0000000000000))]).result .f64 true =
    (none, some (leBytes 8 0xfff0000000000000), some (leBytes 8 0)) := by decide

/-- optional string page (maxDef 2): "b", null, "__#NIL#__", "", null, "ab" -/
private def pStr : List (Entry Bytes) :=
  [ent 2 (some [98]), ent 1 none, ent 2 (some [95, 95, 35, 78, 73, 76, 35, 95, 95]), ent 2 (some []),
   ent 0 none, ent 2 (some [97, 98])]

example : Striped 2 pStr := by decide
example : (acc .str 2 pStr).result .str false = (some 2, some [], some [98]) := by decide
example : ∀ e ∈ pStr, ∀ v, e.val = some v → ([] : Bytes) ≤ v ∧ v ≤ [98] :=
  bounds_sound_str (maxDef := 2) false (by decide) (by decide) (by decide)

/-- pages without a value -/
example : (acc .str 2 [ent 1 none, ent 0 none]).result .str false = (some 2, none, none) := by decide
example : (acc .i64 1 [ent 0 none]).result .i64 false = (some 1, none, none) := by decide
example : (acc .str 0 []).result .str true = (none, none, none) := by decide
/-- required numeric, no value (never written): min / max are the initial values -/
example : (acc .i32 0 []).result .i32 true =
    (none, some (leBytes 4 (2^31 - 1)), some [0, 0, 0, 0]) := by decide

end examples

end PQ.C12
