import PQ.Model.Stats
