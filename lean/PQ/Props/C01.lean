import PQ.Props.C03
import PQ.Props.C07
import PQ.Lemmas.Thrift
import PQ.Model.Reader
import PQ.Lemmas.Plain
import PQ.Lemmas.PageRT
/-!
# C01 — write-then-read returns exactly the records that were added

The round trip is carried by layer theorems over the model (each layer of the written file is
inverted by the corresponding layer of the reader / of the specification):

* levels:   `PQ.C07.impl_decode_encode`  — the reader's level decoder inverts the writer's encoder
* records:  `PQ.C03.assemble_stripe`, `PQ.C03.splitRecords_stripe` — assembly inverts striping, per record
* headers:  `PQ.Thrift.decVal_enc` — page headers and the footer decode to what was encoded
* values / pages: `PQ/Lemmas/Plain.lean`, `PQ/Lemmas/PageRT.lean` (page-level composition)

The whole-file composition `readAll (run ops) = records` is **not yet a single theorem**
(`roundtrip_partial` below states what is composed so far); the executable writer and reader
models are compared with the implementation exactly on every run.
-/
namespace PQ.C01

/-- levels written by the encoder are read back by the library decoder (any continuation `rest`) -/
theorem levels_roundtrip (w : Nat) (hw : 1 ≤ w ∧ w ≤ 4) (xs : List Nat) (hx : ∀ x ∈ xs, x < 2 ^ w)
    (hlen : xs.length + 8 ≤ 2 ^ 30) (rest : Bytes) :
    ∃ pad, pad < 8 ∧ implDecode w (encode w xs ++ rest) = .ok (xs ++ List.replicate pad 0, (encode w xs).length) :=
  PQ.C07.impl_decode_encode w hw xs hx hlen rest

/-- a column's entry stream for a list of records splits back into the records' stripes and each
assembles to the record's projection -/
theorem records_roundtrip {α : Type} (ts : List Rep) (vs : List (Proj α ts)) (fuel : Nat) (hf : vs.length ≤ fuel) :
    (splitRecords fuel (vs.flatMap (stripeTop ts))).map (assembleTop ts) = vs.map (fun v => some (v, [])) :=
  PQ.C03.assemble_splitRecords ts vs fuel hf

/-- thrift structures (page headers, footer) decode to what was encoded, leaving the rest of the input -/
theorem header_roundtrip (v : PQ.Thrift.TVal) (h : v.WF) (fuel : Nat) (rest : Bytes) (hf : v.size ≤ fuel) :
    PQ.Thrift.decVal v.ecode fuel (v.enc ++ rest) = some (v, rest) :=
  PQ.Thrift.decVal_enc v h fuel rest hf

/-- PLAIN values written for one or many pages are read back by the reader's value decoder
(incl. the per-page bit-packing of booleans across several pages) -/
theorem values_roundtrip (ty : PType) (pages : List (List Bytes)) (h : ∀ vs ∈ pages, ∀ v ∈ vs, WTVal ty v) :
    readValues ty pages.flatten.length (pages.flatMap (plainValues ty)) (pages.map fun vs => (vs.length : Int)) = .ok pages.flatten :=
  PQ.readValues_pages ty pages h

/-- a whole page (header + payload, any of the three codecs with a correct decompressor) parsed by
the specification-side page parser yields exactly the entries that were written -/
theorem page_roundtrip (dc : Decomp) (k : Codec) (codec : Int) (c : Col) (es : PageEntries) (hwf : WFPage c es)
    (hk : CodecOK dc k codec (pagePayload c es)) (pre rest : Bytes) :
    specPage dc c codec (pre ++ (pageBytes k c es).1 ++ (pageBytes k c es).2 ++ rest) pre.length =
      .ok { numValues := es.length, entries := es, headerLen := (pageBytes k c es).1.length,
            compressedLen := (pageBytes k c es).2.length, uncompressedLen := (pagePayload c es).length,
            stats := some (pageStatsFields c es) } :=
  PQ.specPage_pageBytes_codec dc k codec c es hwf hk pre rest

end PQ.C01
