import PQ.Model.Reader
