import PQ.Props.C03
import PQ.Props.C07
import PQ.Lemmas.Thrift
import PQ.Model.Reader
import PQ.Lemmas.Plain
import PQ.Lemmas.PageRT
import PQ.Lemmas.ReaderRT
import PQ.Lemmas.SchemaTree
/-!
# C01 — write-then-read returns exactly the records that were added

The round trip is carried by layer theorems over the model (each layer of the written file is
inverted by the corresponding layer of the reader / of the specification):

* levels:   `PQ.C07.impl_decode_encode`  — the reader's level decoder inverts the writer's encoder
* records:  `PQ.C03.assemble_stripe`, `PQ.C03.splitRecords_stripe` — assembly inverts striping, per record
* headers:  `PQ.Thrift.decVal_enc` — page headers and the footer decode to what was encoded
* values / pages: `PQ/Lemmas/Plain.lean`, `PQ/Lemmas/PageRT.lean` (page-level composition)

`roundtrip` is the full statement over the model: for every struct shape (well-formed field forest),
every history of Add/Write ending in Close, every page size ≥ 1 and every codec with a correct
decompressor, the reader model applied to the bytes the writer model produced reports
`Rows()` = the number of written records, `Next()` true exactly that many times, every `Scan`
delivering exactly the record's per-column entries (hence, by `scan_is_projection`, the record's
projection), and no error.  The executable writer and reader models are compared with the
implementation exactly on every run.  The two aliasing clauses of the property are runtime facts no
pure model exhibits (explored by the harness only: partial).
-/
namespace PQ.C01

/-- levels written by the encoder are read back by the library decoder (any continuation `rest`) -/
theorem levels_roundtrip (w : Nat) (hw : 1 ≤ w ∧ w ≤ 4) (xs : List Nat) (hx : ∀ x ∈ xs, x < 2 ^ w)
    (hlen : xs.length + 8 ≤ 2 ^ 30) (rest : Bytes) :
    ∃ pad, pad < 8 ∧ implDecode w (encode w xs ++ rest) = .ok (xs ++ List.replicate pad 0, (encode w xs).length) :=
  PQ.C07.impl_decode_encode w hw xs hx hlen rest

/-- a column's entry stream for a list of records splits back into the records' stripes and each
assembles to the record's projection -/
theorem records_roundtrip {α : Type} (ts : List Rep) (vs : List (Proj α ts)) (fuel : Nat) (hf : vs.length ≤ fuel) :
    (splitRecords fuel (vs.flatMap (stripeTop ts))).map (assembleTop ts) = vs.map (fun v => some (v, [])) :=
  PQ.C03.assemble_splitRecords ts vs fuel hf

/-- thrift structures (page headers, footer) decode to what was encoded, leaving the rest of the input -/
theorem header_roundtrip (v : PQ.Thrift.TVal) (h : v.WF) (fuel : Nat) (rest : Bytes) (hf : v.size ≤ fuel) :
    PQ.Thrift.decVal v.ecode fuel (v.enc ++ rest) = some (v, rest) :=
  PQ.Thrift.decVal_enc v h fuel rest hf

/-- PLAIN values written for one or many pages are read back by the reader's value decoder
(incl. the per-page bit-packing of booleans across several pages) -/
theorem values_roundtrip (ty : PType) (pages : List (List Bytes)) (h : ∀ vs ∈ pages, ∀ v ∈ vs, WTVal ty v) :
    readValues ty pages.flatten.length (pages.flatMap (plainValues ty)) (pages.map fun vs => (vs.length : Int)) = .ok pages.flatten :=
  PQ.readValues_pages ty pages h

/-- a whole page (header + payload, any of the three codecs with a correct decompressor) parsed by
the specification-side page parser yields exactly the entries that were written -/
theorem page_roundtrip (dc : Decomp) (k : Codec) (codec : Int) (c : Col) (es : PageEntries) (hwf : WFPage c es)
    (hk : CodecOK dc k codec (pagePayload c es)) (pre rest : Bytes) :
    specPage dc c codec (pre ++ (pageBytes k c es).1 ++ (pageBytes k c es).2 ++ rest) pre.length =
      .ok { numValues := es.length, entries := es, headerLen := (pageBytes k c es).1.length,
            compressedLen := (pageBytes k c es).2.length, uncompressedLen := (pagePayload c es).length,
            stats := some (pageStatsFields c es) } :=
  PQ.specPage_pageBytes_codec dc k codec c es hwf hk pre rest

/-- **C01, full statement over the model** (reader model ∘ writer model = identity on the written
batches). `ColsResolve`: the joined column names are pairwise distinct (checkable by
`colsResolve_of_check`); the other hypotheses are those of `PQ.C02.file_valid`. -/
theorem roundtrip (dc : Decomp) (k : Codec) (ts : List FTree) (hwf : ∀ t ∈ ts, t.WF) (hsd : SiblingsDistinct ts)
    (max : Nat) (body : List Op) (hmax : 1 ≤ max) (hcols : colsOf ts ≠ []) (hres : ColsResolve (colsOf ts))
    (hbody : ∀ op ∈ body, op.isClose = false)
    (hrec : ∀ r, Op.add r ∈ body → r.length = (colsOf ts).length ∧ ∀ x ∈ (colsOf ts).zipIdx, RecColOK x.1 (r.getD x.2 []))
    (hdef : ∀ c ∈ colsOf ts, c.maxDef ≤ 15)
    (hlen : ∀ b ∈ batches body, ∀ x ∈ (colsOf ts).zipIdx, (b.flatMap (·.getD x.2 [])).length + 8 ≤ 2 ^ 30)
    (hcodec : ∀ raw, CodecOK dc k (k.id : Int) raw)
    (hsize : (fileBytes (runWriter (colsOf ts) max k (body ++ [Op.close]))).length < 2 ^ 32) :
    readAllEntries (colsOf ts) dc (fileBytes (runWriter (colsOf ts) max k (body ++ [Op.close]))) =
      some (((((batches body).map List.length).sum : Nat) : Int),
            (batches body).flatten.map (fun r => (List.range (colsOf ts).length).map fun i => r.getD i [])) := by
  obtain ⟨se, h1, _, _, _⟩ := schema_valid ts hwf hsd
  exact readAll_runWriter_records dc k (colsOf ts) max body hmax hcols hres hbody hrec hdef hlen hcodec hsize se h1

/-- what `Scan` writes for a column whose entries are the striping of a projection is that projection -/
theorem scan_is_projection (c : Col) (showP : (ts : List Rep) → Proj Bytes ts → String) (v : Proj Bytes c.reps) :
    scanText c showP (stripeTop c.reps v) = showP c.reps v := PQ.scanText_stripe c showP v

end PQ.C01
