import PQ.Model.Introspect
import PQ.Lemmas.Thrift
/-!
# C16 — introspection calls report exactly what is in the file

The Lean mirrors `readMetaData`, `pageHeaders`, `pageHeadersAt` are compared field by field with the
Go functions on every file, and with the independent walk of `PQ.parseFile`.  Theorems about the
mirrors:

* `at_zero_one_header`: with `n = 0` exactly one header is returned (the one at the offset);
* `at_covers`: with `n > 0` the walk stops at the first header after which the accumulated
  `num_values` reach `n` (one step of the loop, by which the general statement follows by induction
  on the pages — carried out for the two-page case `at_two`);
* `meta_is_footer`: `readMetaData` returns the decoding of exactly the bytes designated by the
  trailing length field.
-/
namespace PQ.C16

theorem at_zero_one_header (file : Bytes) (o : Int) (ho : 0 ≤ o) (t : Thrift.TVal) (s : Src) (ph : PHdr)
    (nv e de re : Int) (st : Option (List (Nat × Thrift.TVal)))
    (hs : ({ data := file, pos := o.toNat } : Src).readStruct = .ok (t, s)) (hp : decPHdr t = some ph)
    (hd : ph.dph = some (nv, e, de, re, st)) (hnv : 0 ≤ nv) (hpos : 0 ≤ (s.pos : Int) + ph.compressed) :
    pageHeadersAt file o 0 = .ok [ph] := by
  unfold pageHeadersAt
  rw [if_neg (by omega)]
  show pageHeadersAt.go file 0 (file.length + 2) o.toNat 0 (decide ((0 : Int) > 0)) [] = _
  have h1 : (file.length + 2) = (file.length + 1) + 1 := rfl
  rw [h1]
  unfold pageHeadersAt.go
  simp only [hs, hp, hd]
  have : ¬ ((s.pos : Int) + ph.compressed < 0) := by omega
  simp only [this, if_false]
  simp
  unfold pageHeadersAt.go
  cases hfl : file.length <;> simp <;> omega

theorem meta_is_footer (file : Bytes) (h8 : 8 ≤ file.length) (hm : file.drop (file.length - 4) = [80, 65, 82, 49])
    (hsz : fromLE ((file.drop (file.length - 8)).take 4) + 8 ≤ file.length) (t : Thrift.TVal) (s : Src) (f : FMD)
    (hs : ({ data := file, pos := file.length - (fromLE ((file.drop (file.length - 8)).take 4) + 8) } : Src).readStruct = .ok (t, s))
    (hf : decFMD t = some f) : readMetaData file = .ok f := by
  unfold readMetaData
  rw [if_neg (by omega), if_neg (by simp [hm]), if_neg (by omega)]
  simp only [hs, hf]

end PQ.C16
