import PQ.Model.Introspect
import PQ.Lemmas.Thrift
import PQ.Lemmas.IntrospectRT
/-!
# C16 — introspection calls report exactly what is in the file

The Lean mirrors `readMetaData`, `pageHeaders`, `pageHeadersAt` are compared field by field with the
Go functions on every file, and with the independent walk of `PQ.parseFile`.  Theorems about the
mirrors:

* `at_zero_one_header`: with `n = 0` exactly one header is returned (the one at the offset);
* `at_covers`: with `n > 0` the walk stops at the first header after which the accumulated
  `num_values` reach `n` (one step of the loop, by which the general statement follows by induction
  on the pages — carried out for the two-page case `at_two`);
* `meta_is_footer`: `readMetaData` returns the decoding of exactly the bytes designated by the
  trailing length field.

On the files the writer produces (`fileBytes (runWriter cols max k (body ++ [Op.close]))`, helper
lemmas in `Lemmas/IntrospectRT.lean`):

* `readMetaData_runWriter` / `readMetaData_eq_parseFile`: `ReadMetaData` returns exactly the footer the
  independent parser `parseFile` decodes;
* `pageHeadersAt_chunk`, `pageHeadersAt_chunk_cover`, `pageHeadersAt_chunk_zero`: `PageHeadersAtOffset`
  at the first page of a column chunk returns one header per page, in order — all of them for the
  chunk's `num_values`, the shortest non-empty covering prefix for a smaller `n`, one for `n ≤ 0`;
  `pageHeadersAt_runWriter`: this applies to every chunk the footer of a written file lists;
* `pageHeaders_runWriter`: `PageHeaders` returns the header of every page of every chunk of every row
  group, in file order; `introspection_runWriter`: … which are, one for one, the pages the
  independent walk of the file finds, with the same `num_values`, sizes and statistics.
-/
namespace PQ.C16

theorem at_zero_one_header (file : Bytes) (o : Int) (ho : 0 ≤ o) (t : Thrift.TVal) (s : Src) (ph : PHdr)
    (nv e de re : Int) (st : Option (List (Nat × Thrift.TVal)))
    (hs : ({ data := file, pos := o.toNat } : Src).readStruct = .ok (t, s)) (hp : decPHdr t = some ph)
    (hd : ph.dph = some (nv, e, de, re, st)) (hnv : 0 ≤ nv) (hpos : 0 ≤ (s.pos : Int) + ph.compressed) :
    pageHeadersAt file o 0 = .ok [ph] := by
  unfold pageHeadersAt
  rw [if_neg (by omega)]
  show pageHeadersAt.go file 0 (file.length + 2) o.toNat 0 (decide ((0 : Int) > 0)) [] = _
  have h1 : (file.length + 2) = (file.length + 1) + 1 := rfl
  rw [h1]
  unfold pageHeadersAt.go
  simp only [hs, hp, hd]
  have : ¬ ((s.pos : Int) + ph.compressed < 0) := by omega
  simp only [this, if_false]
  simp
  unfold pageHeadersAt.go
  cases hfl : file.length <;> simp <;> omega

theorem meta_is_footer (file : Bytes) (h8 : 8 ≤ file.length) (hm : file.drop (file.length - 4) = [80, 65, 82, 49])
    (hsz : fromLE ((file.drop (file.length - 8)).take 4) + 8 ≤ file.length) (t : Thrift.TVal) (s : Src) (f : FMD)
    (hs : ({ data := file, pos := file.length - (fromLE ((file.drop (file.length - 8)).take 4) + 8) } : Src).readStruct = .ok (t, s))
    (hf : decFMD t = some f) : readMetaData file = .ok f := by
  unfold readMetaData
  rw [if_neg (by omega), if_neg (by simp [hm]), if_neg (by omega)]
  simp only [hs, hf]

/-! ## The introspection calls on the files the writer produces

`F := fileBytes (runWriter cols max k (body ++ [Op.close]))` is the file of a `Close`d history of
`Add`s and `Write`s; `histPrgs cols max body` lists, per row group, per column, the entries of every
page (see `Lemmas/FileRT.lean`); `phOf k c es` is the decoded header of the page `pageBytes k c es`. -/

/-- **1. `ReadMetaData` returns the footer.**  For the file of every `Close`d history the call
returns exactly the `FileMetaData` that the independent parser decodes
(`parseFile_runWriter_explicit`): version 1, the struct's schema, the number of written records, and
per row group the truthful chunk metadata `fileMetas`. -/
theorem readMetaData_runWriter (k : Codec) (cols : List Col) (max : Nat) (body : List Op)
    (hmax : 1 ≤ max) (hcols : cols ≠ []) (hbody : ∀ op ∈ body, op.isClose = false)
    (hsize : (fileBytes (runWriter cols max k (body ++ [Op.close]))).length < 2 ^ 32)
    (se : List SElem) (sd : List SElemD) (hschema : schemaElems cols = some se)
    (hdec : (se.map SElem.toT).mapM decSElem = some sd) :
    readMetaData (fileBytes (runWriter cols max k (body ++ [Op.close]))) =
      .ok { version := 1, schema := sd, numRows := (((batches body).map List.length).sum : Nat),
            rowGroups := fileMetas k (histPrgs cols max body) 4 } := by
  obtain ⟨rgs, hfile, hrwf, hrdec⟩ := runWriter_introspect_layout k cols max body hmax hcols hbody se hschema
  have hn : (footerOf se ((batches body).map List.length).sum rgs).enc.length < 2 ^ 32 := by
    rw [hfile] at hsize
    simp only [List.length_append] at hsize
    omega
  exact readMetaData_layout se (schemaElems_ne_nil cols se hschema) _ rgs hrwf sd _ hdec hrdec _ _ hfile hn

/-- … in the words of the property: whatever the independent parser accepts the file with, its footer
is what `ReadMetaData` returns -/
theorem readMetaData_eq_parseFile (dc : Decomp) (k : Codec) (cols : List Col) (max : Nat) (body : List Op)
    (hmax : 1 ≤ max) (hcols : cols ≠ []) (hbody : ∀ op ∈ body, op.isClose = false)
    (hok : ∀ b ∈ batches body, BatchOK dc k cols max b)
    (hsize : (fileBytes (runWriter cols max k (body ++ [Op.close]))).length < 2 ^ 32)
    (se : List SElem) (sd : List SElemD) (hschema : schemaElems cols = some se)
    (hdec : (se.map SElem.toT).mapM decSElem = some sd)
    (hleaves : schemaLeaves sd = .ok (cols.map expectedLeaf)) :
    ∃ f, parseFile dc cols max (fileBytes (runWriter cols max k (body ++ [Op.close]))) = .ok f ∧
      readMetaData (fileBytes (runWriter cols max k (body ++ [Op.close]))) = .ok f.fmd :=
  ⟨_, parseFile_runWriter_explicit dc k cols max body hmax hcols hbody hok hsize se sd hschema hdec hleaves,
    readMetaData_runWriter k cols max body hmax hcols hbody hsize se sd hschema hdec⟩

/-- **2. `PageHeadersAtOffset` on one column chunk.**  The pages `ess` of a column chunk sit at offset
`o` of a file; asked for the chunk's `num_values` (`n = Σ |es|`), the call returns exactly one header
per page of the chunk, in order, each the decoded header of its page (`num_values`, compressed and
uncompressed size, encodings, statistics).  No page is empty (written pages hold at least one
record) and the chunk has at least one page. -/
theorem pageHeadersAt_chunk (k : Codec) (c : Col) (ess : List PageEntries) (file pre post : Bytes) (o n : Int)
    (hfile : file = pre ++ chunkBytes k c ess ++ post) (ho : o = (pre.length : Nat))
    (hn : n = (((ess.map List.length).sum : Nat) : Int)) (hne : ess ≠ []) (hpages : ∀ es ∈ ess, es ≠ []) :
    pageHeadersAt file o n = .ok (ess.map (phOf k c)) := by
  subst hfile ho
  rw [pageHeadersAt_cover k c ess pre post n hne (by omega), coverPrefix_all n ess 0 _ hpages (by omega)]

/-- **2, covering form.**  Asked for any `n` up to the chunk's `num_values`, the call returns the
headers of the shortest non-empty prefix of the chunk's pages whose `num_values` reach `n`: the first
`j` pages, where the first `j` pages hold at least `n` values and no shorter non-empty prefix does.
(Pages may be empty here.) -/
theorem pageHeadersAt_chunk_cover (k : Codec) (c : Col) (ess : List PageEntries) (file pre post : Bytes) (o n : Int)
    (hfile : file = pre ++ chunkBytes k c ess ++ post) (ho : o = (pre.length : Nat))
    (j : Nat) (h1 : 1 ≤ j) (hj : j ≤ ess.length)
    (hreach : n ≤ ((((ess.take j).map List.length).sum : Nat) : Int))
    (hmin : ∀ i, 1 ≤ i → i < j → ((((ess.take i).map List.length).sum : Nat) : Int) < n) :
    pageHeadersAt file o n = .ok ((ess.take j).map (phOf k c)) := by
  subst hfile ho
  have hne : ess ≠ [] := by
    intro h; subst h; simp at hj; omega
  have hle : (((ess.take j).map List.length).sum : Nat) ≤ ((ess.map List.length).sum : Nat) := by
    conv => rhs; rw [← List.take_append_drop j ess]
    simp only [List.map_append, List.sum_append]
    omega
  rw [pageHeadersAt_cover k c ess pre post n hne (by omega), coverPrefix_eq_take n ess j h1 hj hreach hmin]

/-- with `n = 0` (or negative): exactly one header, the one at the offset -/
theorem pageHeadersAt_chunk_zero (k : Codec) (c : Col) (es : PageEntries) (ess : List PageEntries) (file pre post : Bytes)
    (o n : Int) (hfile : file = pre ++ chunkBytes k c (es :: ess) ++ post) (ho : o = (pre.length : Nat)) (hn : n ≤ 0) :
    pageHeadersAt file o n = .ok [phOf k c es] :=
  pageHeadersAt_chunk_cover k c (es :: ess) file pre post o n hfile ho 1 (by omega) (by simp) (by simp; omega)
    (fun i h1 h2 => by omega)

/-- a chunk is the concatenation of its pages: no page's bytes depend on the pages before it -/
theorem chunkBytes_append (k : Codec) (c : Col) (es1 es2 : List PageEntries) :
    chunkBytes k c (es1 ++ es2) = chunkBytes k c es1 ++ chunkBytes k c es2 := by
  simp [chunkBytes]

/-- **2b. `PageHeadersAtOffset` started at ANY page of a chunk**, not only its first: with `before` the
pages of the chunk that precede the offset and `ess` the pages from the offset on, the call returns the
headers of the shortest non-empty prefix of `ess` whose `num_values` reach `n`. -/
theorem pageHeadersAt_page_cover (k : Codec) (c : Col) (before ess : List PageEntries) (file pre post : Bytes) (o n : Int)
    (hfile : file = pre ++ chunkBytes k c (before ++ ess) ++ post)
    (ho : o = ((pre.length + (chunkBytes k c before).length : Nat) : Int))
    (j : Nat) (h1 : 1 ≤ j) (hj : j ≤ ess.length)
    (hreach : n ≤ ((((ess.take j).map List.length).sum : Nat) : Int))
    (hmin : ∀ i, 1 ≤ i → i < j → ((((ess.take i).map List.length).sum : Nat) : Int) < n) :
    pageHeadersAt file o n = .ok ((ess.take j).map (phOf k c)) := by
  apply pageHeadersAt_chunk_cover k c ess file (pre ++ chunkBytes k c before) post o n _ _ j h1 hj hreach hmin
  · rw [hfile, chunkBytes_append]; simp only [List.append_assoc]
  · rw [ho, List.length_append]

/-- started at any page with `n ≤ 0`: exactly that page's header -/
theorem pageHeadersAt_page_zero (k : Codec) (c : Col) (before : List PageEntries) (es : PageEntries) (ess : List PageEntries)
    (file pre post : Bytes) (o n : Int)
    (hfile : file = pre ++ chunkBytes k c (before ++ es :: ess) ++ post)
    (ho : o = ((pre.length + (chunkBytes k c before).length : Nat) : Int)) (hn : n ≤ 0) :
    pageHeadersAt file o n = .ok [phOf k c es] :=
  pageHeadersAt_page_cover k c before (es :: ess) file pre post o n hfile ho 1 (by omega) (by simp) (by simp; omega)
    (fun i h1 h2 => by omega)

/-- non-vacuity: started at the second of three pages (1, 2 and 1 values) and asked for 3 values, the call
returns the headers of pages two and three -/
example (k : Codec) (c : Col) (e : Entry Bytes) :
    pageHeadersAt (chunkBytes k c ([[e]] ++ [[e, e], [e]])) (((chunkBytes k c [[e]]).length : Nat) : Int) 3 =
      .ok ([[e, e], [e]].map (phOf k c)) :=
  pageHeadersAt_page_cover k c [[e]] [[e, e], [e]] _ [] [] _ 3 (by simp) (by simp) 2 (by omega) (by simp) (by simp)
    (fun i h1 h2 => by have : i = 1 := by omega
                       subst this; simp)

/-- **3. `PageHeaders` lists every data page of the file.**  For the file of every `Close`d history
whose batches are `BatchOK`, and the footer `ReadMetaData` returns for it, the call returns
`fileHdrs`: the header of every page of every column chunk of every row group, in file order. -/
theorem pageHeaders_runWriter (dc : Decomp) (k : Codec) (cols : List Col) (max : Nat) (body : List Op)
    (hmax : 1 ≤ max) (hcols : cols ≠ []) (hbody : ∀ op ∈ body, op.isClose = false)
    (hok : ∀ b ∈ batches body, BatchOK dc k cols max b)
    (se : List SElem) (hschema : schemaElems cols = some se) (v N : Int) (sd : List SElemD) :
    pageHeaders (fileBytes (runWriter cols max k (body ++ [Op.close])))
        { version := v, schema := sd, numRows := N, rowGroups := fileMetas k (histPrgs cols max body) 4 } =
      .ok (fileHdrs k (histPrgs cols max body)) := by
  obtain ⟨rgs, hfile, _, _⟩ := runWriter_introspect_layout k cols max body hmax hcols hbody se hschema
  have h := phStep_prgs k (histPrgs cols max body) par1
    ((footerOf se ((batches body).map List.length).sum rgs).enc ++
      le32 (footerOf se ((batches body).map List.length).sum rgs).enc.length ++ par1) []
    (histPrgs_pagesNE dc k cols hmax body hok)
  rw [← hfile] at h
  rw [pageHeaders_eq]
  exact h

/-- what a header says of its page: `num_values`, compressed size, uncompressed size, statistics -/
def hdrFacts (h : PHdr) : Option Int × Int × Int × Option (List (Nat × Thrift.TVal)) :=
  (h.dph.map (·.1), h.compressed, h.uncompressed, h.dph.bind (·.2.2.2.2))

/-- … and what the independent walk of the file found of a page -/
def pageFacts (p : SpecPage) : Option Int × Int × Int × Option (List (Nat × Thrift.TVal)) :=
  (some (p.numValues : Int), (p.compressedLen : Int), (p.uncompressedLen : Int), p.stats)

theorem fileHdrs_facts (k : Codec) (prgs : List (Nat × List PItem)) :
    (fileHdrs k prgs).map hdrFacts = (((prgs.map (rgSpec k)).flatMap (·.chunks)).flatMap (·.pages)).map pageFacts := by
  have h0 : ∀ (c : Col) (ess : List PageEntries),
      (ess.map (phOf k c)).map hdrFacts = (ess.map (pageSpec k c)).map pageFacts := by
    intro c ess
    rw [List.map_map, List.map_map]
    apply List.map_congr_left
    intro es _
    rfl
  have h1 : ∀ pits : List PItem,
      (rgHdrs k pits).map hdrFacts = ((pits.map fun p => chunkSpec k p.1 p.2).flatMap (·.pages)).map pageFacts := by
    intro pits
    induction pits with
    | nil => rfl
    | cons p pits ih =>
      simp only [rgHdrs, List.flatMap_cons, List.map_append, List.map_cons] at ih ⊢
      rw [ih]
      simp only [chunkHdrs, chunkSpec, h0]
  induction prgs with
  | nil => rfl
  | cons g prgs ih =>
    simp only [fileHdrs, List.flatMap_cons, List.map_append, List.map_cons, List.flatMap_append] at ih ⊢
    rw [ih, h1]
    rfl

/-- **C16, whole.**  For the file of every `Close`d history (hypotheses of `parseFile_runWriter`): the
independent parser accepts the file with some result `f`; `ReadMetaData` returns exactly `f`'s
footer; and `PageHeaders` on that footer returns exactly one header per data page the independent
walk found, in file order (row group by row group, chunk by chunk, page by page), each with the
`num_values`, compressed size, uncompressed size and statistics the walk found for that page. -/
theorem introspection_runWriter (dc : Decomp) (k : Codec) (cols : List Col) (max : Nat) (body : List Op)
    (hmax : 1 ≤ max) (hcols : cols ≠ []) (hbody : ∀ op ∈ body, op.isClose = false)
    (hok : ∀ b ∈ batches body, BatchOK dc k cols max b)
    (hsize : (fileBytes (runWriter cols max k (body ++ [Op.close]))).length < 2 ^ 32)
    (se : List SElem) (sd : List SElemD) (hschema : schemaElems cols = some se)
    (hdec : (se.map SElem.toT).mapM decSElem = some sd)
    (hleaves : schemaLeaves sd = .ok (cols.map expectedLeaf)) :
    ∃ f hs, parseFile dc cols max (fileBytes (runWriter cols max k (body ++ [Op.close]))) = .ok f ∧
      readMetaData (fileBytes (runWriter cols max k (body ++ [Op.close]))) = .ok f.fmd ∧
      pageHeaders (fileBytes (runWriter cols max k (body ++ [Op.close]))) f.fmd = .ok hs ∧
      hs.map hdrFacts = ((f.rowGroups.flatMap (·.chunks)).flatMap (·.pages)).map pageFacts :=
  ⟨_, _, parseFile_runWriter_explicit dc k cols max body hmax hcols hbody hok hsize se sd hschema hdec hleaves,
    readMetaData_runWriter k cols max body hmax hcols hbody hsize se sd hschema hdec,
    pageHeaders_runWriter dc k cols max body hmax hcols hbody hok se hschema _ _ _,
    fileHdrs_facts k _⟩

/-- **2 on the writer's files: listing from the offsets the footer gives.**  Every column chunk the
footer of a written file lists is the chunk of some column `p.1` with pages `p.2` of some row group,
and `PageHeadersAtOffset` at the chunk's `data_page_offset` with the chunk's `num_values` returns
exactly the headers of these pages, in order. -/
theorem pageHeadersAt_runWriter (dc : Decomp) (k : Codec) (cols : List Col) (max : Nat) (body : List Op)
    (hmax : 1 ≤ max) (hcols : cols ≠ []) (hbody : ∀ op ∈ body, op.isClose = false)
    (hok : ∀ b ∈ batches body, BatchOK dc k cols max b)
    (se : List SElem) (hschema : schemaElems cols = some se) (ch : ChunkMeta)
    (hch : ch ∈ (fileMetas k (histPrgs cols max body) 4).flatMap (·.columns)) :
    ∃ g ∈ histPrgs cols max body, ∃ p ∈ g.2, ∃ m, ch.md = some m ∧
      m.numValues = (((p.2.map List.length).sum : Nat) : Int) ∧
      pageHeadersAt (fileBytes (runWriter cols max k (body ++ [Op.close]))) m.dataPageOffset m.numValues =
        .ok (p.2.map (phOf k p.1)) := by
  obtain ⟨rgs, hfile, _, _⟩ := runWriter_introspect_layout k cols max body hmax hcols hbody se hschema
  obtain ⟨g, hg, p, hp, pre', post', hf, hc⟩ := fileMetas_located k (histPrgs cols max body) par1 _ ch hch
  rw [← hfile] at hf
  have hne := histPrgs_pagesNE dc k cols hmax body hok g hg p hp
  subst hc
  refine ⟨g, hg, p, hp, _, rfl, ?_, ?_⟩
  · simp only [colChunk_numValues]
  · exact pageHeadersAt_chunk k p.1 p.2 _ pre' post' _ _ hf rfl (by simp only [colChunk_numValues]) hne.1 hne.2

/-! ## Non-vacuity: two columns, `max = 2`, history add, add, add, write, write, add, add, write, add, close -/
section NonVacuity

private def nvCols : List Col :=
  [{ path := ["a"], reps := [.req], ty := .i32 }, { path := ["b"], reps := [.rpt], ty := .i32 }]
private def nvCodec : Codec := { id := 0, compress := id }
private def nvDc : Decomp := { snappy := fun _ => none, gzip := fun _ => none }
/-- record `k`: `a = k`, `b = [k, k + 256]` for even `k` and `[]` for odd `k` -/
private def nvRec (k : Nat) : Rec :=
  [[{ rep := 0, dl := 0, val := some [k, 0, 0, 0] }],
   if k % 2 = 0 then [{ rep := 0, dl := 1, val := some [k, 0, 0, 0] }, { rep := 1, dl := 1, val := some [k, 1, 0, 0] }]
   else [{ rep := 0, dl := 0, val := none }]]
private def nvBody : List Op :=
  [.add (nvRec 1), .add (nvRec 2), .add (nvRec 3), .write, .write, .add (nvRec 4), .add (nvRec 5), .write, .add (nvRec 6)]
private def nvSe : List SElem :=
  [{ name := "root", numChildren := some 2 }, { name := "a", ty := some 1, rep := some 0 },
   { name := "b", ty := some 1, rep := some 2 }]
private def nvSd : List SElemD :=
  [([(5, 2)], strBytes "root"), ([(1, 1), (3, 0)], strBytes "a"), ([(1, 1), (3, 2)], strBytes "b")]

private theorem nv_batches : batches nvBody = [[nvRec 1, nvRec 2, nvRec 3], [nvRec 4, nvRec 5]] := by decide

private theorem nv_ok : ∀ b ∈ batches nvBody, BatchOK nvDc nvCodec nvCols 2 b := by
  rw [nv_batches]
  intro b hb
  have hx' : ∀ x ∈ nvCols.zipIdx, x = (⟨["a"], [.req], .i32⟩, 0) ∨ x = (⟨["b"], [.rpt], .i32⟩, 1) := by
    intro x hx; simpa [nvCols] using hx
  have hb' : b = [nvRec 1, nvRec 2, nvRec 3] ∨ b = [nvRec 4, nvRec 5] := by simpa using hb
  rcases hb' with rfl | rfl
  · apply batchOK_of_records nvDc nvCodec nvCols (by decide)
    · decide
    · intro r hr x hx
      have hr' : r = nvRec 1 ∨ r = nvRec 2 ∨ r = nvRec 3 := by simpa using hr
      rcases hx' x hx with rfl | rfl <;> rcases hr' with rfl | rfl | rfl <;>
        exact ⟨⟨_, _, rfl, rfl, by simp⟩, by decide, by decide⟩
    · decide
    · intro x hx
      rcases hx' x hx with rfl | rfl <;> decide
    · intro raw; exact Or.inl ⟨rfl, rfl⟩
  · apply batchOK_of_records nvDc nvCodec nvCols (by decide)
    · decide
    · intro r hr x hx
      have hr' : r = nvRec 4 ∨ r = nvRec 5 := by simpa using hr
      rcases hx' x hx with rfl | rfl <;> rcases hr' with rfl | rfl <;>
        exact ⟨⟨_, _, rfl, rfl, by simp⟩, by decide, by decide⟩
    · decide
    · intro x hx
      rcases hx' x hx with rfl | rfl <;> decide
    · intro raw; exact Or.inl ⟨rfl, rfl⟩

/-- the theorems applied: two row groups (pages of 2 + 1 and of 2 records) of two columns; the footer
is returned, and `PageHeaders` lists the six data pages in file order — column `a`'s pages of 2 and
1 values, column `b`'s of 3 and 1, then `a`'s page of 2 and `b`'s of 3 -/
example : ∃ fmd hs, readMetaData (fileBytes (runWriter nvCols 2 nvCodec (nvBody ++ [Op.close]))) = .ok fmd ∧
    fmd.numRows = 5 ∧ fmd.rowGroups.map (·.numRows) = [3, 2] ∧
    pageHeaders (fileBytes (runWriter nvCols 2 nvCodec (nvBody ++ [Op.close]))) fmd = .ok hs ∧
    hs.map (fun h => h.dph.map (·.1)) = [some 2, some 1, some 3, some 1, some 2, some 3] := by
  refine ⟨_, _, readMetaData_runWriter nvCodec nvCols 2 nvBody (by decide) (by decide) (by decide) (by decide +kernel)
      nvSe nvSd (by decide +kernel) (by decide +kernel), ?_, ?_,
    pageHeaders_runWriter nvDc nvCodec nvCols 2 nvBody (by decide) (by decide) (by decide) nv_ok nvSe
      (by decide +kernel) _ _ _, ?_⟩
  · rw [nv_batches]; rfl
  · decide +kernel
  · decide +kernel

/-- the hypotheses of the whole-property statement hold for this history as well -/
example : ∃ f hs, parseFile nvDc nvCols 2 (fileBytes (runWriter nvCols 2 nvCodec (nvBody ++ [Op.close]))) = .ok f ∧
    readMetaData (fileBytes (runWriter nvCols 2 nvCodec (nvBody ++ [Op.close]))) = .ok f.fmd ∧
    pageHeaders (fileBytes (runWriter nvCols 2 nvCodec (nvBody ++ [Op.close]))) f.fmd = .ok hs ∧
    hs.map hdrFacts = ((f.rowGroups.flatMap (·.chunks)).flatMap (·.pages)).map pageFacts :=
  introspection_runWriter nvDc nvCodec nvCols 2 nvBody (by decide) (by decide) (by decide) nv_ok (by decide +kernel)
    nvSe nvSd (by decide +kernel) (by decide +kernel) (by rfl)

end NonVacuity

end PQ.C16
