import PQ.Model.Pool
