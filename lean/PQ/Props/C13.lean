import PQ.Lemmas.Pool
/-!
# C13 — output depends only on an instance's own history; instances do not interfere

Model: `PQ.Model.Pool` (one shared pool of buffers with arbitrary stale contents, instances running
`get · fill · emit · put` programs, arbitrary interleavings, arbitrary choice of the pooled buffer
a `Get` receives).  After `put` the instance's local variable *still points at the buffer* — so the
model can express use-after-Put, and the discipline `WellBracketed` is a real hypothesis.

* `interleaving_indep` — in a well-formed world (any heap contents, any pool of distinct allocated
  ids, every instance holding nothing and following the discipline), after **every** schedule
  prefix, instance `i`'s remaining program is its own program minus one step per turn it got, its
  output is a prefix of `out₀ ++ seqOut prog_i`, and equals it once its program is exhausted.
  Nothing on the right-hand side mentions the other instances, the schedule, the `pickFree`
  choices, or the initial heap/pool.
* `interleaving_indep_complete`, `all_outputs_complete` — the same for schedules that run every
  program to completion; `exists_complete_schedule` — such schedules exist (non-vacuity).
* `output_indep_pool` — same program in two different worlds/schedules ⇒ same output.
* `put_before_emit_breaks` — without the discipline the statement is false (counter-example).
* `encodeInto_indep` — stale bytes exposed by reslicing a pooled buffer never reach the output.
* `pageProgram_wellBracketed`, `pageProgram_seqOut` — the page-write program follows the
  discipline and hands the compressed payload to the sink.
* `pool_sites_paired` … — inventories regenerated from the Go source.
-/
namespace PQ.C13
open PQ.Pool

/-! ## 1. interleaving independence -/

/-- **Every schedule prefix.**  For a well-formed world `w` (arbitrary stale heap, arbitrary pool)
and any schedule, instance `i` is still there, has executed exactly `turns i sched` steps of its
own program, has emitted a prefix of what it emits when run alone on an empty pool, and has
emitted exactly that once its program is exhausted. -/
theorem interleaving_indep (w : World) (hwf : w.WF) (sched : List (Nat × Nat)) (i : Nat) (inst : Inst)
    (hi : w.insts[i]? = some inst) :
    ∃ inst', (w.run sched).insts[i]? = some inst' ∧
      inst'.prog = inst.prog.drop (turns i sched) ∧
      inst'.out <+: inst.out ++ seqOut inst.prog ∧
      (inst'.prog = [] → inst'.out = inst.out ++ seqOut inst.prog) := by
  obtain ⟨_, _, h⟩ := run_ok sched hwf.inv
  obtain ⟨inst', h1, h2, h3⟩ := h i inst hi
  have hm : inst ∈ w.insts := List.mem_of_getElem? hi
  have hwb : WellBracketed inst.prog [] = true := hwf.wb inst hm
  rw [pending_of_wf hwf hm (fun _ => []), ← seqOut_eq_outOf inst.prog hwb (fun _ => [])] at h2
  refine ⟨inst', h1, h3, ⟨_, h2⟩, fun hnil => ?_⟩
  unfold pending at h2
  rw [hnil] at h2
  simpa [outOf] using h2

/-- a schedule that gives instance `i` at least as many turns as its program has steps makes it
emit exactly `seqOut` of its own program — whatever else is in the schedule -/
theorem interleaving_indep_turns (w : World) (hwf : w.WF) (sched : List (Nat × Nat)) (i : Nat) (inst : Inst)
    (hi : w.insts[i]? = some inst) (hturns : inst.prog.length ≤ turns i sched) :
    ∃ inst', (w.run sched).insts[i]? = some inst' ∧ inst'.prog = [] ∧
      inst'.out = inst.out ++ seqOut inst.prog := by
  obtain ⟨inst', h1, h2, _, h4⟩ := interleaving_indep w hwf sched i inst hi
  have hnil : inst'.prog = [] := by rw [h2]; exact List.drop_of_length_le hturns
  exact ⟨inst', h1, hnil, h4 hnil⟩

/-- **Complete schedules.**  If the schedule runs every program to completion, every instance's
output is `seqOut` of its own program (appended to what it had emitted before). -/
theorem interleaving_indep_complete (w : World) (hwf : w.WF) (sched : List (Nat × Nat))
    (hdone : ∀ inst' ∈ (w.run sched).insts, inst'.prog = []) (i : Nat) (inst : Inst)
    (hi : w.insts[i]? = some inst) :
    ∃ inst', (w.run sched).insts[i]? = some inst' ∧ inst'.out = inst.out ++ seqOut inst.prog := by
  obtain ⟨inst', h1, _, _, h4⟩ := interleaving_indep w hwf sched i inst hi
  exact ⟨inst', h1, h4 (hdone inst' (List.mem_of_getElem? h1))⟩

/-- all outputs at once, as one list equation -/
theorem all_outputs_complete (w : World) (hwf : w.WF) (sched : List (Nat × Nat))
    (hdone : ∀ inst' ∈ (w.run sched).insts, inst'.prog = []) :
    (w.run sched).insts.map (·.out) = w.insts.map (fun x => x.out ++ seqOut x.prog) := by
  apply List.ext_getElem?
  intro j
  simp only [List.getElem?_map]
  cases hj : w.insts[j]? with
  | none =>
    have hlen := (run_ok sched hwf.inv).2.1
    have : (w.run sched).insts[j]? = none := by
      rw [List.getElem?_eq_none_iff] at hj ⊢
      rw [hlen]; exact hj
    rw [this]; rfl
  | some inst =>
    obtain ⟨inst', h1, h2⟩ := interleaving_indep_complete w hwf sched hdone j inst hj
    rw [h1]; simp only [Option.map_some, h2]

/-- complete schedules exist for every well-formed world (so the theorems above are not vacuous) -/
theorem exists_complete_schedule (w : World) (hwf : w.WF) :
    ∃ sched, ∀ inst' ∈ (w.run sched).insts, inst'.prog = [] := by
  refine ⟨blocks (maxLen w.insts) (List.range w.insts.length), ?_⟩
  intro inst' hm
  obtain ⟨j, hj⟩ := List.mem_iff_getElem?.1 hm
  obtain ⟨_, hlen, h⟩ := run_ok (blocks (maxLen w.insts) (List.range w.insts.length)) hwf.inv
  have hjlt : j < w.insts.length := by
    rw [← hlen]
    cases hlt : Nat.decLt j (w.run (blocks (maxLen w.insts) (List.range w.insts.length))).insts.length with
    | isTrue p => exact p
    | isFalse p => rw [List.getElem?_eq_none (Nat.le_of_not_lt p)] at hj; cases hj
  obtain ⟨inst'', h1, _, h3⟩ := h j w.insts[j] (List.getElem?_eq_getElem hjlt)
  rw [hj] at h1; cases h1
  rw [h3]
  apply List.drop_of_length_le
  exact Nat.le_trans (le_maxLen (List.getElem_mem hjlt))
    (turns_blocks _ _ j (List.mem_range.2 hjlt))

/-- every prefix of a disciplined history is a disciplined history (so the theorems above apply to
an instance observed at any point of its life: take the steps it has performed so far as `prog`) -/
theorem wellBracketed_take : ∀ (prog : List Step) (held : List Nat) (n : Nat),
    WellBracketed prog held = true → WellBracketed (prog.take n) held = true
  | [], _, _, _ => by simp [WellBracketed]
  | _ :: _, _, 0, _ => by simp [WellBracketed]
  | .get s :: rest, held, n + 1, h => by
    simp only [WellBracketed, Bool.and_eq_true, List.take_succ_cons] at h ⊢
    exact ⟨h.1, wellBracketed_take rest _ n h.2⟩
  | .fill s d :: rest, held, n + 1, h => by
    simp only [WellBracketed, Bool.and_eq_true, List.take_succ_cons] at h ⊢
    exact ⟨h.1, wellBracketed_take rest _ n h.2⟩
  | .emit s :: rest, held, n + 1, h => by
    simp only [WellBracketed, Bool.and_eq_true, List.take_succ_cons] at h ⊢
    exact ⟨h.1, wellBracketed_take rest _ n h.2⟩
  | .put s :: rest, held, n + 1, h => by
    simp only [WellBracketed, Bool.and_eq_true, List.take_succ_cons] at h ⊢
    exact ⟨h.1, wellBracketed_take rest _ n h.2⟩

/-! ### exclusive access (why treating a step as atomic is sound) -/

/-- the buffer the instance's next step reads, writes or returns to the pool -/
def accesses (inst : Inst) : Option BufId :=
  match inst.prog with
  | .fill s _ :: _ => inst.slots.lookup s
  | .emit s :: _ => inst.slots.lookup s
  | .put s :: _ => inst.slots.lookup s
  | _ => none

theorem access_own {w : World} {hs} (hI : Inv w hs) {i : Nat} {inst : Inst} {b : BufId}
    (hi : w.insts[i]? = some inst) (ha : accesses inst = some b) : ∃ s, Own w hs i s b := by
  have hwb := hI.wb i inst hi
  unfold accesses at ha
  cases hp : inst.prog with
  | nil => rw [hp] at ha; cases ha
  | cons st rest =>
    rw [hp] at ha hwb
    cases st with
    | get s => cases ha
    | fill s d =>
      simp only [WellBracketed, Bool.and_eq_true, contains_eq_true] at hwb
      exact ⟨s, inst, hi, hwb.1, ha⟩
    | emit s =>
      simp only [WellBracketed, Bool.and_eq_true, contains_eq_true] at hwb
      exact ⟨s, inst, hi, hwb.1, ha⟩
    | put s =>
      simp only [WellBracketed, Bool.and_eq_true, contains_eq_true] at hwb
      exact ⟨s, inst, hi, hwb.1, ha⟩

/-- **No conflicting accesses, at any point of any schedule.**  If the next steps of instances `i`
and `j` touch the same buffer then `i = j`; and that buffer is not in the pool, so no concurrent
`Get` can hand it out.  (Two enabled steps of different instances therefore commute on the heap:
the model's atomic steps do not hide a data race on buffer contents.) -/
theorem no_conflicting_access (w : World) (hwf : w.WF) (sched : List (Nat × Nat)) (i j : Nat)
    (insti instj : Inst) (b : BufId)
    (hi : (w.run sched).insts[i]? = some insti) (hj : (w.run sched).insts[j]? = some instj)
    (hai : accesses insti = some b) (haj : accesses instj = some b) :
    i = j ∧ b ∉ (w.run sched).free := by
  obtain ⟨⟨hs', hI⟩, _, _⟩ := run_ok sched hwf.inv
  obtain ⟨s, hs⟩ := access_own hI hi hai
  obtain ⟨t, ht⟩ := access_own hI hj haj
  exact ⟨(hI.own_inj i j s t b hs ht).1, hI.own_nfree i s b hs⟩

/-! ## 2. repeating a history gives identical output -/

/-- the same program (and the same output so far) in two different well-formed worlds — different
stale heap contents, different pools, different other instances — under two different schedules
that both exhaust it: byte-identical output -/
theorem output_indep_pool (w₁ w₂ : World) (hwf₁ : w₁.WF) (hwf₂ : w₂.WF)
    (sched₁ sched₂ : List (Nat × Nat)) (i₁ i₂ : Nat) (inst₁ inst₂ r₁ r₂ : Inst)
    (h₁ : w₁.insts[i₁]? = some inst₁) (h₂ : w₂.insts[i₂]? = some inst₂)
    (hprog : inst₁.prog = inst₂.prog) (hout : inst₁.out = inst₂.out)
    (hr₁ : (w₁.run sched₁).insts[i₁]? = some r₁) (hr₂ : (w₂.run sched₂).insts[i₂]? = some r₂)
    (hd₁ : r₁.prog = []) (hd₂ : r₂.prog = []) :
    r₁.out = r₂.out := by
  obtain ⟨x₁, hx₁, _, _, e₁⟩ := interleaving_indep w₁ hwf₁ sched₁ i₁ inst₁ h₁
  obtain ⟨x₂, hx₂, _, _, e₂⟩ := interleaving_indep w₂ hwf₂ sched₂ i₂ inst₂ h₂
  rw [hr₁] at hx₁; cases hx₁
  rw [hr₂] at hx₂; cases hx₂
  rw [e₁ hd₁, e₂ hd₂, hprog, hout]

/-- before completion: both outputs are prefixes of the same byte string -/
theorem output_indep_pool_prefix (w₁ w₂ : World) (hwf₁ : w₁.WF) (hwf₂ : w₂.WF)
    (sched₁ sched₂ : List (Nat × Nat)) (i₁ i₂ : Nat) (inst₁ inst₂ r₁ r₂ : Inst)
    (h₁ : w₁.insts[i₁]? = some inst₁) (h₂ : w₂.insts[i₂]? = some inst₂)
    (hprog : inst₁.prog = inst₂.prog) (hout : inst₁.out = inst₂.out)
    (hr₁ : (w₁.run sched₁).insts[i₁]? = some r₁) (hr₂ : (w₂.run sched₂).insts[i₂]? = some r₂) :
    r₁.out <+: inst₁.out ++ seqOut inst₁.prog ∧ r₂.out <+: inst₁.out ++ seqOut inst₁.prog := by
  obtain ⟨x₁, hx₁, _, p₁, _⟩ := interleaving_indep w₁ hwf₁ sched₁ i₁ inst₁ h₁
  obtain ⟨x₂, hx₂, _, p₂, _⟩ := interleaving_indep w₂ hwf₂ sched₂ i₂ inst₂ h₂
  rw [hr₁] at hx₁; cases hx₁
  rw [hr₂] at hx₂; cases hx₂
  rw [hprog, hout]
  exact ⟨by rw [← hprog, ← hout]; exact p₁, p₂⟩

/-! ## 3. the discipline is needed -/

/-- a writer that returns its buffer to the pool *before* handing it to the sink -/
def badProg : List Step := [.get 0, .fill 0 [1, 2, 3], .put 0, .emit 0]
/-- a disciplined writer -/
def goodProg : List Step := [.get 0, .fill 0 [9, 9], .emit 0, .put 0]

def badWorld : World := { heap := [], free := [], next := 0, insts := [{ prog := badProg }, { prog := goodProg }] }

/-- instance 0 gets/fills/puts, instance 1 gets the same buffer and fills it, then instance 0 emits -/
def badSched : List (Nat × Nat) := [(0, 0), (0, 0), (0, 0), (1, 0), (1, 0), (0, 0), (1, 0), (1, 0)]

/-- **Counter-example.**  `badProg` is not well-bracketed; alone it emits its own bytes `[1,2,3]`;
next to a disciplined instance, under `badSched`, it emits the *other* instance's bytes `[9,9]`.
Everything else about the world is well-formed (empty pool, nothing held, complete schedule). -/
theorem put_before_emit_breaks :
    WellBracketed badProg [] = false ∧
    WellBracketed goodProg [] = true ∧
    seqOut badProg = [1, 2, 3] ∧
    (badWorld.run badSched).insts.map (·.prog.length) = [0, 0] ∧
    (badWorld.run badSched).insts.map (·.out) = [[9, 9], [9, 9]] := by
  decide

/-- the same two programs with the `put` moved after the `emit`: no interference under the same
schedule -/
example :
    let w : World := { heap := [], free := [], next := 0, insts := [{ prog := [.get 0, .fill 0 [1, 2, 3], .emit 0, .put 0] }, { prog := goodProg }] }
    (w.run badSched).insts.map (·.out) = [[1, 2, 3], [9, 9]] := by
  decide

/-! ## 4. stale capacity of a resliced pooled buffer -/

/-- the stale contents a pooled buffer exposes when `compress` reslices it to the maximum encoded
length never reach the output -/
theorem encodeInto_indep (stale : Bytes) (cap : Nat) (enc : Bytes) (_h : enc.length ≤ cap) :
    encodeInto stale cap enc = enc := by
  unfold encodeInto
  exact List.take_left'  rfl

/-- two different stale buffers, same output -/
theorem encodeInto_indep₂ (stale₁ stale₂ : Bytes) (cap : Nat) (enc : Bytes) (h : enc.length ≤ cap) :
    encodeInto stale₁ cap enc = encodeInto stale₂ cap enc := by
  rw [encodeInto_indep stale₁ cap enc h, encodeInto_indep stale₂ cap enc h]

/-- non-vacuity: the resliced buffer really holds stale bytes beyond the encoder's output -/
example :
    let stale : Bytes := [0xAA, 0xAA, 0xAA, 0xAA, 0xAA, 0xAA]
    let enc : Bytes := [1, 2, 3]
    (enc ++ ((stale ++ List.replicate (5 - stale.length) 0).take 5).drop enc.length) = [1, 2, 3, 0xAA, 0xAA] ∧
    encodeInto stale 5 enc = [1, 2, 3] := by
  decide

/-! ## 5. the page-write program -/

theorem pageProgram_wellBracketed (vals lv comp hdr : Bytes) (optional : Bool) :
    WellBracketed (pageProgram vals lv comp hdr optional) [] = true := by
  cases optional <;> rfl

/-- the payload the sink receives is the compressed buffer's contents -/
theorem pageProgram_seqOut (vals lv comp hdr : Bytes) (optional : Bool) :
    seqOut (pageProgram vals lv comp hdr optional) = comp := by
  rw [seqOut_eq_outOf _ (pageProgram_wellBracketed vals lv comp hdr optional) (fun _ => [])]
  cases optional <;> simp [pageProgram, outOf, upd]

/-- hence: a page write inside any well-formed world, under any schedule that lets it finish,
appends exactly `comp` to its sink -/
theorem pageProgram_indep (w : World) (hwf : w.WF) (sched : List (Nat × Nat)) (i : Nat) (inst : Inst)
    (vals lv comp hdr : Bytes) (optional : Bool)
    (hi : w.insts[i]? = some inst) (hp : inst.prog = pageProgram vals lv comp hdr optional)
    (hturns : inst.prog.length ≤ turns i sched) :
    ∃ inst', (w.run sched).insts[i]? = some inst' ∧ inst'.out = inst.out ++ comp := by
  obtain ⟨inst', h1, _, h3⟩ := interleaving_indep_turns w hwf sched i inst hi hturns
  exact ⟨inst', h1, by rw [h3, hp, pageProgram_seqOut]⟩

/-- the UNCOMPRESSED variants: `compress` returns its input slice, so the sink receives the bytes
of the *input* buffer (`Write`'s buffer for a required field, the levels+values buffer for an
optional one) while the `compressed` buffer is taken and returned unused -/
def pageProgramUncompressed (vals levelsAndVals : Bytes) (optional : Bool) : List Step :=
  [.get 0, .fill 0 vals] ++
  (if optional then [.get 1, .fill 1 levelsAndVals, .get 2, .emit 1, .put 2, .put 1]
   else [.get 1, .emit 0, .put 1]) ++ [.put 0]

theorem pageProgramUncompressed_wellBracketed (vals lv : Bytes) (optional : Bool) :
    WellBracketed (pageProgramUncompressed vals lv optional) [] = true := by
  cases optional <;> rfl

theorem pageProgramUncompressed_seqOut (vals lv : Bytes) (optional : Bool) :
    seqOut (pageProgramUncompressed vals lv optional) = if optional then lv else vals := by
  rw [seqOut_eq_outOf _ (pageProgramUncompressed_wellBracketed vals lv optional) (fun _ => [])]
  cases optional <;> simp [pageProgramUncompressed, outOf, upd]

/-- an error return before the sink write (`compress`/`WritePageHeader` fail): the deferred `Put`s
still run, nothing is emitted -/
theorem errorPath_wellBracketed_seqOut (vals lv : Bytes) :
    WellBracketed [.get 0, .fill 0 vals, .get 1, .fill 1 lv, .get 2, .put 2, .put 1, .put 0] [] = true ∧
    seqOut [.get 0, .fill 0 vals, .get 1, .fill 1 lv, .get 2, .put 2, .put 1, .put 0] = [] := by
  have h : WellBracketed [.get 0, .fill 0 vals, .get 1, .fill 1 lv, .get 2, .put 2, .put 1, .put 0] [] = true := rfl
  exact ⟨h, by rw [seqOut_eq_outOf _ h (fun _ => [])]; simp [outOf]⟩

/-! ## 6. inventories regenerated from the Go source -/

/-- every function that calls `buffpool.Get` defers exactly as many `buffpool.Put`s and never lets
a pooled buffer escape (return it / store it in a field) -/
theorem pool_sites_paired :
    (Gen.Facts.poolSiteList.all fun s => s.gets == s.deferPuts && s.contained) = true := by decide

theorem pool_sites_nonempty : Gen.Facts.poolSiteList.isEmpty = false := by decide

/-- no function takes more buffers than `pageProgram` models (1 in the typed `Write`, ≤ 2 in `DoWrite`) -/
theorem pool_sites_at_most_two : (Gen.Facts.poolSiteList.all fun s => s.gets ≤ 2) = true := by decide

/-- only writers touch the pools: every `buffpool.Get` site is a typed `Write` or a `DoWrite`;
readers (`Read`/`DoRead`/`Scan`) share no buffer with anybody -/
theorem pool_sites_are_writers :
    (Gen.Facts.poolSiteList.all fun s => s.fn ∈ ["TPL.Write", "StringField.Write", "StringOptionalField.Write", "OptionalField.DoWrite", "RequiredField.DoWrite"]) = true := by
  decide

/-- the package-level variables of the library and of the generated code are exactly: the two
buffer pools (modelled here), the constant magic `par1`, the constant table `fieldFuncs` and a
blank import guard — there is no other process-wide state through which instances could interact -/
theorem global_vars_inventory :
    Gen.Facts.globalVars = ["cmd/parquetgen/gen/template.go#tpl:_", "cmd/parquetgen/gen/template.go#tpl:buffpool", "cmd/parquetgen/gen/template.go#tpl:par1", "fields.go:buffpool", "parquet.go:fieldFuncs"] := by
  decide

/-! ## examples: three instances, stale heap and pool, interleaved schedule -/

def exA : List Step := pageProgram [1, 1] [] [10, 11, 12] [] false
def exB : List Step := pageProgram [2, 2] [7, 2, 2] [20, 21] [] true
def exC : List Step := [.get 5, .fill 5 [30], .emit 5, .fill 5 [31, 32], .emit 5, .put 5, .get 5, .emit 5, .put 5]

/-- a world with garbage in the heap and three stale buffers in the pool -/
def exWorld : World :=
  { heap := [(0, [0xAA, 0xAA]), (1, [0xFF]), (2, [0xAA, 0xFF, 0x00]), (7, [0xEE])],
    free := [2, 0, 1], next := 3,
    insts := [{ prog := exA }, { prog := exB }, { prog := exC, out := [99] }] }

def exSched : List (Nat × Nat) :=
  [(0, 5), (1, 1), (2, 0), (1, 4), (0, 2), (2, 1), (2, 7), (1, 0), (0, 3), (0, 0), (1, 1), (2, 2),
   (1, 3), (1, 0), (0, 1), (2, 0), (0, 0), (1, 2), (2, 5), (1, 1), (2, 4), (0, 6), (1, 0), (2, 3),
   (1, 0), (2, 0), (1, 0), (7, 0), (0, 0)]

example : exWorld.WF := by
  constructor
  · decide
  · decide
  · decide
  · decide

example : (exWorld.run exSched).insts.map (·.prog.length) = [0, 0, 0] := by decide

example : (exWorld.run exSched).insts.map (·.out) = [[10, 11, 12], [20, 21], [99, 30, 31, 32]] := by decide

example : [seqOut exA, seqOut exB, seqOut exC] = [[10, 11, 12], [20, 21], [30, 31, 32]] := by decide

/-- a different schedule (sequential, other pool choices), another initial pool: same outputs -/
example :
    let w : World := { exWorld with heap := [], free := [], next := 0 }
    (w.run (blocks 12 [2, 1, 0])).insts.map (·.out) = [[10, 11, 12], [20, 21], [99, 30, 31, 32]] := by
  decide

end PQ.C13
