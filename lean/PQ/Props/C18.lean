import PQ.Model.Reader
import PQ.Model.SpecWriter
import PQ.Gen.Facts
/-!
# C18 — files outside the supported subset are refused, not misread

Theorems about the reader model (which is compared with the generated reader on every mutant):

* `required_refuses`, `optional_refuses`: a page whose header is not a v1 data page with PLAIN
  values (and RLE levels where the column has levels) makes the chunk read fail with an error —
  before any of its bytes are interpreted as values.
* `codec_refused`: a codec other than uncompressed/snappy/gzip is an error.
* `checked_page_total`: once `checkPage` holds, the data page header is present, so the header
  dereference that used to panic cannot.
* `checkPage_spec`: exactly which headers are accepted.
-/
namespace PQ.C18

theorem checkPage_spec (ph : PHdr) (defs reps : Bool) :
    checkPage ph defs reps = true ↔
      ph.ty = 0 ∧ ∃ nv enc denc renc st, ph.dph = some (nv, enc, denc, renc, st) ∧ enc = 0 ∧
        (defs = true → denc = 3) ∧ (reps = true → renc = 3) := by
  unfold checkPage
  cases h : ph.dph with
  | none => simp
  | some d =>
    obtain ⟨nv, enc, denc, renc, st⟩ := d
    cases defs <;> cases reps <;> simp <;> intro _ <;> constructor <;>
      (first
        | (rintro ⟨⟨h1, h2⟩, h3⟩; exact ⟨_, _, _, _, ⟨rfl, rfl, rfl, rfl⟩, h1, h2, h3⟩)
        | (rintro ⟨h1, h2⟩; exact ⟨_, _, _, _, ⟨rfl, rfl, rfl, rfl⟩, h1, h2⟩)
        | (rintro ⟨_, _, _, _, ⟨rfl, rfl, rfl, rfl⟩, h1, h2, h3⟩; exact ⟨⟨h1, h2⟩, h3⟩)
        | (rintro ⟨_, _, _, _, ⟨rfl, rfl, rfl, rfl⟩, h1, h2⟩; exact ⟨h1, h2⟩)
        | (intro h1; exact ⟨_, _, _, _, ⟨rfl, rfl, rfl, rfl⟩, h1⟩)
        | (rintro ⟨_, _, _, _, ⟨rfl, rfl, rfl, rfl⟩, h1⟩; exact h1))

/-- the translator recognised `checkPage` of the working tree as a sequence of guards -/
theorem checkPage_translated : PQ.Gen.Facts.checkPageTranslated = true := by decide

/-- **the reader model's `checkPage` IS the working tree's `checkPage`** (`Facts.checkPageGen` is regenerated
from fields.go on every run; constants come from schema/parquet.go): same verdict on every page header -/
theorem checkPage_eq_source (ph : PHdr) (defs reps : Bool) :
    checkPage ph defs reps =
      PQ.Gen.Facts.checkPageGen ph.ty ph.dph.isSome
        (match ph.dph with | some (_, e, _, _, _) => e | none => 0)
        (match ph.dph with | some (_, _, d, _, _) => d | none => 0)
        (match ph.dph with | some (_, _, _, r, _) => r | none => 0) defs reps := by
  unfold checkPage PQ.Gen.Facts.checkPageGen
  cases h : ph.dph with
  | none => simp
  | some d =>
    obtain ⟨nv, enc, denc, renc, st⟩ := d
    by_cases h1 : ph.ty = 0 <;> by_cases h2 : enc = 0 <;> by_cases h3 : denc = 3 <;> by_cases h4 : renc = 3 <;>
      cases defs <;> cases reps <;> simp [h1, h2, h3, h4]

/-- `pageData` of the working tree switches on exactly the codecs the model handles, and refuses the rest
(`Facts.pageDataCodecs` and `pageDataDefaultErrors` are regenerated from fields.go on every run) -/
theorem pageData_codecs_source : PQ.Gen.Facts.pageDataTranslated = true ∧ PQ.Gen.Facts.pageDataDefaultErrors = true ∧
    ∀ c : Int, c ∈ PQ.Gen.Facts.pageDataCodecs ↔ (c = 0 ∨ c = 1 ∨ c = 2) := by
  refine ⟨by decide, by decide, ?_⟩
  intro c
  simp only [PQ.Gen.Facts.pageDataCodecs, List.mem_cons, List.not_mem_nil, or_false]
  omega

theorem checked_page_total (ph : PHdr) (defs reps : Bool) (h : checkPage ph defs reps = true) :
    ∃ nv, numValuesOf ph = .ok nv := by
  obtain ⟨_, nv, enc, denc, renc, st, hd, _⟩ := (checkPage_spec ph defs reps).mp h
  exact ⟨nv, by unfold numValuesOf; rw [hd]⟩

/-- a required-kind chunk whose next page is not a supported data page is refused -/
theorem required_refuses (dc : Decomp) (pg : PageMeta) (fuel : Nat) (s s' : Src) (nRead : Int) (out : Bytes) (sizes : List Int)
    (t : Thrift.TVal) (ph : PHdr) (hlt : nRead < pg.n) (hs : s.readStruct = .ok (t, s')) (hp : decPHdr t = some ph)
    (hbad : checkPage ph false false = false) :
    requiredDoRead dc pg (fuel + 1) s nRead out sizes = .error .err := by
  unfold requiredDoRead
  rw [if_pos hlt]
  simp only [hs, hp, hbad, bind, Except.bind, pure, Except.pure]
  rfl

/-- an optional-kind chunk whose next page is not a supported data page (for this column's levels) is refused -/
theorem optional_refuses (dc : Decomp) (c : Col) (pg : PageMeta) (fuel : Nat) (s s' : Src) (nRead : Int) (buf : ColBuf) (out : Bytes)
    (sizes : List Int) (t : Thrift.TVal) (ph : PHdr) (hlt : nRead < pg.size) (hs : s.readStruct = .ok (t, s')) (hp : decPHdr t = some ph)
    (hbad : checkPage ph true (decide (c.maxRep > 0)) = false) :
    optionalDoRead dc c pg (fuel + 1) s nRead buf out sizes = .error .err := by
  unfold optionalDoRead
  rw [if_pos hlt]
  simp only [hs, hp, hbad, bind, Except.bind, pure, Except.pure]
  rfl

/-- codecs other than 0, 1, 2 are refused -/
theorem codec_refused (dc : Decomp) (s : Src) (ph : PHdr) (codec : Int) (h0 : codec ≠ 0) (h1 : codec ≠ 1) (h2 : codec ≠ 2) :
    pageData dc s ph codec = .error .err := by
  unfold pageData
  rw [if_neg h1, if_neg h2, if_neg h0]

example : checkPage { ty := 2, uncompressed := 4, compressed := 4, dph := none, hasDict := true, hasIndex := false, hasV2 := false } true false = false := by decide
example : checkPage { ty := 0, uncompressed := 4, compressed := 4, dph := some (3, 0, 3, 3, none), hasDict := false, hasIndex := false, hasV2 := false } true true = true := by decide
example : checkPage { ty := 0, uncompressed := 4, compressed := 4, dph := some (3, 8, 3, 3, none), hasDict := false, hasIndex := false, hasV2 := false } false false = false := by decide

end PQ.C18
