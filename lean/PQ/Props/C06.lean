import PQ.Lemmas.Writer
/-!
# C06 — every Add/Write/Close history gives one row group per non-empty batch

All statements are about the executable writer model `PQ/Model/Writer.lean` (which the harness
compares byte-for-byte with the Go writer).  Specification vocabulary (defined in
`PQ/Lemmas/Writer.lean`):

* `batches ops`     – the records between consecutive `Write`s, empty batches dropped, records after
                      the last `Write` dropped;  `pendingOf ops` – the records after the last `Write`;
* `chunksOf max rs` – `rs` cut by `take max` / `drop max`;  `pageOf n chunk` – the page holding `chunk`;
* `chainOf max n pend` – `[emptyPage n]` if nothing is pending, else `(chunksOf max pend).map (pageOf n)`;
* `batchRG cols max codec b` / `batchOut cols max codec b` – the row group / the sink writes of batch `b`;
* `s.exec ops` – the state after the calls `ops`;  `s.outs ops` – the sink writes of each call.

Hypotheses: `1 ≤ max` everywhere the chain is involved (for `max = 0` Go's `Add` recurses forever),
`cols ≠ []` where row groups are counted (with no columns a `Write` touches no page and therefore
records no `NumRows`).
-/
namespace PQ.C06
open PQ PQ.Thrift

/-! ## 3. A `Write` with nothing pending is inert -/

/-- `Write()` when the head page is empty returns at once: same state, no sink write; hence the run
with that call has one more entry `some []`, and the byte stream is unchanged. -/
theorem empty_write_inert (s : WState) (h : (s.pages.head?.map (·.len)).getD 0 = 0) :
    s.write = (s, []) ∧
    (∀ ops, runOps s (Op.write :: ops) = some [] :: runOps s ops) ∧
    (∀ ops, fileBytes (runOps s (Op.write :: ops)) = fileBytes (runOps s ops)) := by
  have hw : s.write = (s, []) := write_empty s h
  have hr : ∀ ops, runOps s (Op.write :: ops) = some [] :: runOps s ops := by
    intro ops
    simp [runOps, WState.step, hw]
  refine ⟨hw, hr, ?_⟩
  intro ops
  rw [hr]
  simp [fileBytes]

/-- Whole-history form: a `Write` issued when no record is pending (`pendingOf pre = []`) can be
deleted from the history without changing a single byte of the file, whatever follows. -/
theorem empty_write_inert_file {max : Nat} (hmax : 1 ≤ max) (cols : List Col) (hcols : cols ≠ [])
    (codec : Codec) (pre post : List Op) (hpre : ∀ op ∈ pre, op.isClose = false)
    (hpend : pendingOf pre = []) :
    fileBytes (runWriter cols max codec (pre ++ Op.write :: post)) =
      fileBytes (runWriter cols max codec (pre ++ post)) := by
  unfold runWriter
  rw [runOps_append _ pre _ hpre, runOps_append _ pre _ hpre]
  have hs : ((WState.init cols max codec).exec pre).headLen = 0 := by
    rw [init_eq_stateOf, exec_stateOf hmax cols hcols, stateOf_headLen hmax]
    exact hpend
  have := (empty_write_inert _ hs).2.2 post
  simp only [fileBytes, List.flatMap_cons, List.flatMap_append] at this ⊢
  rw [this]

/-- … and the row groups (hence the footer) are the same as well. -/
theorem empty_write_inert_batches (pre post : List Op) (hpend : pendingOf pre = []) :
    batches (pre ++ Op.write :: post) = batches (pre ++ post) := by
  have key : ∀ (pre : List Op) (pend : List Rec), pendingAux pend pre = [] →
      batchesAux pend (pre ++ Op.write :: post) = batchesAux pend (pre ++ post) := by
    intro pre
    induction pre with
    | nil => intro pend h; simp only [pendingAux] at h; subst h; simp [batchesAux]
    | cons op pre ih =>
      intro pend h
      cases op with
      | add r => exact ih _ h
      | close => exact ih _ h
      | write =>
        simp only [List.cons_append, batchesAux]
        rw [ih [] h]
  exact key pre [] hpend

/-! ## 1. `Add` builds exactly `chunksOf max pending` -/

/-- After adding the records `rs ≠ []` one by one to a fresh chain, the chain is `rs` cut into
consecutive chunks of `max` records, one page per chunk. -/
theorem chain_is_chunks {max : Nat} (hmax : 1 ≤ max) (n : Nat) (rs : List Rec) (hrs : rs ≠ []) :
    rs.foldl (addToChain max n) [emptyPage n] = (chunksOf max rs).map (pageOf n) := by
  rw [chain_add_all hmax]
  unfold chainOf
  rw [if_neg (by simpa using hrs)]

/-- The shape of the chain: page lengths are the chunk lengths, the chunks concatenate to `rs`,
every page holds between `1` and `max` records, every page but the last is full. -/
theorem chain_shape {max : Nat} (hmax : 1 ≤ max) (n : Nat) (rs : List Rec) (hrs : rs ≠ []) :
    let pages := rs.foldl (addToChain max n) [emptyPage n]
    pages.map (·.len) = (chunksOf max rs).map List.length ∧
    (chunksOf max rs).flatten = rs ∧
    (pages.map (·.len)).sum = rs.length ∧
    pages ≠ [] ∧
    (∀ p ∈ pages, 1 ≤ p.len ∧ p.len ≤ max) ∧
    (∀ p ∈ pages.dropLast, p.len = max) := by
  intro pages
  have hp : pages = (chunksOf max rs).map (pageOf n) := chain_is_chunks hmax n rs hrs
  have hnf := chunksOf_NF hmax rs hrs
  have hlen : ((fun x : Page => x.len) ∘ pageOf n) = List.length := by
    funext c; simp [pageOf_len]
  refine ⟨?_, chunksOf_flatten hmax rs, ?_, ?_, ?_, ?_⟩
  · rw [hp, List.map_map, hlen]
  · rw [hp, List.map_map, hlen, ← List.length_flatten, chunksOf_flatten hmax]
  · rw [hp]; simpa using NF_ne_nil _ hnf
  · intro p hpp
    rw [hp] at hpp
    obtain ⟨c, hc, rfl⟩ := List.mem_map.mp hpp
    rw [pageOf_len]
    cases NF_bounds _ hnf with
    | inl h => exact h c hc
    | inr h => omega
  · intro p hpp
    rw [hp, ← List.map_dropLast] at hpp
    obtain ⟨c, hc, rfl⟩ := List.mem_map.mp hpp
    rw [pageOf_len]
    exact NF_dropLast_full _ hnf c hc

/-- The chain of `k ≥ 1` pending records has `⌈k / max⌉` pages. -/
theorem chain_page_count {max : Nat} (hmax : 1 ≤ max) (n : Nat) (rs : List Rec) (hrs : rs ≠ []) :
    (rs.foldl (addToChain max n) [emptyPage n]).length = (rs.length + max - 1) / max := by
  rw [chain_is_chunks hmax n rs hrs, List.length_map, chunksOf_length hmax]

/-- Column contents: for well-formed records (one entry list per column) the pages of column `i`,
concatenated along the chain, are the records' entries for column `i`, in order. -/
theorem chain_columns {max : Nat} (hmax : 1 ≤ max) (n i : Nat) (hi : i < n) (rs : List Rec)
    (hwf : ∀ r ∈ rs, r.length = n) :
    (rs.foldl (addToChain max n) [emptyPage n]).flatMap (·.cols.getD i []) = rs.flatMap (·.getD i []) := by
  cases rs with
  | nil => simp [emptyPage, List.getD_eq_getElem?_getD, hi]
  | cons r rs =>
    rw [chain_is_chunks hmax n _ (by simp), List.flatMap_map]
    have hmem : ∀ c ∈ chunksOf max (r :: rs), ∀ x ∈ c, x.length = n := by
      intro c hc x hx
      apply hwf
      rw [← chunksOf_flatten hmax (r :: rs)]
      exact List.mem_flatten.mpr ⟨c, hc, hx⟩
    have : ∀ cs : List (List Rec), (∀ c ∈ cs, ∀ x ∈ c, x.length = n) →
        cs.flatMap (fun c => (pageOf n c).cols.getD i []) = cs.flatten.flatMap (·.getD i []) := by
      intro cs
      induction cs with
      | nil => intro _; rfl
      | cons c cs ih =>
        intro h
        rw [List.flatMap_cons, List.flatten_cons, List.flatMap_append,
          pageOf_col n i hi c (h c List.mem_cons_self), ih (fun c' hc' => h c' (List.mem_cons_of_mem _ hc'))]
    rw [this _ hmem, chunksOf_flatten hmax]

/-! ## 2. Row groups refine batches -/

/-- The state reached by any history is completely determined by `pendingOf ops` and `batches ops`. -/
theorem state_is_stateOf {max : Nat} (hmax : 1 ≤ max) (cols : List Col) (hcols : cols ≠ [])
    (codec : Codec) (ops : List Op) :
    (WState.init cols max codec).exec ops =
      stateOf cols max codec (pendingOf ops) (batches ops) (addCount ops) := by
  rw [init_eq_stateOf, exec_stateOf hmax cols hcols]
  simp [pendingOf, batches]

theorem footerT_eq (s : WState) :
    footerT s = (schemaElems s.cols).map fun se =>
      TVal.struct [(1, .int 5 1), (2, .list 12 (se.map SElem.toT)),
                   (3, .int 6 (((s.rgs.filter (·.numRows ≠ 0)).map (·.numRows)).sum : Nat)),
                   (4, .list 12 (rowGroupsT s.cols s.codec.id s.rgs 4))] := by
  unfold footerT
  rw [sum_map_cast]
  cases schemaElems s.cols <;> rfl

/-- One row group per non-empty batch, in order; the open row group is always untouched; the
pending count is the chain's total; the footer's `num_rows` is the number of records in batches. -/
theorem rowgroups_refine_batches {max : Nat} (hmax : 1 ≤ max) (cols : List Col) (hcols : cols ≠ [])
    (codec : Codec) (ops : List Op) :
    let s := (WState.init cols max codec).exec ops
    -- the closed row groups are exactly the row groups of the batches, in order
    s.rgs.dropLast = (batches ops).map (batchRG cols max codec) ∧
    (s.rgs.dropLast.filter (·.numRows ≠ 0)).map (·.numRows) = (batches ops).map List.length ∧
    s.rgs.dropLast.map (·.numRows) = (batches ops).map List.length ∧
    -- no closed row group is empty, no batch is empty
    (∀ rg ∈ s.rgs.dropLast, rg.numRows ≠ 0) ∧ (∀ b ∈ batches ops, b ≠ []) ∧
    -- the open row group has no rows and no chunks
    s.rgs.getLast? = some (emptyRG cols.length) ∧
    -- pending records
    s.pages = chainOf max cols.length (pendingOf ops) ∧
    s.rowGroupDocs = (pendingOf ops).length ∧
    (s.pages.map (·.len)).sum = (pendingOf ops).length ∧
    s.docs = addCount ops ∧
    -- the footer: num_rows (field 3) counts exactly the rows of the batches
    footerT s = (schemaElems cols).map fun se =>
      TVal.struct [(1, .int 5 1), (2, .list 12 (se.map SElem.toT)),
                   (3, .int 6 (((batches ops).map List.length).sum : Nat)),
                   (4, .list 12 (rowGroupsT cols codec.id s.rgs 4))] := by
  intro s
  have hs : s = stateOf cols max codec (pendingOf ops) (batches ops) (addCount ops) :=
    state_is_stateOf hmax cols hcols codec ops
  have hne : ∀ b ∈ batches ops, b ≠ [] := batchesAux_ne_nil ops []
  have hdl : s.rgs.dropLast = (batches ops).map (batchRG cols max codec) := by
    rw [hs]; simp [stateOf]
  have hrows : s.rgs.dropLast.map (·.numRows) = (batches ops).map List.length := by
    rw [hdl, List.map_map]; rfl
  have hfil : s.rgs.filter (·.numRows ≠ 0) = (batches ops).map (batchRG cols max codec) := by
    rw [hs]
    simp only [stateOf, List.filter_append, filter_done_rgs cols max codec _ hne]
    simp [emptyRG]
  refine ⟨hdl, ?_, hrows, ?_, hne, ?_, ?_, ?_, ?_, ?_, ?_⟩
  · rw [hdl, filter_done_rgs cols max codec _ hne, List.map_map]; rfl
  · intro rg hrg
    rw [hdl] at hrg
    obtain ⟨b, hb, rfl⟩ := List.mem_map.mp hrg
    have := hne b hb
    simpa [batchRG_numRows] using this
  · rw [hs]; simp [stateOf]
  · rw [hs]; rfl
  · rw [hs]; rfl
  · rw [hs]; exact chainOf_lens_sum hmax _ _
  · rw [hs]; rfl
  · rw [footerT_eq, hfil, List.map_map]
    rw [hs]
    rfl

/-! ## 6. The shape of the sink calls -/

/-- Per call, for ANY state: `Add` writes nothing; `Write()` with `k` pages in the chain and `n`
columns performs exactly `2 * k * n` sink writes (none when nothing is pending); `Close` performs
exactly three — the footer, `le32` of its length, the magic — or panics (`none`) exactly where
`schema()` does; the constructor writes the magic. -/
theorem sink_calls_shape (s : WState) :
    (∀ r, s.step (.add r) = some (s.add r, [])) ∧
    (s.step .write = some s.write) ∧
    s.write.2.length = (if (s.pages.head?.map (·.len)).getD 0 = 0 then 0 else 2 * s.pages.length * s.cols.length) ∧
    s.close = (footerT s).map (fun t => [t.enc, le32 t.enc.length, par1]) ∧
    (∀ ws, s.step .close = some (s, ws) → ws.length = 3) ∧
    (∀ cols max codec ops, ∃ rest, runWriter cols max codec ops = some [par1] :: rest) := by
  refine ⟨fun _ => rfl, rfl, ?_, ?_, ?_, fun _ _ _ _ => ⟨_, rfl⟩⟩
  · by_cases h : (s.pages.head?.map (·.len)).getD 0 = 0
    · rw [if_pos h, write_empty s h]; rfl
    · rw [if_neg h, write_nonempty s h]; exact writeOut_length s
  · unfold WState.close
    cases footerT s <;> rfl
  · intro ws h
    unfold WState.step WState.close at h
    cases hf : footerT s with
    | none => simp [hf] at h
    | some t =>
      simp only [hf, Option.some.injEq, Prod.mk.injEq, true_and] at h
      rw [← h]; rfl

/-- History form: for a `Close`-free `body`, the calls of `body ++ [close]` are: the constructor's
magic, then per call `0` writes for an `Add` and `2 * (number of pages) * (number of columns)` for a
`Write` (`countsAux`; pages = `chunksOf max pending`, `0` when nothing is pending), then `Close`'s
three writes (`none` if `schema()` panics). -/
theorem sink_calls_history {max : Nat} (hmax : 1 ≤ max) (cols : List Col) (hcols : cols ≠ [])
    (codec : Codec) (body : List Op) (hbody : ∀ op ∈ body, op.isClose = false) :
    ∃ outs : List (List Bytes),
      outs.map List.length = countsAux max cols.length [] body ∧
      outs.length = body.length ∧
      runWriter cols max codec (body ++ [.close]) =
        some [par1] :: outs.map some ++
          [(footerT ((WState.init cols max codec).exec body)).map fun t => [t.enc, le32 t.enc.length, par1]] := by
  refine ⟨outsAux cols max codec [] body, outsAux_lengths cols max codec body [], ?_, ?_⟩
  · have := congrArg List.length (outsAux_lengths cols max codec body [])
    rw [List.length_map] at this
    rw [this]
    have hc : ∀ (ops : List Op) (pend : List Rec), (countsAux max cols.length pend ops).length = ops.length := by
      intro ops
      induction ops with
      | nil => intro _; rfl
      | cons op ops ih => intro pend; cases op <;> simp [countsAux, ih]
    exact hc body []
  · unfold runWriter
    rw [runOps_append _ body _ hbody, init_eq_stateOf, outs_stateOf hmax cols hcols]
    congr 2
    simp only [runOps, WState.step, WState.close]
    cases footerT _ <;> rfl

/-! ## 4. Records pending at `Close` are dropped -/

/-- The footer depends only on the columns, the codec id and the row groups; `Add`s change none of
them and write nothing.  Hence `Close` after any number of trailing `Add`s writes exactly what it
would have written without them, and the file is byte-identical. -/
theorem pending_at_close_dropped (s : WState) (adds : List Op) (hadds : ∀ op ∈ adds, op.isAdd = true) :
    (∀ s' : WState, s.cols = s'.cols → s.codec.id = s'.codec.id → s.rgs = s'.rgs → footerT s = footerT s') ∧
    (s.exec adds).rgs = s.rgs ∧
    footerT (s.exec adds) = footerT s ∧
    (s.exec adds).close = s.close ∧
    runOps s (adds ++ [.close]) = List.replicate adds.length (some []) ++ runOps s [.close] ∧
    fileBytes (runOps s (adds ++ [.close])) = fileBytes (runOps s [.close]) := by
  have ha := exec_adds s adds hadds
  have hk : (s.exec adds).codec.id = s.codec.id := by rw [ha.2.1]
  have hclose : (s.exec adds).close = s.close := close_congr _ _ ha.1 hk ha.2.2.1
  have hrun : runOps s (adds ++ [.close]) = List.replicate adds.length (some []) ++ runOps s [.close] := by
    rw [runOps_append s adds _ (isAdd_not_isClose adds hadds), ha.2.2.2.2]
    simp only [List.map_replicate, runOps, WState.step, hclose]
    cases s.close <;> rfl
  refine ⟨footerT_congr s, ha.2.2.1, footerT_congr _ _ ha.1 hk ha.2.2.1, hclose, hrun, ?_⟩
  rw [hrun, fileBytes_append, fileBytes_replicate_nil]
  rfl

/-- Whole-history form: trailing `Add`s before `Close` do not change the file. -/
theorem pending_at_close_dropped_file (cols : List Col) (max : Nat) (codec : Codec)
    (body adds : List Op) (hbody : ∀ op ∈ body, op.isClose = false) (hadds : ∀ op ∈ adds, op.isAdd = true) :
    fileBytes (runWriter cols max codec (body ++ adds ++ [.close])) =
      fileBytes (runWriter cols max codec (body ++ [.close])) ∧
    batches (body ++ adds ++ [.close]) = batches (body ++ [.close]) := by
  constructor
  · unfold runWriter
    rw [List.append_assoc, runOps_append _ body _ hbody, runOps_append _ body _ hbody]
    rw [fileBytes_cons, fileBytes_cons, fileBytes_append, fileBytes_append,
      (pending_at_close_dropped _ adds hadds).2.2.2.2.2]
  · have key : ∀ (body : List Op) (pend : List Rec),
        batchesAux pend (body ++ adds ++ [.close]) = batchesAux pend (body ++ [.close]) := by
      intro body
      induction body with
      | nil =>
        intro pend
        simp only [List.nil_append]
        have : ∀ (adds : List Op), (∀ op ∈ adds, op.isAdd = true) → ∀ pend,
            batchesAux pend (adds ++ [.close]) = [] := by
          intro adds
          induction adds with
          | nil => intro _ pend; rfl
          | cons op adds ih =>
            intro h pend
            cases op with
            | add r => exact ih (fun o ho => h o (List.mem_cons_of_mem _ ho)) _
            | write => exact absurd (h .write List.mem_cons_self) (by simp [Op.isAdd])
            | close => exact absurd (h .close List.mem_cons_self) (by simp [Op.isAdd])
        rw [this adds hadds]; rfl
      | cons op body ih =>
        intro pend
        cases op with
        | add r => exact ih _
        | close => exact ih _
        | write => simp only [List.cons_append, batchesAux]; rw [ih []]
    exact key body []

/-! ## 5. The offsets in the footer are truthful -/

/-- The whole file as a function of `batches body`.  With
`items j = batchItems cols max codec (batch j)` = per column `(column, chunk totals, chunk bytes)`,
where the chunk bytes are header ‖ payload of every page of that column along the chain
(`chunkBytes`), and `fileLocs items 4` = these chunks laid out back to back from offset 4 in
(row group, column) order:

* the file is `PAR1 ‖ all chunk bytes in that order ‖ footer ‖ le32 |footer| ‖ PAR1`;
* the footer's row-group list is `rgTs`, i.e. chunk `(j, i)` is recorded by `chunkT` with
  `file_offset = data_page_offset =` its `fileLocs` offset
  `= 4 + (bytes of all chunks before it)`, `total_byte_size` = the row group's bytes, `num_rows` =
  the batch length;
* for every located chunk `x`: `total_compressed_size = |x.bytes|` and the file really holds
  `x.bytes` at `x.offset`;
* the located chunks tile the data region, so the footer starts exactly where the last chunk ends:
  at `4 + Σ chunk sizes`. -/
theorem offsets_truthful {max : Nat} (hmax : 1 ≤ max) (cols : List Col) (hcols : cols ≠ [])
    (codec : Codec) (body : List Op) (hbody : ∀ op ∈ body, op.isClose = false)
    (se : List SElem) (hse : schemaElems cols = some se) :
    let bs := batches body
    let items := bs.map (batchItems cols max codec)
    let locs := fileLocs items 4
    let data := items.flatMap itemsBytes
    let rgs := rgTs codec.id (bs.map fun b => (b.length, batchItems cols max codec b)) 4
    let footer := TVal.struct [(1, .int 5 1), (2, .list 12 (se.map SElem.toT)),
                               (3, .int 6 ((bs.map List.length).sum : Nat)), (4, .list 12 rgs)]
    let file := fileBytes (runWriter cols max codec (body ++ [.close]))
    rowGroupsT cols codec.id ((WState.init cols max codec).exec body).rgs 4 = rgs ∧
    footerT ((WState.init cols max codec).exec body) = some footer ∧
    file = par1 ++ data ++ (footer.enc ++ le32 footer.enc.length ++ par1) ∧
    (∀ L ∈ locs, ∀ x ∈ L,
        x.chunk.totalCompressed = x.bytes.length ∧
        (file.drop x.offset).take x.bytes.length = x.bytes) ∧
    locs.flatten.flatMap (·.bytes) = data ∧
    (par1 ++ data).length = 4 + (locs.flatten.map (·.chunk.totalCompressed)).sum := by
  intro bs items locs data rgs footer file
  have hne : ∀ b ∈ bs, b ≠ [] := batchesAux_ne_nil body []
  have hst := state_is_stateOf hmax cols hcols codec body
  have hrg : rowGroupsT cols codec.id ((WState.init cols max codec).exec body).rgs 4 = rgs := by
    rw [hst]
    exact rowGroupsT_done cols max codec bs 4 hne
  have hfoot : footerT ((WState.init cols max codec).exec body) = some footer := by
    have := (rowgroups_refine_batches hmax cols hcols codec body).2.2.2.2.2.2.2.2.2.2
    rw [this, hse, Option.map_some, hrg]
  have hfile : file = par1 ++ data ++ (footer.enc ++ le32 footer.enc.length ++ par1) := by
    show fileBytes (runWriter cols max codec (body ++ [.close])) = _
    unfold runWriter
    rw [runOps_append _ body _ hbody, fileBytes_cons, fileBytes_append]
    have h1 : fileBytes (((WState.init cols max codec).outs body).map some) = data := by
      rw [init_eq_stateOf, outs_stateOf hmax cols hcols, fileBytes_outsAux]
      show (batches body).flatMap _ = ((batches body).map _).flatMap _
      rw [List.flatMap_map]
    have h2 : fileBytes (runOps ((WState.init cols max codec).exec body) [.close]) =
        footer.enc ++ le32 footer.enc.length ++ par1 := by
      simp [runOps, WState.step, WState.close, hfoot, fileBytes]
    rw [h1, h2]
    simp [par1]
  have hsz : ∀ its ∈ items, ∀ it ∈ its, it.2.1.totalCompressed = it.2.2.length := by
    intro its hits
    obtain ⟨b, _, rfl⟩ := List.mem_map.mp hits
    exact batchItems_sizes cols max codec b
  have hbytes : locs.flatten.flatMap (·.bytes) = data := fileLocs_bytes items 4
  refine ⟨hrg, hfoot, hfile, ?_, hbytes, ?_⟩
  · intro L hL x hx
    refine ⟨fileLocs_sizes items 4 hsz L hL x hx, ?_⟩
    rw [hfile]
    exact fileLocs_slice items par1 _ L x hL hx
  · rw [List.length_append, ← hbytes]
    have : ∀ xs : List ChunkLoc, (∀ x ∈ xs, x.chunk.totalCompressed = x.bytes.length) →
        (xs.flatMap (·.bytes)).length = (xs.map (·.chunk.totalCompressed)).sum := by
      intro xs
      induction xs with
      | nil => intro _; rfl
      | cons x xs ih =>
        intro h
        rw [List.flatMap_cons, List.length_append, List.map_cons, List.sum_cons, h x List.mem_cons_self,
          ih (fun y hy => h y (List.mem_cons_of_mem _ hy))]
    rw [this]
    · rfl
    · intro x hx
      obtain ⟨L, hL, hxL⟩ := List.mem_flatten.mp hx
      exact fileLocs_sizes items 4 hsz L hL x hxL

/-- Contiguity made explicit: listing the chunks in (row group, column) order, the `k`-th chunk's
recorded offset is `4 +` the total size of the chunks before it. -/
theorem offsets_contiguous (cols : List Col) (max : Nat) (codec : Codec) (body : List Op) :
    let xs := (fileLocs ((batches body).map (batchItems cols max codec)) 4).flatten
    ∀ (k : Nat) (h : k < xs.length), xs[k].offset = 4 + ((xs.take k).map (·.bytes.length)).sum := by
  intro xs k h
  exact Contig_offset xs 4 (fileLocs_Contig _ 4) k h

/-! ## Non-vacuity: two columns, `max = 2`, history add, add, add, write, write, add, close -/

section examples

private def exCols : List Col :=
  [{ path := ["a"], reps := [.req], ty := .i32 }, { path := ["b"], reps := [.opt], ty := .i32 }]
private def exCodec : Codec := { id := 0, compress := id }
private def exRec (k : Nat) : Rec :=
  [[{ rep := 0, dl := 0, val := some [k, 0, 0, 0] }], [{ rep := 0, dl := 0, val := none }]]
private def exOps : List Op :=
  [.add (exRec 1), .add (exRec 2), .add (exRec 3), .write, .write, .add (exRec 4), .close]
private def exBody : List Op := exOps.dropLast

example : exCols ≠ [] := by decide
example : ∀ op ∈ exBody, op.isClose = false := by decide
example : ∀ r ∈ [exRec 1, exRec 2, exRec 3], r.length = exCols.length := by decide
/-- one batch of three records; the fourth record is pending at `Close` -/
example : batches exOps = [[exRec 1, exRec 2, exRec 3]] := by decide
example : pendingOf exOps = [exRec 4] := by decide
example : pendingOf (exOps.take 4) = [] := by decide   -- the second `Write` finds nothing pending
/-- three records with `max = 2` make a chain of two pages, `[2, 1]` -/
example : chunksOf 2 [exRec 1, exRec 2, exRec 3] = [[exRec 1, exRec 2], [exRec 3]] := by decide
example : ([exRec 1, exRec 2, exRec 3].foldl (addToChain 2 2) [emptyPage 2]).map (·.len) = [2, 1] := by decide
example : ([exRec 1, exRec 2, exRec 3].foldl (addToChain 2 2) [emptyPage 2]).flatMap (·.cols.getD 0 []) =
    [⟨0, 0, some [1, 0, 0, 0]⟩, ⟨0, 0, some [2, 0, 0, 0]⟩, ⟨0, 0, some [3, 0, 0, 0]⟩] := by decide
/-- the model's state: one closed row group with 3 rows, the open one with 0, one record pending -/
example : (((WState.init exCols 2 exCodec).exec exOps).rgs.map (·.numRows),
           ((WState.init exCols 2 exCodec).exec exOps).rowGroupDocs,
           ((WState.init exCols 2 exCodec).exec exOps).pages.map (·.len),
           ((WState.init exCols 2 exCodec).exec exOps).docs) = ([3, 0], 1, [1], 4) := by decide
/-- sink writes per call: constructor 1, adds 0, first `Write` 2·2·2 = 8, empty `Write` 0, `Close` 3 -/
example : countsAux 2 exCols.length [] exBody = [0, 0, 0, 8, 0, 0] := by decide
example : (runWriter exCols 2 exCodec exOps).map (Option.map List.length) =
    [some 1, some 0, some 0, some 0, some 8, some 0, some 0, some 3] := by decide
/-- the layout has one row group with two chunks, the first at offset 4 -/
example : ((fileLocs ((batches exBody).map (batchItems exCols 2 exCodec)) 4).map
    (·.map (·.col.path))) = [[["a"], ["b"]]] := by decide
example : ((fileLocs ((batches exBody).map (batchItems exCols 2 exCodec)) 4).flatten.head?.map (·.offset)) = some 4 := by
  decide
example : (schemaElems exCols).isSome = true := by decide
/-- the layout: chunk `a` at offset 4, chunk `b` right after it (evaluated by the driver: 74 and 54
bytes, footer of 94 bytes at 132, file of 234 bytes; `uleb` is by well-founded recursion, so the
byte counts themselves are not `decide`-able) -/
example : ((fileLocs ((batches exBody).map (batchItems exCols 2 exCodec)) 4).flatten.map (·.offset)) =
    [4, 4 + (chunkBytes exCodec ⟨["a"], [.req], .i32⟩
              (colEntries (chainOf 2 2 [exRec 1, exRec 2, exRec 3]) 0)).length] := rfl
/-- the two inertness theorems applied: the empty `Write` and the pending `Add` can be dropped -/
example : fileBytes (runWriter exCols 2 exCodec exOps) =
    fileBytes (runWriter exCols 2 exCodec [.add (exRec 1), .add (exRec 2), .add (exRec 3), .write, .close]) := by
  have h1 := empty_write_inert_file (max := 2) (by decide) exCols (by decide) exCodec
    [.add (exRec 1), .add (exRec 2), .add (exRec 3), .write] [.add (exRec 4), .close] (by decide) (by decide)
  have h2 := (pending_at_close_dropped_file exCols 2 exCodec
    [.add (exRec 1), .add (exRec 2), .add (exRec 3), .write] [.add (exRec 4)] (by decide) (by decide)).1
  exact h1.trans h2
/-- `offsets_truthful` applied: the bytes of chunk `b` sit in the file at the recorded offset -/
example (se : List SElem) (hse : schemaElems exCols = some se) :
    let file := fileBytes (runWriter exCols 2 exCodec exOps)
    let a := chunkBytes exCodec ⟨["a"], [.req], .i32⟩ (colEntries (chainOf 2 2 [exRec 1, exRec 2, exRec 3]) 0)
    let b := chunkBytes exCodec ⟨["b"], [.opt], .i32⟩ (colEntries (chainOf 2 2 [exRec 1, exRec 2, exRec 3]) 1)
    (file.drop (4 + a.length)).take b.length = b := by
  intro file a b
  have h := (offsets_truthful (max := 2) (by decide) exCols (by decide) exCodec exBody (by decide) se hse).2.2.2.1
  exact (h _ List.mem_cons_self ⟨⟨["b"], [.opt], .i32⟩, _, 4 + a.length, b⟩
    (List.mem_cons_of_mem _ List.mem_cons_self)).2

end examples

end PQ.C06
