import PQ.Lemmas.Writer
/-!
# C06 — every Add/Write/Close history gives one row group per non-empty batch

All statements are about the executable writer model `PQ/Model/Writer.lean` (which the harness
compares byte-for-byte with the Go writer).  Specification vocabulary (defined in
`PQ/Lemmas/Writer.lean`):

* `batches ops`     – the records between consecutive `Write`s, empty batches dropped, records after
                      the last `Write` dropped;  `pendingOf ops` – the records after the last `Write`;
* `chunksOf max rs` – `rs` cut by `take max` / `drop max`;  `pageOf n chunk` – the page holding `chunk`;
* `chainOf max n pend` – `[emptyPage n]` if nothing is pending, else `(chunksOf max pend).map (pageOf n)`;
* `batchRG cols max codec b` / `batchOut cols max codec b` – the row group / the sink writes of batch `b`;
* `s.exec ops` – the state after the calls `ops`;  `s.outs ops` – the sink writes of each call.

Hypotheses: `1 ≤ max` everywhere the chain is involved (for `max = 0` Go's `Add` recurses forever),
`cols ≠ []` where row groups are counted (with no columns a `Write` touches no page and therefore
records no `NumRows`).
-/
namespace PQ.C06
open PQ PQ.Thrift

/-! ## 3. A `Write` with nothing pending is inert -/

/-- `Write()` when the head page is empty returns at once: same state, no sink write; hence the run
with that call has one more entry `some []`, and the byte stream is unchanged. -/
theorem empty_write_inert (s : WState) (h : (s.pages.head?.map (·.len)).getD 0 = 0) :
    s.write = (s, []) ∧
    (∀ ops, runOps s (Op.write :: ops) = some [] :: runOps s ops) ∧
    (∀ ops, fileBytes (runOps s (Op.write :: ops)) = fileBytes (runOps s ops)) := by
  have hw : s.write = (s, []) := write_empty s h
  have hr : ∀ ops, runOps s (Op.write :: ops) = some [] :: runOps s ops := by
    intro ops
    simp [runOps, WState.step, hw]
  refine ⟨hw, hr, ?_⟩
  intro ops
  rw [hr]
  simp [fileBytes]

/-- Whole-history form: a `Write` issued when no record is pending (`pendingOf pre = []`) can be
deleted from the history without changing a single byte of the file, whatever follows. -/
theorem empty_write_inert_file {max : Nat} (hmax : 1 ≤ max) (cols : List Col) (hcols : cols ≠ [])
    (codec : Codec) (pre post : List Op) (hpre : ∀ op ∈ pre, op.isClose = false)
    (hpend : pendingOf pre = []) :
    fileBytes (runWriter cols max codec (pre ++ Op.write :: post)) =
      fileBytes (runWriter cols max codec (pre ++ post)) := by
  unfold runWriter
  rw [runOps_append _ pre _ hpre, runOps_append _ pre _ hpre]
  have hs : ((WState.init cols max codec).exec pre).headLen = 0 := by
    rw [init_eq_stateOf, exec_stateOf hmax cols hcols, stateOf_headLen hmax]
    exact hpend
  have := (empty_write_inert _ hs).2.2 post
  simp only [fileBytes, List.flatMap_cons, List.flatMap_append] at this ⊢
  rw [this]

/-- … and the row groups (hence the footer) are the same as well. -/
theorem empty_write_inert_batches (pre post : List Op) (hpend : pendingOf pre = []) :
    batches (pre ++ Op.write :: post) = batches (pre ++ post) := by
  have key : ∀ (pre : List Op) (pend : List Rec), pendingAux pend pre = [] →
      batchesAux pend (pre ++ Op.write :: post) = batchesAux pend (pre ++ post) := by
    intro pre
    induction pre with
    | nil => intro pend h; simp only [pendingAux] at h; subst h; simp [batchesAux]
    | cons op pre ih =>
      intro pend h
      cases op with
      | add r => exact ih _ h
      | close => exact ih _ h
      | write =>
        simp only [List.cons_append, batchesAux]
        rw [ih [] h]
  exact key pre [] hpend

/-! ## 1. `Add` builds exactly `chunksOf max pending` -/

/-- After adding the records `rs ≠ []` one by one to a fresh chain, the chain is `rs` cut into
consecutive chunks of `max` records, one page per chunk. -/
theorem chain_is_chunks {max : Nat} (hmax : 1 ≤ max) (n : Nat) (rs : List Rec) (hrs : rs ≠ []) :
    rs.foldl (addToChain max n) [emptyPage n] = (chunksOf max rs).map (pageOf n) := by
  rw [chain_add_all hmax]
  unfold chainOf
  rw [if_neg (by simpa using hrs)]

/-- The shape of the chain: page lengths are the chunk lengths, the chunks concatenate to `rs`,
every page holds between `1` and `max` records, every page but the last is full. -/
theorem chain_shape {max : Nat} (hmax : 1 ≤ max) (n : Nat) (rs : List Rec) (hrs : rs ≠ []) :
    let pages := rs.foldl (addToChain max n) [emptyPage n]
    pages.map (·.len) = (chunksOf max rs).map List.length ∧
    (chunksOf max rs).flatten = rs ∧
    (pages.map (·.len)).sum = rs.length ∧
    pages ≠ [] ∧
    (∀ p ∈ pages, 1 ≤ p.len ∧ p.len ≤ max) ∧
    (∀ p ∈ pages.dropLast, p.len = max) := by
  intro pages
  have hp : pages = (chunksOf max rs).map (pageOf n) := chain_is_chunks hmax n rs hrs
  have hnf := chunksOf_NF hmax rs hrs
  have hlen : ((fun x : Page => x.len) ∘ pageOf n) = List.length := by
    funext c; simp [pageOf_len]
  refine ⟨?_, chunksOf_flatten hmax rs, ?_, ?_, ?_, ?_⟩
  · rw [hp, List.map_map, hlen]
  · rw [hp, List.map_map, hlen, ← List.length_flatten, chunksOf_flatten hmax]
  · rw [hp]; simpa using NF_ne_nil _ hnf
  · intro p hpp
    rw [hp] at hpp
    obtain ⟨c, hc, rfl⟩ := List.mem_map.mp hpp
    rw [pageOf_len]
    cases NF_bounds _ hnf with
    | inl h => exact h c hc
    | inr h => omega
  · intro p hpp
    rw [hp, ← List.map_dropLast] at hpp
    obtain ⟨c, hc, rfl⟩ := List.mem_map.mp hpp
    rw [pageOf_len]
    exact NF_dropLast_full _ hnf c hc

/-- Column contents: for well-formed records (one entry list per column) the pages of column `i`,
concatenated along the chain, are the records' entries for column `i`, in order. -/
theorem chain_columns {max : Nat} (hmax : 1 ≤ max) (n i : Nat) (hi : i < n) (rs : List Rec)
    (hwf : ∀ r ∈ rs, r.length = n) :
    (rs.foldl (addToChain max n) [emptyPage n]).flatMap (·.cols.getD i []) = rs.flatMap (·.getD i []) := by
  cases rs with
  | nil => simp [emptyPage, List.getD_eq_getElem?_getD, hi]
  | cons r rs =>
    rw [chain_is_chunks hmax n _ (by simp), List.flatMap_map]
    have hmem : ∀ c ∈ chunksOf max (r :: rs), ∀ x ∈ c, x.length = n := by
      intro c hc x hx
      apply hwf
      rw [← chunksOf_flatten hmax (r :: rs)]
      exact List.mem_flatten.mpr ⟨c, hc, hx⟩
    have : ∀ cs : List (List Rec), (∀ c ∈ cs, ∀ x ∈ c, x.length = n) →
        cs.flatMap (fun c => (pageOf n c).cols.getD i []) = cs.flatten.flatMap (·.getD i []) := by
      intro cs
      induction cs with
      | nil => intro _; rfl
      | cons c cs ih =>
        intro h
        rw [List.flatMap_cons, List.flatten_cons, List.flatMap_append,
          pageOf_col n i hi c (h c List.mem_cons_self), ih (fun c' hc' => h c' (List.mem_cons_of_mem _ hc'))]
    rw [this _ hmem, chunksOf_flatten hmax]

/-! ## 2. Row groups refine batches -/

/-- The state reached by any history is completely determined by `pendingOf ops` and `batches ops`. -/
theorem state_is_stateOf {max : Nat} (hmax : 1 ≤ max) (cols : List Col) (hcols : cols ≠ [])
    (codec : Codec) (ops : List Op) :
    (WState.init cols max codec).exec ops =
      stateOf cols max codec (pendingOf ops) (batches ops) (addCount ops) := by
  rw [init_eq_stateOf, exec_stateOf hmax cols hcols]
  simp [pendingOf, batches]

theorem footerT_eq (s : WState) :
    footerT s = (schemaElems s.cols).map fun se =>
      TVal.struct [(1, .int 5 1), (2, .list 12 (se.map SElem.toT)),
                   (3, .int 6 (((s.rgs.filter (·.numRows ≠ 0)).map (·.numRows)).sum : Nat)),
                   (4, .list 12 (rowGroupsT s.cols s.codec.id s.rgs 4))] := by
  unfold footerT
  rw [sum_map_cast]
  cases schemaElems s.cols <;> rfl

/-- One row group per non-empty batch, in order; the open row group is always untouched; the
pending count is the chain's total; the footer's `num_rows` is the number of records in batches. -/
theorem rowgroups_refine_batches {max : Nat} (hmax : 1 ≤ max) (cols : List Col) (hcols : cols ≠ [])
    (codec : Codec) (ops : List Op) :
    let s := (WState.init cols max codec).exec ops
    -- the closed row groups are exactly the row groups of the batches, in order
    s.rgs.dropLast = (batches ops).map (batchRG cols max codec) ∧
    (s.rgs.dropLast.filter (·.numRows ≠ 0)).map (·.numRows) = (batches ops).map List.length ∧
    s.rgs.dropLast.map (·.numRows) = (batches ops).map List.length ∧
    -- no closed row group is empty, no batch is empty
    (∀ rg ∈ s.rgs.dropLast, rg.numRows ≠ 0) ∧ (∀ b ∈ batches ops, b ≠ []) ∧
    -- the open row group has no rows and no chunks
    s.rgs.getLast? = some (emptyRG cols.length) ∧
    -- pending records
    s.pages = chainOf max cols.length (pendingOf ops) ∧
    s.rowGroupDocs = (pendingOf ops).length ∧
    (s.pages.map (·.len)).sum = (pendingOf ops).length ∧
    s.docs = addCount ops ∧
    -- the footer: num_rows (field 3) counts exactly the rows of the batches
    footerT s = (schemaElems cols).map fun se =>
      TVal.struct [(1, .int 5 1), (2, .list 12 (se.map SElem.toT)),
                   (3, .int 6 (((batches ops).map List.length).sum : Nat)),
                   (4, .list 12 (rowGroupsT cols codec.id s.rgs 4))] := by
  intro s
  have hs : s = stateOf cols max codec (pendingOf ops) (batches ops) (addCount ops) :=
    state_is_stateOf hmax cols hcols codec ops
  have hne : ∀ b ∈ batches ops, b ≠ [] := batchesAux_ne_nil ops []
  have hdl : s.rgs.dropLast = (batches ops).map (batchRG cols max codec) := by
    rw [hs]; simp [stateOf]
  have hrows : s.rgs.dropLast.map (·.numRows) = (batches ops).map List.length := by
    rw [hdl, List.map_map]; rfl
  have hfil : s.rgs.filter (·.numRows ≠ 0) = (batches ops).map (batchRG cols max codec) := by
    rw [hs]
    simp only [stateOf, List.filter_append, filter_done_rgs cols max codec _ hne]
    simp [emptyRG]
  refine ⟨hdl, ?_, hrows, ?_, hne, ?_, ?_, ?_, ?_, ?_, ?_⟩
  · rw [hdl, filter_done_rgs cols max codec _ hne, List.map_map]; rfl
  · intro rg hrg
    rw [hdl] at hrg
    obtain ⟨b, hb, rfl⟩ := List.mem_map.mp hrg
    have := hne b hb
    simpa [batchRG_numRows] using this
  · rw [hs]; simp [stateOf]
  · rw [hs]; rfl
  · rw [hs]; rfl
  · rw [hs]; exact chainOf_lens_sum hmax _ _
  · rw [hs]; rfl
  · rw [footerT_eq, hfil, List.map_map]
    rw [hs]
    rfl

end PQ.C06
