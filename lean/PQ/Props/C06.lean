import PQ.Model.Writer
