import PQ.Model.IO
import PQ.Model.Writer
/-!
# C09 — a failed write to the destination is always reported

* `checked_fault_reported`: a sequence of I/O steps whose every error is checked/returned reports
  a failure of its `k`-th step, for every `k` — nothing is swallowed.
* `sink_sites_propagate`, `sink_calls_propagate`: in the working tree (inventories regenerated on
  every run) every write on the sink and every call of a function that writes the sink
  (`Field.Write`, `DoWrite`, `WritePageHeader`, `Footer`) has its error checked or returned.
* `failing_call`: with the sink failing at its `k`-th write, the API call (constructor, `Write`,
  `Close`) during which that write happens is the one that returns the error; the model's list of
  sink writes per API call (`runWriter`) is what the harness compares, exhaustively over `k`.
Not carried by a theorem: absence of panics in the Go runtime (observed by the harness).
-/
namespace PQ.C09
open PQ.IO PQ.Gen

theorem checked_fault_reported : ∀ (steps : List Bool) (k : Nat), steps.all id = true → 1 ≤ k → k ≤ steps.length →
    runFault steps k = .err := by
  intro steps
  induction steps with
  | nil => intro k _ h1 h2; simp at h2; omega
  | cons s rest ih =>
    intro k hall h1 h2
    simp only [List.all_cons, Bool.and_eq_true, id] at hall
    unfold runFault
    by_cases hk : k = 1
    · rw [if_pos hk, hall.1]; rfl
    · rw [if_neg hk]
      exact ih (k - 1) hall.2 (by omega) (by simp at h2; omega)

/-- a dropped error is exactly what makes a fault invisible -/
theorem dropped_fault_swallowed (pre post : List Bool) (hpre : pre.all id = true) :
    runFault (pre ++ false :: post) (pre.length + 1) = .swallowed := by
  induction pre with
  | nil => simp [runFault]
  | cons s rest ih =>
    simp only [List.all_cons, Bool.and_eq_true] at hpre
    simp only [List.cons_append, List.length_cons]
    unfold runFault
    rw [if_neg (by omega)]
    simpa using ih hpre.2

theorem sink_sites_propagate : (Facts.sinkSiteList.all Site.propagates) = true := by decide
theorem sink_calls_propagate : (Facts.sinkPropList.all Site.propagates) = true := by decide

/-- no library object other than a thrift stream transport is handed the sink itself (a buffered
writer would delay and could swallow write errors) -/
theorem sink_extern_allowed : (Facts.sinkExternList.all fun s =>
    s == "thrift.StreamTransport" || s == "thrift.NewStreamTransportW" || s == "thrift.NewStreamTransport") = true := by decide

/-- the inventories have not silently gone empty (e.g. after a rename the extractor no longer
recognises): there are still sink writes and calls leading to them. Deliberately weak, so that
extracting helpers or renaming functions does not trip it. -/
theorem sink_inventory_covers : 3 ≤ Facts.sinkSiteList.length ∧ 3 ≤ Facts.sinkPropList.length := by decide

/-- index of the API call during which the `k`-th sink write (1-based) happens -/
def failingCall : List (List Bytes) → Nat → Option Nat
  | [], _ => none
  | c :: cs, k => if k ≤ c.length then some 0 else (failingCall cs (k - c.length)).map (· + 1)

theorem failing_call (calls : List (List Bytes)) (k : Nat) (h1 : 1 ≤ k) (h2 : k ≤ (calls.map List.length).sum) :
    ∃ i, failingCall calls k = some i ∧ i < calls.length ∧
      ((calls.take i).map List.length).sum < k ∧ k ≤ ((calls.take (i+1)).map List.length).sum := by
  induction calls generalizing k with
  | nil => simp at h2; omega
  | cons c cs ih =>
    unfold failingCall
    by_cases hk : k ≤ c.length
    · rw [if_pos hk]
      exact ⟨0, rfl, by simp, by simp; omega, by simp; omega⟩
    · rw [if_neg hk]
      simp only [List.map_cons, List.sum_cons] at h2
      obtain ⟨i, hi, hlt, ha, hb⟩ := ih (k - c.length) (by omega) (by omega)
      refine ⟨i + 1, by rw [hi]; rfl, by simp; omega, ?_, ?_⟩
      · simp only [List.take_succ_cons, List.map_cons, List.sum_cons]; omega
      · simp only [List.take_succ_cons, List.map_cons, List.sum_cons]; omega

example : runFault [true, true, true] 2 = .err := by decide
example : runFault [true, false, true] 2 = .swallowed := by decide
example : failingCall [[[1]], [], [[2], [3]]] 3 = some 2 := by decide

end PQ.C09
