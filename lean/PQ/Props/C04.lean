import PQ.Model.SpecWriter
import PQ.Model.Snappy
import PQ.Model.Reader
import PQ.Props.C07
import PQ.Lemmas.Thrift
import PQ.Lemmas.Dremel
import PQ.Lemmas.Segment
import PQ.Lemmas.SnappyRT
/-!
# C04 — the reader decodes every conformant file, whatever legal encoding choices its writer made

Only the property theorems and their non-vacuity examples live here; the proofs are in
`PQ/Lemmas/{Segment,SnappyRT}.lean` (and the C07 / thrift libraries).

The writer side is the independent nondeterministic writer of `PQ/Model/SpecWriter.lean` and
`PQ/Model/Snappy.lean`: every encoding decision is taken from an arbitrary stream of choices `cs`.
The theorems quantify over *all* choice streams.

* `segment_spec`: every run segmentation the writer can choose is a well-formed encoding of the same levels.
* `levels_any_segmentation`, `readLevels_any_segmentation`: the library's level decoder (`RLE.Read` /
  `readLevels`) returns the same levels for every one of them.
* `specPage_levels`, `specPage_levels_flat`: the raw page the spec writer emits (any choices, statistics
  or not, extra fields or not) starts with level sections that `readLevels` decodes to the entries' levels,
  followed by the PLAIN values.
* `snappy_roundtrip`: every literal/copy segmentation the snappy encoder can choose decodes to the input.
* `unknown_fields_skipped*`, `statistics_irrelevant*`: presence or absence of statistics and of unknown /
  optional thrift fields does not change what the reader extracts from footer and page headers.
-/
namespace PQ.C04
open PQ PQ.Thrift

/-! ## 1. every legal run segmentation -/

/-- **Every output of the nondeterministic segmenter is a well-formed encoding of the same levels**:
for every choice stream, all runs are well formed for the width (RLE counts ≥ 1, bit-packed runs of ≥ 1
groups of exactly 8 values, all values in range), their values are the levels followed by fewer than 8
padding values, and every RLE count is at most the number of levels.  `fuel ≥ xs.length` suffices (the
writer passes `xs.length + 1`): every step consumes at least one level. -/
theorem segment_spec (w padv : Nat) (hp : padv < 2 ^ w) (fuel : Nat) (cs : Choices) (xs : List Nat)
    (hx : ∀ x ∈ xs, x < 2 ^ w) (hf : xs.length ≤ fuel) :
    (∀ r ∈ (segment padv fuel cs xs).1, r.WF w)
    ∧ (∃ pad, pad < 8 ∧ runsVals (segment padv fuel cs xs).1 = xs ++ List.replicate pad padv)
    ∧ (∀ c v, Run.rle c v ∈ (segment padv fuel cs xs).1 → c ≤ xs.length) :=
  PQ.segment_ok w padv hp fuel cs xs hx hf

/-- the serialised size of any segmentation is linear in the number of levels (so the `int32` length
prefix never overflows for pages of the supported size) -/
theorem segment_size (w padv : Nat) (h8 : w ≤ 8) (hp : padv < 2 ^ w) (fuel : Nat) (cs : Choices)
    (xs : List Nat) (hx : ∀ x ∈ xs, x < 2 ^ w) (hf : xs.length ≤ fuel) (hlen : xs.length + 8 ≤ 2 ^ 34) :
    (serRuns w (segment padv fuel cs xs).1).length ≤ 6 * (xs.length + 7) :=
  PQ.segment_size w padv h8 hp fuel cs xs hx hf hlen

/-! ## 2. the library decoder on every segmentation -/

/-- **The library's level decoder returns the same levels for every legal segmentation** (any mix of
RLE and bit-packed runs, any run lengths, bit-packed runs of more than 63 groups, any in-range padding
value), whatever follows the level section, and reports exactly the section's size. -/
theorem levels_any_segmentation (w : Nat) (hw : 1 ≤ w ∧ w ≤ 4) (padv : Nat) (hp : padv < 2 ^ w)
    (fuel : Nat) (cs : Choices) (xs : List Nat) (hx : ∀ x ∈ xs, x < 2 ^ w) (hf : xs.length ≤ fuel)
    (hlen : xs.length + 8 ≤ 2 ^ 28) (rest : Bytes) :
    ∃ pad, pad < 8 ∧
      implDecode w (levelSection w (segment padv fuel cs xs).1 ++ rest)
        = .ok (xs ++ List.replicate pad padv, (levelSection w (segment padv fuel cs xs).1).length) :=
  PQ.implDecode_segment w hw padv hp fuel cs xs hx hf hlen rest

/-- the same for the specification decoder (every width) -/
theorem spec_levels_any_segmentation (w : Nat) (h8 : w ≤ 8) (padv : Nat) (hp : padv < 2 ^ w)
    (fuel : Nat) (cs : Choices) (xs : List Nat) (hx : ∀ x ∈ xs, x < 2 ^ w) (hf : xs.length ≤ fuel)
    (hlen : xs.length + 8 ≤ 2 ^ 28) (rest : Bytes) :
    ∃ pad, pad < 8 ∧
      specDecode w (levelSection w (segment padv fuel cs xs).1 ++ rest)
        = some (xs ++ List.replicate pad padv, (levelSection w (segment padv fuel cs xs).1).length) := by
  obtain ⟨hwf, ⟨pad, hpad, hv⟩, _⟩ := segment_spec w padv hp fuel cs xs hx hf
  have hsz := segment_size w padv h8 hp fuel cs xs hx hf (by omega)
  refine ⟨pad, hpad, ?_⟩
  rw [PQ.levelSection_length, PQ.levelSection_eq, List.append_assoc,
    PQ.C07.spec_decode_wf w _ hwf (by omega) rest, hv]

/-- **Reader level**: `readLevels` on page data holding the level section of any legal segmentation
at offset `pre.length` returns the levels (plus fewer than 8 padding values, which the reader cuts off
with `[:num_values]`) and the section's size. -/
theorem readLevels_any_segmentation (w : Nat) (hw : 1 ≤ w ∧ w ≤ 4) (padv : Nat) (hp : padv < 2 ^ w)
    (fuel : Nat) (cs : Choices) (xs : List Nat) (hx : ∀ x ∈ xs, x < 2 ^ w) (hf : xs.length ≤ fuel)
    (hlen : xs.length + 8 ≤ 2 ^ 28) (pre rest : Bytes) :
    ∃ pad, pad < 8 ∧
      readLevelsAt w (pre ++ levelSection w (segment padv fuel cs xs).1 ++ rest) pre.length
        = .ok (xs ++ List.replicate pad padv, (levelSection w (segment padv fuel cs xs).1).length) := by
  obtain ⟨pad, hpad, h⟩ := levels_any_segmentation w hw padv hp fuel cs xs hx hf hlen rest
  refine ⟨pad, hpad, ?_⟩
  unfold readLevelsAt
  rw [if_neg (by simp only [List.length_append]; omega), List.append_assoc, List.drop_left, h]

/-- what the reader keeps, `levels[:num_values]`, is exactly the writer's levels — independent of the
segmentation and of the padding value -/
theorem readLevels_take (w : Nat) (hw : 1 ≤ w ∧ w ≤ 4) (padv : Nat) (hp : padv < 2 ^ w)
    (fuel : Nat) (cs : Choices) (xs : List Nat) (hx : ∀ x ∈ xs, x < 2 ^ w) (hf : xs.length ≤ fuel)
    (hlen : xs.length + 8 ≤ 2 ^ 28) (pre rest : Bytes) :
    ∃ lv, readLevelsAt w (pre ++ levelSection w (segment padv fuel cs xs).1 ++ rest) pre.length
        = .ok (lv, (levelSection w (segment padv fuel cs xs).1).length)
      ∧ xs.length ≤ lv.length ∧ lv.take xs.length = xs := by
  obtain ⟨pad, _, h⟩ := readLevels_any_segmentation w hw padv hp fuel cs xs hx hf hlen pre rest
  exact ⟨_, h, by simp, by simp⟩

/-- **Page level**: the raw (uncompressed) page the spec writer emits for an optional, possibly repeated
column — for every choice stream (run segmentation of both level streams), every padding value, with
or without statistics / extra fields, any mutation of the header — starts with level sections from
which the reader's `readLevels` recovers exactly the repetition and definition levels of the page's
entries (plus fewer than 8 padding values each), followed by the PLAIN values. -/
theorem specPage_levels (cfg : SWCfg) (c : Col) (codec : Nat) (compress : Bytes → Bytes) (mu : Mutation)
    (cs : Choices) (es : List (Entry Bytes)) (hrep : c.maxRep > 0) (hopt : c.isRequired = false)
    (hwr : 1 ≤ bitsLen c.maxRep ∧ bitsLen c.maxRep ≤ 4) (hwd : 1 ≤ bitsLen c.maxDef ∧ bitsLen c.maxDef ≤ 4)
    (hx : ∀ e ∈ es, e.rep ≤ c.maxRep ∧ e.dl ≤ c.maxDef) (hlen : es.length + 8 ≤ 2 ^ 28) :
    ∃ p1 p2 l1 l2, p1 < 8 ∧ p2 < 8 ∧
      readLevelsAt (bitsLen c.maxRep) (specPageBytes cfg c codec compress mu cs es).2.1 0
        = .ok (es.map (·.rep) ++ List.replicate p1 (cfg.padv % 2 ^ bitsLen c.maxRep), l1)
      ∧ readLevelsAt (bitsLen c.maxDef) (specPageBytes cfg c codec compress mu cs es).2.1 l1
        = .ok (es.map (·.dl) ++ List.replicate p2 (cfg.padv % 2 ^ bitsLen c.maxDef), l2)
      ∧ (specPageBytes cfg c codec compress mu cs es).2.1.drop (l1 + l2) = plainValues c.ty (nonNull es) := by
  have hraw : (specPageBytes cfg c codec compress mu cs es).2.1
      = levelSection (bitsLen c.maxRep)
          (segment (cfg.padv % 2 ^ bitsLen c.maxRep) (es.length + 1) cs (es.map (·.rep))).1
        ++ levelSection (bitsLen c.maxDef)
          (segment (cfg.padv % 2 ^ bitsLen c.maxDef) (es.length + 1)
            (segment (cfg.padv % 2 ^ bitsLen c.maxRep) (es.length + 1) cs (es.map (·.rep))).2 (es.map (·.dl))).1
        ++ plainValues c.ty (nonNull es) := by
    unfold specPageBytes
    simp [hrep, hopt]
  rw [hraw]
  generalize (segment (cfg.padv % 2 ^ bitsLen c.maxRep) (es.length + 1) cs (es.map (·.rep))).2 = cs'
  have hr : ∀ x ∈ es.map (·.rep), x < 2 ^ bitsLen c.maxRep := by
    intro x hx'
    obtain ⟨e, he, rfl⟩ := List.mem_map.mp hx'
    exact Nat.lt_of_le_of_lt (hx e he).1 (lt_two_pow_bitsLen _)
  have hd : ∀ x ∈ es.map (·.dl), x < 2 ^ bitsLen c.maxDef := by
    intro x hx'
    obtain ⟨e, he, rfl⟩ := List.mem_map.mp hx'
    exact Nat.lt_of_le_of_lt (hx e he).2 (lt_two_pow_bitsLen _)
  obtain ⟨p1, hp1, h1⟩ := readLevels_any_segmentation (bitsLen c.maxRep) hwr (cfg.padv % 2 ^ bitsLen c.maxRep)
    (Nat.mod_lt _ (Nat.two_pow_pos _)) (es.length + 1) cs (es.map (·.rep)) hr (by simp) (by simpa using hlen) []
    (levelSection (bitsLen c.maxDef) (segment (cfg.padv % 2 ^ bitsLen c.maxDef) (es.length + 1) cs' (es.map (·.dl))).1
      ++ plainValues c.ty (nonNull es))
  obtain ⟨p2, hp2, h2⟩ := readLevels_any_segmentation (bitsLen c.maxDef) hwd (cfg.padv % 2 ^ bitsLen c.maxDef)
    (Nat.mod_lt _ (Nat.two_pow_pos _)) (es.length + 1) cs' (es.map (·.dl)) hd (by simp) (by simpa using hlen)
    (levelSection (bitsLen c.maxRep) (segment (cfg.padv % 2 ^ bitsLen c.maxRep) (es.length + 1) cs (es.map (·.rep))).1)
    (plainValues c.ty (nonNull es))
  refine ⟨p1, p2, _, _, hp1, hp2, ?_, h2, ?_⟩
  · simpa [List.append_assoc] using h1
  · rw [← List.length_append, List.drop_left]

/-- the same for an optional column without repeated ancestors (definition levels only) -/
theorem specPage_levels_flat (cfg : SWCfg) (c : Col) (codec : Nat) (compress : Bytes → Bytes) (mu : Mutation)
    (cs : Choices) (es : List (Entry Bytes)) (hrep : c.maxRep = 0) (hopt : c.isRequired = false)
    (hwd : 1 ≤ bitsLen c.maxDef ∧ bitsLen c.maxDef ≤ 4)
    (hx : ∀ e ∈ es, e.dl ≤ c.maxDef) (hlen : es.length + 8 ≤ 2 ^ 28) :
    ∃ p l, p < 8 ∧
      readLevelsAt (bitsLen c.maxDef) (specPageBytes cfg c codec compress mu cs es).2.1 0
        = .ok (es.map (·.dl) ++ List.replicate p (cfg.padv % 2 ^ bitsLen c.maxDef), l)
      ∧ (specPageBytes cfg c codec compress mu cs es).2.1.drop l = plainValues c.ty (nonNull es) := by
  have hraw : (specPageBytes cfg c codec compress mu cs es).2.1
      = levelSection (bitsLen c.maxDef)
          (segment (cfg.padv % 2 ^ bitsLen c.maxDef) (es.length + 1) cs (es.map (·.dl))).1
        ++ plainValues c.ty (nonNull es) := by
    unfold specPageBytes
    simp [hrep, hopt]
  rw [hraw]
  have hd : ∀ x ∈ es.map (·.dl), x < 2 ^ bitsLen c.maxDef := by
    intro x hx'
    obtain ⟨e, he, rfl⟩ := List.mem_map.mp hx'
    exact Nat.lt_of_le_of_lt (hx e he) (lt_two_pow_bitsLen _)
  obtain ⟨p, hp, h⟩ := readLevels_any_segmentation (bitsLen c.maxDef) hwd (cfg.padv % 2 ^ bitsLen c.maxDef)
    (Nat.mod_lt _ (Nat.two_pow_pos _)) (es.length + 1) cs (es.map (·.dl)) hd (by simp) (by simpa using hlen) []
    (plainValues c.ty (nonNull es))
  refine ⟨p, _, hp, by simpa using h, ?_⟩
  rw [List.drop_left]

/-! ## 3. every snappy stream the encoder can emit -/

/-- what `matchLen` establishes: a copy of at most `matchLen` bytes from back-offset `off`, executed
byte by byte (so it may overlap its own output), reproduces the upcoming input bytes -/
theorem matchLen_spec (hist rest : Bytes) (off cap : Nat) (ho : 1 ≤ off) :
    matchLen hist rest off cap ≤ cap ∧ matchLen hist rest off cap ≤ rest.length
    ∧ ∀ len, len ≤ matchLen hist rest off cap → copyN off len hist = hist ++ rest.take len :=
  PQ.matchLen_spec hist rest off cap ho

/-- the decoder inverts the encoding of one valid element (literal of 1..65536 bytes with a 1-, 2- or
3-byte tag; copy with a 1- or 2-byte offset), whatever follows it -/
theorem snappy_element (fuel : Nat) (e : SnEl) (hist tail : Bytes) (h : e.OK hist) :
    snappyBody (fuel + 1) (e.enc ++ tail) hist = snappyBody fuel tail (e.expand hist) :=
  PQ.snappyBody_el fuel e hist tail h

/-- **Every stream the nondeterministic snappy encoder can emit decodes to its input**: any cut into
literals and back-reference copies (overlapping copies included), for every choice stream and every
input (no hypothesis on the bytes or the length is needed). -/
theorem snappy_roundtrip (cs : Choices) (raw : Bytes) : snappyDecode (snappyEncode cs raw) = some raw :=
  PQ.snappyDecode_encode cs raw

/-! ## 4. unknown / optional thrift fields are skipped -/

/-- the field accessors ignore an appended field with another id -/
theorem unknown_fields_skipped (fs : List (Nat × TVal)) (id id' : Nat) (v : TVal) (h : id' ≠ id) :
    getI32 (fs ++ [(id', v)]) id = getI32 fs id ∧ getI64 (fs ++ [(id', v)]) id = getI64 fs id
    ∧ getBin (fs ++ [(id', v)]) id = getBin fs id ∧ getList (fs ++ [(id', v)]) id = getList fs id
    ∧ getStruct (fs ++ [(id', v)]) id = getStruct fs id := by
  have hl : (fs ++ [(id', v)]).lookup id = fs.lookup id := by
    have := PQ.lookup_insert fs [(id', v)] [] id (by simpa using h)
    simpa using this
  simp only [getI32, getI64, getBin, getList, getStruct, hl, and_self]

/-- … and any number of fields with other ids inserted anywhere in the struct -/
theorem unknown_fields_skipped_anywhere (fs1 extra fs2 : List (Nat × TVal)) (id : Nat)
    (h : ∀ p ∈ extra, p.1 ≠ id) :
    (fs1 ++ extra ++ fs2).lookup id = (fs1 ++ fs2).lookup id
    ∧ getI32 (fs1 ++ extra ++ fs2) id = getI32 (fs1 ++ fs2) id
    ∧ getI64 (fs1 ++ extra ++ fs2) id = getI64 (fs1 ++ fs2) id
    ∧ getBin (fs1 ++ extra ++ fs2) id = getBin (fs1 ++ fs2) id
    ∧ getList (fs1 ++ extra ++ fs2) id = getList (fs1 ++ fs2) id
    ∧ getStruct (fs1 ++ extra ++ fs2) id = getStruct (fs1 ++ fs2) id := by
  have hl := PQ.lookup_insert fs1 extra fs2 id h
  simp only [getI32, getI64, getBin, getList, getStruct, hl, and_self]

/-- **`PageHeader.Read` ignores unknown fields**: extra fields whose ids are not page-header fields the
reader looks at, inserted anywhere, do not change the decoded header -/
theorem page_header_unknown_fields (fs1 extra fs2 : List (Nat × TVal))
    (h : ∀ p ∈ extra, p.1 ∉ [1, 2, 3, 5, 6, 7, 8]) :
    decPHdr (.struct (fs1 ++ extra ++ fs2)) = decPHdr (.struct (fs1 ++ fs2)) := by
  apply PQ.decPHdr_congr
  intro id hid
  exact PQ.lookup_insert fs1 extra fs2 id (fun p hp e => h p hp (e ▸ hid))

/-- … and from the bytes: the generic thrift decoder reads the whole well-formed struct, unknown
fields included, consuming exactly its bytes, and the header the reader extracts is that of the struct
without them -/
theorem page_header_bytes_unknown_fields (fs1 extra fs2 : List (Nat × TVal))
    (hwf : (TVal.struct (fs1 ++ extra ++ fs2)).WF) (h : ∀ p ∈ extra, p.1 ∉ [1, 2, 3, 5, 6, 7, 8])
    (fuel : Nat) (rest : Bytes) (hfuel : (TVal.struct (fs1 ++ extra ++ fs2)).size ≤ fuel) :
    ∃ t, decVal tStruct fuel ((TVal.struct (fs1 ++ extra ++ fs2)).enc ++ rest) = some (t, rest)
      ∧ decPHdr t = decPHdr (.struct (fs1 ++ fs2)) :=
  ⟨_, PQ.Thrift.decVal_enc _ hwf fuel rest hfuel, page_header_unknown_fields fs1 extra fs2 h⟩

/-- unknown fields inside the nested `DataPageHeader` (field 5) are ignored as well -/
theorem data_page_header_unknown_fields (fs1 fs2 d1 extra d2 : List (Nat × TVal))
    (h : ∀ p ∈ extra, p.1 ∉ [1, 2, 3, 4, 5]) :
    decPHdr (.struct (fs1 ++ (5, .struct (d1 ++ extra ++ d2)) :: fs2))
      = decPHdr (.struct (fs1 ++ (5, .struct (d1 ++ d2)) :: fs2)) := by
  have hl : ∀ id ∈ [1, 2, 3, 4, 5], (d1 ++ extra ++ d2).lookup id = (d1 ++ d2).lookup id :=
    fun id hid => PQ.lookup_insert d1 extra d2 id (fun p hp e => h p hp (e ▸ hid))
  exact (PQ.decPHdr_replace_dph fs1 fs2 (d1 ++ d2) (d1 ++ extra ++ d2)
    (fun id hid => hl id (by simp at hid ⊢; omega))).2 (hl 5 (by simp))

/-- **`FileMetaData.Read` ignores unknown and optional fields** (`key_value_metadata`, `created_by`,
anything with an id other than 1–4) -/
theorem footer_unknown_fields (fs1 extra fs2 : List (Nat × TVal))
    (h : ∀ p ∈ extra, p.1 ∉ [1, 2, 3, 4]) :
    decFMD (.struct (fs1 ++ extra ++ fs2)) = decFMD (.struct (fs1 ++ fs2)) := by
  have hl : ∀ id ∈ [1, 2, 3, 4], (fs1 ++ extra ++ fs2).lookup id = (fs1 ++ fs2).lookup id :=
    fun id hid => PQ.lookup_insert fs1 extra fs2 id (fun p hp e => h p hp (e ▸ hid))
  simp only [decFMD, TVal.fieldsOf, getI32, getI64, getList, hl 1 (by simp), hl 2 (by simp),
    hl 3 (by simp), hl 4 (by simp)]

/-- **`ColumnMetaData.Read` ignores unknown and optional fields** (statistics, key/value metadata,
index/dictionary offsets, anything with an id other than 1–7 and 9) -/
theorem column_meta_unknown_fields (fs1 extra fs2 : List (Nat × TVal))
    (h : ∀ p ∈ extra, p.1 ∉ [1, 2, 3, 4, 5, 6, 7, 9]) :
    decColMeta (fs1 ++ extra ++ fs2) = decColMeta (fs1 ++ fs2) := by
  have hl : ∀ id ∈ [1, 2, 3, 4, 5, 6, 7, 9], (fs1 ++ extra ++ fs2).lookup id = (fs1 ++ fs2).lookup id :=
    fun id hid => PQ.lookup_insert fs1 extra fs2 id (fun p hp e => h p hp (e ▸ hid))
  simp only [decColMeta, getI32, getI64, getList, hl 1 (by simp), hl 2 (by simp), hl 3 (by simp),
    hl 4 (by simp), hl 5 (by simp), hl 6 (by simp), hl 7 (by simp), hl 9 (by simp)]

/-! ## 5. statistics are never used -/

/-- **A page header with and without the statistics field** (field 5 of the data page header, inserted
anywhere in it, any value) **decodes to the same type, sizes, `num_values` and encodings** and the same
dictionary / index / v2 flags; decoding succeeds for one iff it does for the other. -/
theorem statistics_irrelevant (fs1 fs2 d1 d2 : List (Nat × TVal)) (st : TVal) :
    (decPHdr (.struct (fs1 ++ (5, .struct (d1 ++ (5, st) :: d2)) :: fs2))).map
        (fun p => (p.ty, p.uncompressed, p.compressed,
          p.dph.map (fun q => (q.1, q.2.1, q.2.2.1, q.2.2.2.1)), p.hasDict, p.hasIndex, p.hasV2))
      = (decPHdr (.struct (fs1 ++ (5, .struct (d1 ++ d2)) :: fs2))).map
        (fun p => (p.ty, p.uncompressed, p.compressed,
          p.dph.map (fun q => (q.1, q.2.1, q.2.2.1, q.2.2.2.1)), p.hasDict, p.hasIndex, p.hasV2)) := by
  have hl : ∀ id ∈ [1, 2, 3, 4], (d1 ++ (5, st) :: d2).lookup id = (d1 ++ d2).lookup id := by
    intro id hid
    have := PQ.lookup_insert d1 [(5, st)] d2 id (by
      intro p hp e
      rw [List.mem_singleton.mp hp] at e
      simp only at e; subst e; simp at hid)
    simpa using this
  exact (PQ.decPHdr_replace_dph fs1 fs2 (d1 ++ d2) (d1 ++ (5, st) :: d2) hl).1

/-- **Reader level**: everything the reader computes from a page header — the page check, the number of
values, and the page data it reads and decompresses — is the same with and without statistics. -/
theorem statistics_irrelevant_reader (fs1 fs2 d1 d2 : List (Nat × TVal)) (st : TVal) (ph : PHdr)
    (h : decPHdr (.struct (fs1 ++ (5, .struct (d1 ++ (5, st) :: d2)) :: fs2)) = some ph) :
    ∃ ph', decPHdr (.struct (fs1 ++ (5, .struct (d1 ++ d2)) :: fs2)) = some ph'
      ∧ (∀ defs reps, checkPage ph' defs reps = checkPage ph defs reps)
      ∧ numValuesOf ph' = numValuesOf ph
      ∧ ∀ dc s codec, pageData dc s ph' codec = pageData dc s ph codec := by
  have hs := statistics_irrelevant fs1 fs2 d1 d2 st
  rw [h] at hs
  cases h' : decPHdr (.struct (fs1 ++ (5, .struct (d1 ++ d2)) :: fs2)) with
  | none => rw [h'] at hs; simp at hs
  | some ph' =>
    rw [h'] at hs
    simp only [Option.map_some, Option.some.injEq, Prod.mk.injEq] at hs
    obtain ⟨e1, e2, e3, e4, _⟩ := hs
    refine ⟨ph', rfl, ?_, ?_, ?_⟩
    · intro defs reps
      unfold checkPage
      rw [e1]
      cases hd : ph.dph <;> cases hd' : ph'.dph <;> simp_all
    · unfold numValuesOf
      cases hd : ph.dph <;> cases hd' : ph'.dph <;> simp_all
    · intro dc s codec
      unfold pageData
      rw [e2, e3]

/-! ## non-vacuity -/
section NonVacuity

/-- 13 levels of width 2 -/
def xs13 : List Nat := [1, 1, 1, 0, 2, 3, 1, 0, 2, 2, 1, 3, 3]

theorem xs13_hyps : (1 ≤ 2 ∧ 2 ≤ 4) ∧ (2 < 2 ^ 2) ∧ (∀ x ∈ xs13, x < 2 ^ 2) ∧ xs13.length ≤ 14
    ∧ xs13.length + 8 ≤ 2 ^ 28 := by decide

/-- one choice stream: an RLE run of 3, a bit-packed run of one group, an RLE run of 2 -/
example : (segment 2 14 [0, 2, 3, 0, 0, 1] xs13).1
    = [.rle 3 1, .packed [[0, 2, 3, 1, 0, 2, 2, 1]], .rle 2 3] := by decide

/-- another choice stream for the same levels: an RLE run of 3, then one bit-packed run of two groups,
the last one padded with six 2s -/
example : (segment 2 14 [0, 2, 1, 0] xs13).1
    = [.rle 3 1, .packed [[0, 2, 3, 1, 0, 2, 2, 1], [3, 3, 2, 2, 2, 2, 2, 2]]] := by decide

/-- an exhausted choice stream picks 0 everywhere: RLE runs of a single level each (legal, and never
produced by the library's own encoder) -/
example : (segment 2 14 [] [0, 0, 1]).1 = [.rle 1 0, .rle 1 0, .rle 1 1] := by decide

/-- the library decoder on both segmentations (theorem 2), with arbitrary bytes following -/
example : ∃ pad, pad < 8 ∧
    implDecode 2 (levelSection 2 (segment 2 14 [0, 2, 3, 0, 0, 1] xs13).1 ++ [9, 9])
      = .ok (xs13 ++ List.replicate pad 2, (levelSection 2 (segment 2 14 [0, 2, 3, 0, 0, 1] xs13).1).length) :=
  levels_any_segmentation 2 xs13_hyps.1 2 xs13_hyps.2.1 14 _ xs13 xs13_hyps.2.2.1 xs13_hyps.2.2.2.1
    xs13_hyps.2.2.2.2 [9, 9]

example : ∃ pad, pad < 8 ∧
    readLevelsAt 2 ([5] ++ levelSection 2 (segment 2 14 [0, 2, 1, 0] xs13).1 ++ [9, 9]) [5].length
      = .ok (xs13 ++ List.replicate pad 2, (levelSection 2 (segment 2 14 [0, 2, 1, 0] xs13).1).length) :=
  readLevels_any_segmentation 2 xs13_hyps.1 2 xs13_hyps.2.1 14 _ xs13 xs13_hyps.2.2.1 xs13_hyps.2.2.2.1
    xs13_hyps.2.2.2.2 [5] [9, 9]

/-- the bytes of the second segmentation: length 7; RLE header 6 = 3<<1, value 1; bit-packed header
5 = 2<<1|1, four bytes -/
example : levelSection 2 (segment 2 14 [0, 2, 1, 0] xs13).1 = [7, 0, 0, 0, 6, 1, 5, 0x78, 0x68, 0xaf, 0xaa] := by
  have h6 : uleb 6 = [6] := by rw [uleb]; simp
  have h5 : uleb 5 = [5] := by rw [uleb]; simp
  have hs : (segment 2 14 [0, 2, 1, 0] xs13).1
      = [.rle 3 1, .packed [[0, 2, 3, 1, 0, 2, 2, 1], [3, 3, 2, 2, 2, 2, 2, 2]]] := by decide
  rw [hs]
  simp [levelSection, serRuns, Run.ser, h6, h5, le32, leBytes, packSpec]
  decide

/-- a snappy choice stream producing a literal, an *overlapping* copy (offset 1, length 5) and a literal -/
def raw7 : Bytes := [7, 7, 7, 7, 7, 7, 9]

example : snappyElems 8 [0, 0, 2, 0, 0, 0] [] raw7 = [.lit [7], .copy 1 5, .lit [9]] := by rfl

example : snappyEncode [0, 0, 2, 0, 0, 0] raw7 = [7, 0, 7, 5, 1, 0, 9] := by
  have h7 : uleb 7 = [7] := by rw [uleb]; simp
  have he : snappyElems 8 [0, 0, 2, 0, 0, 0] [] raw7 = [.lit [7], .copy 1 5, .lit [9]] := by rfl
  simp only [snappyEncode, raw7, List.length_cons, List.length_nil] at he ⊢
  rw [h7, he]
  rfl

/-- the specification decoder on that stream, evaluated -/
example : snappyDecode [7, 0, 7, 5, 1, 0, 9] = some raw7 := by decide

/-- … and through the theorem -/
example : snappyDecode (snappyEncode [0, 0, 2, 0, 0, 0] raw7) = some raw7 := snappy_roundtrip _ _

/-- the overlapping copy itself: from one byte of history, offset 1, five bytes -/
example : copyN 1 5 [7] = [7, 7, 7, 7, 7, 7] ∧ matchLen [7] [7, 7, 7, 7, 7, 9] 1 64 = 5 := by decide

/-- the spec writer's own extra page-header field (id 100) and a statistics struct are skipped -/
example : decPHdr (.struct ([(1, .int 5 0), (2, .int 5 10), (3, .int 5 10),
      (5, .struct ([(1, .int 5 3), (2, .int 5 0), (3, .int 5 3), (4, .int 5 3)] ++ extraField ++ []))] ++ extraField ++ []))
    = decPHdr (.struct ([(1, .int 5 0), (2, .int 5 10), (3, .int 5 10),
      (5, .struct ([(1, .int 5 3), (2, .int 5 0), (3, .int 5 3), (4, .int 5 3)] ++ []))] ++ [])) := by
  rw [page_header_unknown_fields _ extraField _ (by decide)]
  exact data_page_header_unknown_fields [(1, .int 5 0), (2, .int 5 10), (3, .int 5 10)] []
    [(1, .int 5 3), (2, .int 5 0), (3, .int 5 3), (4, .int 5 3)] extraField [] (by decide)

example : (decPHdr (.struct [(1, .int 5 0), (2, .int 5 10), (3, .int 5 10),
      (5, .struct [(1, .int 5 3), (2, .int 5 0), (3, .int 5 3), (4, .int 5 3)])])).isSome = true := by decide

end NonVacuity

end PQ.C04
