import PQ.Model.SpecWriter
