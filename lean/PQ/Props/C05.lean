import PQ.Props.C02
import PQ.Props.C03
/-!
# C05 — parquetgen never emits silently wrong code for any documented struct shape

What is proved is about the *generic* model: for **every** struct shape (every field forest) and all
values, the model writer's file validates and contains exactly the written records
(`PQ.C02.file_valid`), the stored levels are the canonical striping and assemble back
(`PQ.C03.assemble_stripe`).  What ties a concrete shape to the model is per-program validation
(the check runs today's parquetgen on every shape of the corpus, compiles the output and compares
the generated writer/reader with the model on structurally enumerated values): the theorem covers
all schemas and values of the model, the validation establishes, shape by shape, that the generated
program is an instance of it.  A Lean model of the generator's string synthesis (`fields.Init`) is
not attempted: it would be a model of a heuristic whose full-strength claim is false of the code
(known findings).
-/
namespace PQ.C05

/-- the generic model is correct for every shape: validity and content of every written file -/
theorem model_valid_for_every_shape (dc : Decomp) (k : Codec) (ts : List FTree) (hwf : ∀ t ∈ ts, t.WF) (hsd : SiblingsDistinct ts)
    (max : Nat) (body : List Op) (hmax : 1 ≤ max) (hcols : colsOf ts ≠ []) (hbody : ∀ op ∈ body, op.isClose = false)
    (hrec : ∀ r, Op.add r ∈ body → r.length = (colsOf ts).length ∧ ∀ x ∈ (colsOf ts).zipIdx, RecColOK x.1 (r.getD x.2 []))
    (hdef : ∀ c ∈ colsOf ts, c.maxDef ≤ 15)
    (hlen : ∀ b ∈ batches body, ∀ x ∈ (colsOf ts).zipIdx, (b.flatMap (·.getD x.2 [])).length + 8 ≤ 2 ^ 30)
    (hcodec : ∀ raw, CodecOK dc k (k.id : Int) raw)
    (hsize : (fileBytes (runWriter (colsOf ts) max k (body ++ [Op.close]))).length < 2 ^ 32) :
    ∃ f, parseFile dc (colsOf ts) max (fileBytes (runWriter (colsOf ts) max k (body ++ [Op.close]))) = .ok f ∧
      f.rowGroups.map (fun rg => rg.chunks.map (·.entries)) =
        (batches body).map (fun b => (List.range (colsOf ts).length).map fun i => b.flatMap (·.getD i [])) := by
  obtain ⟨f, h, _, _, _, h5⟩ := PQ.C02.file_valid dc k ts hwf hsd max body hmax hcols hbody hrec hdef hlen hcodec hsize
  exact ⟨f, h, h5⟩

/-- striping is lossless for every shape -/
theorem striping_lossless_for_every_shape {α : Type} (ts : List Rep) (v : Proj α ts) :
    assembleTop ts (stripeTop ts v) = some (v, []) := PQ.C03.assemble_stripe_nil ts v

end PQ.C05
