import PQ.Props.C03
