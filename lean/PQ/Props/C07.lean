import PQ.Model.Rle
import PQ.Lemmas.BitpackNat
import PQ.Lemmas.RleEnc
import PQ.Lemmas.RleDec
import PQ.Lemmas.RleImpl
import PQ.Lemmas.WriteBuffer
/-!
# C07 — level streams are valid hybrid RLE; encode and decode are inverses

Only the property theorems and their non-vacuity examples live here; the proofs are in
`PQ/Lemmas/{BitpackNat,RleEnc,RleDec,RleImpl,WriteBuffer}.lean`.

* `Enc`/`encode`/`implDecode` mirror `internal/rle/rle.go`; `pack`/`unpack` wrap the regenerated
  tables of `internal/bitpack`; the thresholds 8 / 63 / 8 come from `PQ.Gen.Facts`.
* `Run`, `serRuns` (ULEB128 headers, arithmetic `packSpec`), `Run.WF`, `specDecode` are the
  specification side.
-/
namespace PQ.C07
open PQ

/-- **Encoder, structural half (no hypotheses, every width, every input).**  The encoder's output
is a length prefix followed by a run list in the encoder's own serialisation (`Run.serEnc`: Go's
`leb128`, `valBytes`, the table `pack`, a one-byte bit-packed header); RLE runs have at least 8
repetitions, bit-packed runs 1..63 groups of exactly 8 values; the runs' values are the input followed
by fewer than 8 zeros of padding. -/
theorem encode_struct (w : Nat) (xs : List Nat) :
    ∃ runs pad, encode w xs = le32 (serRunsEnc w runs).length ++ serRunsEnc w runs
      ∧ (∀ r ∈ runs, r.WFs) ∧ runsVals runs = xs ++ List.replicate pad 0 ∧ pad < 8 :=
  PQ.encode_struct w xs

/-- **Encoder emits a valid hybrid RLE stream.**  Against the *specification* serialisation
(`serRuns`: ULEB128 headers, `⌈w/8⌉` value bytes, LSB-first little-endian bit packing).
`hx` is needed because `Run.WF`/`Run.WFenc` bound the values; `hlen` keeps RLE headers inside the
32-bit loop test of Go's `leb128` (beyond it `leb128 ≠ uleb`). -/
theorem encode_wf (w : Nat) (xs : List Nat) (hw : 1 ≤ w ∧ w ≤ 4)
    (hx : ∀ x ∈ xs, x < 2 ^ w) (hlen : xs.length + 8 ≤ 2 ^ 30) :
    ∃ runs pad, encode w xs = le32 (serRuns w runs).length ++ serRuns w runs
      ∧ (∀ r ∈ runs, r.WFenc w) ∧ (∀ r ∈ runs, r.WF w)
      ∧ runsVals runs = xs ++ List.replicate pad 0 ∧ pad < 8 := by
  obtain ⟨runs, pad, henc, hs, hb, hv, hp⟩ := PQ.encode_runs w hw xs hx hlen
  exact ⟨runs, pad, henc, fun r hr => wfenc_of w r (hs r hr) (hb r hr),
    fun r hr => wf_of w r (hs r hr) (hb r hr), hv, hp⟩

/-- **The specification decoder inverts the encoder** and consumes exactly the encoder's bytes. -/
theorem spec_decode_encode (w : Nat) (hw : 1 ≤ w ∧ w ≤ 4) (xs : List Nat)
    (hx : ∀ x ∈ xs, x < 2 ^ w) (hlen : xs.length + 8 ≤ 2 ^ 30) :
    ∃ pad, pad < 8 ∧
      specDecode w (encode w xs) = some (xs ++ List.replicate pad 0, (encode w xs).length) :=
  PQ.spec_decode_encode w hw xs hx hlen

/-- the specification decoder accepts every well-formed stream (every width, any run mix) -/
theorem spec_decode_wf (w : Nat) (runs : List Run) (hwf : ∀ r ∈ runs, r.WF w)
    (hsz : (serRuns w runs).length < 2 ^ 32) (rest : Bytes) :
    specDecode w (le32 (serRuns w runs).length ++ (serRuns w runs ++ rest))
      = some (runsVals runs, 4 + (serRuns w runs).length) :=
  PQ.specDecode_ser w runs hwf hsz rest

/-- **The library decoder (`RLE.Read`) accepts every well-formed stream**: any mix of run kinds and
lengths, bit-packed runs with more than 63 groups and multi-byte ULEB128 headers, RLE runs of any count
below 2^63 (`hcnt`: the header `count << 1` must fit `readLEB128`'s `uint64` accumulator, whose
shifts silently drop higher bits), and returns the runs' values and exactly the stream's size.
`hsz` is the `int32` length prefix (a negative length panics in `make`). -/
theorem impl_decode_wf (w : Nat) (hw : 1 ≤ w ∧ w ≤ 4) (runs : List Run) (hwf : ∀ r ∈ runs, r.WF w)
    (hcnt : ∀ c v, Run.rle c v ∈ runs → c < 2 ^ 63)
    (hsz : (serRuns w runs).length < 2 ^ 31) (rest : Bytes) :
    implDecode w (le32 (serRuns w runs).length ++ serRuns w runs ++ rest)
      = .ok (runsVals runs, 4 + (serRuns w runs).length) :=
  PQ.implDecode_ser w hw runs hwf hcnt hsz rest

/-- **The library decoder inverts the library encoder**, whatever follows the level section. -/
theorem impl_decode_encode (w : Nat) (hw : 1 ≤ w ∧ w ≤ 4) (xs : List Nat)
    (hx : ∀ x ∈ xs, x < 2 ^ w) (hlen : xs.length + 8 ≤ 2 ^ 30) (rest : Bytes) :
    ∃ pad, pad < 8 ∧
      implDecode w (encode w xs ++ rest) = .ok (xs ++ List.replicate pad 0, (encode w xs).length) :=
  PQ.impl_decode_encode w hw xs hx hlen rest

/-- the generated bit-packing tables are the specification layout (used above; restated from
`PQ/Lemmas/BitpackNat.lean`) -/
theorem pack_is_spec (w : Nat) (hw : 1 ≤ w ∧ w ≤ 4) (g : List Nat) (hl : g.length = 8) :
    pack w g = packSpec w g := PQ.pack_eq_packSpec' w hw g hl

/-- Go's `leb128` (loop test on the low 32 bits) is ULEB128 below 2^32 -/
theorem leb128_is_uleb (n : Nat) (hn : n < 2 ^ 32) : leb128 n = uleb n := PQ.leb128_eq_uleb n hn

/-- **`writeBuffer.writeAt` is "overwrite or extend at `off`"** for `off ≤ size()` (the encoder only
appends at `size()` or back-patches one header byte below it), preserves `i ≤ len(d)`, and moves
`size()` to `max`. `Enc.out` with `++` / `List.set` is this abstraction (`write_appends`,
`backpatch_is_set`). -/
theorem writeBuffer_abs (wb : WriteBuffer) (dat : Bytes) (off : Nat) (hwf : wb.WF) (hoff : off ≤ wb.i) :
    (wb.writeAt dat off).bytes = WriteBuffer.overwrite wb.bytes dat off ∧ (wb.writeAt dat off).WF
      ∧ (wb.writeAt dat off).size = max wb.size (off + dat.length) :=
  WriteBuffer.writeAt_abs wb dat off hwf hoff

theorem write_appends (wb : WriteBuffer) (dat : Bytes) (hwf : wb.WF) :
    (wb.write dat).bytes = wb.bytes ++ dat ∧ (wb.write dat).WF
      ∧ (wb.write dat).size = wb.size + dat.length :=
  WriteBuffer.write_abs wb dat hwf

theorem backpatch_is_set (wb : WriteBuffer) (b p : Nat) (hwf : wb.WF) (hp : p < wb.i) :
    (wb.writeAt [b] p).bytes = wb.bytes.set p b ∧ (wb.writeAt [b] p).WF
      ∧ (wb.writeAt [b] p).size = wb.size :=
  WriteBuffer.writeAt_one_abs wb b p hwf hp

/-- the back-patched position is always inside the buffer in reachable encoder states -/
theorem header_in_bounds (w : Nat) (xs : List Nat) (p : Nat)
    (hp : (xs.foldl Enc.write { w := w }).headerPointer = some p) :
    p < (xs.foldl Enc.write { w := w }).out.length :=
  PQ.reachable_header_lt w xs p hp

/-! ## non-vacuity -/
section NonVacuity
open PQ.Gen

/-- 20 levels of width 2: a bit-packed group, an RLE run of 10, a padded bit-packed group -/
def xs20 : List Nat := [1, 2, 3, 0, 1, 2, 3, 0] ++ List.replicate 10 3 ++ [1, 2]

theorem xs20_hyps : (1 ≤ 2 ∧ 2 ≤ 4) ∧ (∀ x ∈ xs20, x < 2 ^ 2) ∧ xs20.length + 8 ≤ 2 ^ 30 := by decide

/-- what the encoder emits for `xs20` (evaluated): length 8; packed header 3, two bytes; RLE header
20 = 10<<1, value 3; packed header 3, two bytes (values 1,2 and six zeros of padding) -/
example : encode 2 xs20 = [8, 0, 0, 0, 3, 0x39, 0x39, 20, 3, 3, 0x09, 0] := by
  have h20 : leb128 20 = [20] := by rw [leb128]; decide
  simp [encode, xs20, Enc.write, Enc.push, Enc.flushGroup, Enc.endPrev, Enc.writeRLERun, Enc.bytes,
    h20, valBytes, pack, Bitpack.pack2, bv, le32, leBytes, Facts.rleGroupSize, Facts.rleMaxGroups,
    Facts.rleRepeatThreshold, List.replicate]

example : ∃ pad, pad < 8 ∧
    specDecode 2 (encode 2 xs20) = some (xs20 ++ List.replicate pad 0, (encode 2 xs20).length) :=
  spec_decode_encode 2 xs20_hyps.1 xs20 xs20_hyps.2.1 xs20_hyps.2.2

example : ∃ pad, pad < 8 ∧
    implDecode 2 (encode 2 xs20 ++ [7, 7]) = .ok (xs20 ++ List.replicate pad 0, (encode 2 xs20).length) :=
  impl_decode_encode 2 xs20_hyps.1 xs20 xs20_hyps.2.1 xs20_hyps.2.2 [7, 7]

/-- a foreign stream: 70 groups (two-byte header `8d 01`), a short RLE run (count 3 < 8), a long one
(three-byte header), a single group -/
def runsEx : List Run :=
  [.packed (List.replicate 70 [0, 1, 2, 3, 3, 2, 1, 0]), .rle 3 1, .rle 100000 2, .packed [[1, 1, 1, 1, 1, 1, 1, 1]]]

theorem runsEx_wf : ∀ r ∈ runsEx, r.WF 2 := by
  intro r hr
  simp only [runsEx, List.mem_cons, List.not_mem_nil, or_false] at hr
  rcases hr with rfl | rfl | rfl | rfl
  · refine ⟨by simp, ?_⟩
    intro g hg
    rw [(List.mem_replicate.mp hg).2]
    decide
  · exact ⟨by omega, by omega⟩
  · exact ⟨by omega, by omega⟩
  · exact ⟨by simp, by decide⟩

theorem runsEx_cnt : ∀ c v, Run.rle c v ∈ runsEx → c < 2 ^ 63 := by
  intro c v hr
  simp only [runsEx, List.mem_cons, List.not_mem_nil, or_false] at hr
  rcases hr with h | h | h | h
  · cases h
  · cases h; omega
  · cases h; omega
  · cases h

theorem runsEx_size : (serRuns 2 runsEx).length = 151 := by
  have h141 : uleb 141 = [141, 1] := by rw [uleb]; simp; rw [uleb]; simp
  have h6 : uleb 6 = [6] := by rw [uleb]; simp
  have h3 : uleb 3 = [3] := by rw [uleb]; simp
  have h2 : uleb 200000 = [192, 154, 12] := by
    rw [uleb]; simp; rw [uleb]; simp; rw [uleb]; simp
  simp [serRuns, runsEx, Run.ser, h141, h6, h3, h2, leBytes_length, PQ.packSpec_length]

example : implDecode 2 (le32 (serRuns 2 runsEx).length ++ serRuns 2 runsEx ++ [9])
    = .ok (runsVals runsEx, 4 + (serRuns 2 runsEx).length) :=
  impl_decode_wf 2 (by omega) runsEx runsEx_wf runsEx_cnt (by rw [runsEx_size]; decide) [9]

/-- the guard `hlen` is needed in kind: at 2^32 Go's `leb128` and ULEB128 part ways (an RLE run of
2^31 equal levels would get the header byte `00`) -/
example : leb128 (2 ^ 32) = [0] ∧ uleb (2 ^ 32) = [128, 128, 128, 128, 16] := by
  refine ⟨by rw [leb128]; simp, ?_⟩
  rw [uleb]; simp; rw [uleb]; simp; rw [uleb]; simp; rw [uleb]; simp; rw [uleb]; simp

/-- `writeBuffer`: all three branches are exercised from a fresh 2-byte buffer -/
example : ((((WriteBuffer.new 2).write [1]).write [2, 3]).writeAt [9] 0).bytes = [9, 2, 3] := by decide
example : (WriteBuffer.new 2).WF ∧ 0 ≤ (WriteBuffer.new 2).i := ⟨WriteBuffer.new_wf 2, Nat.zero_le _⟩

end NonVacuity

end PQ.C07
