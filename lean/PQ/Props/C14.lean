import PQ.Model.ParseStruct
