import PQ.Model.ParseStruct
import PQ.Model.Structs
import PQ.Lemmas.ParseStruct
/-!
# C14 — excluded fields are inert and embedding equals inlining

Everything after parsing (code generation, hence the bytes written) is a function of the field tree
`parse.Fields` returns (`PQ.Parse.parseStruct`, compared with the Go function on every run).  So two
sets of struct declarations with the same field tree give the same generated code, hence
byte-identical files for corresponding values.  The theorems below are about that field tree.

* `getFields_insert`, `excluded_inert`: inserting an unexported field, an unexported embedded type,
  or a field tagged `parquet:"-"` (whatever its type, its other tags, its position, and whichever
  declaration it is inserted into) does not change the field tree of any type.
  `getChildren_congr'`: the recursive resolution sees declarations only through their name and
  `getFields`.
* `embed_eq_inline_fuel`, `embed_eq_inline`: moving a run of fields into a new struct type that is
  embedded in their place does not change the field tree.
* `tag_dash_anywhere`: `parquet:"-"` is recognised after other key/value pairs of the tag.
-/
namespace PQ.C14
open PQ.Parse

/-- a field declaration the generator has to ignore: an unexported field, an unexported embedded
type, or a field tagged `parquet:"-"` -/
def Excluded (priv : String → Bool) (x : FieldDecl) : Prop :=
  (∃ n, x.names = [n] ∧ priv n = true) ∨ (x.names = [] ∧ priv (printed x.ty) = true) ∨
  (∃ t, x.tag = some t ∧ parseTag t = "-")

/-- an excluded declaration contributes no field (any type expression, any other tag content) -/
theorem excluded_contributes_nothing (priv : String → Bool) (x : FieldDecl) (hx : Excluded priv x) (name : String) :
    getFields priv { name := name, fields := [x] } = [] := by
  rcases hx with ⟨n, h1, h2⟩ | ⟨h1, h2⟩ | ⟨t, h1, h2⟩
  · exact gf1_private priv x n h1 h2
  · exact gf1_private_embedded priv x h1 h2
  · exact gf1_dash priv x t h1 h2

/-- **inserting an excluded field at any position of a struct leaves its direct fields unchanged** -/
theorem getFields_insert (priv : String → Bool) (d : TypeDecl) (pos : Nat) (x : FieldDecl) (hx : Excluded priv x) :
    getFields priv { d with fields := d.fields.insertIdx pos x } = getFields priv d := by
  have h0 : gf1 priv x = [] := excluded_contributes_nothing priv x hx ""
  rw [getFields_eq_gfl, getFields_eq_gfl]
  rcases insertIdx_eq _ d.fields x pos with h | ⟨a, b, h1, h2⟩
  · rw [h]
  · show gfl priv (d.fields.insertIdx pos x) = _
    rw [h2, h1, gfl_insert priv x h0]

/-- **`getChildren` looks at declarations only through `name` and `getFields`**: replacing
declarations, position by position, by ones with the same name and the same direct fields changes
nothing, for every fuel and every type -/
theorem getChildren_congr' (priv : String → Bool) (ds ds' : List TypeDecl) (h : DeclsEquiv priv ds ds')
    (fuel : Nat) (ty : String) : getChildren priv ds fuel ty = getChildren priv ds' fuel ty :=
  getChildren_congr h fuel ty

/-- **excluded fields are inert**: inserting an excluded field declaration at any position of any
struct declaration (`d`, anywhere in the list — reached through any chain of fields or not at all)
leaves the field tree of every type `typ` unchanged -/
theorem excluded_inert (priv : String → Bool) (A B : List TypeDecl) (d : TypeDecl) (pos : Nat) (x : FieldDecl)
    (hx : Excluded priv x) (typ : String) :
    parseStruct priv (A ++ { d with fields := d.fields.insertIdx pos x } :: B) typ = parseStruct priv (A ++ d :: B) typ := by
  apply parseStruct_congr
  apply DeclsEquiv.append (DeclsEquiv.refl priv A)
  exact ⟨rfl, getFields_insert priv d pos x hx, DeclsEquiv.refl priv B⟩

/-- any number of insertions in any declarations: declarations with the same names and the same
direct fields have the same field trees -/
theorem excluded_inert_many (priv : String → Bool) (ds ds' : List TypeDecl) (h : DeclsEquiv priv ds ds') (typ : String) :
    parseStruct priv ds typ = parseStruct priv ds' typ := parseStruct_congr h typ

/-- A field declaration with several names (`A, B int32`) declares one field per name, each with the
declaration's type and tag: it contributes exactly what the separate declarations `A int32; B int32`
contribute.  (Until fix in `parse.go` such declarations were silently dropped — defect 15 of DESIGN §9.) -/
theorem multi_name_split (priv : String → Bool) (x : FieldDecl) (hn : x.names ≠ []) (name : String) :
    getFields priv { name := name, fields := [x] } =
      getFields priv { name := name, fields := x.names.map fun n => { x with names := [n] } } := by
  rw [getFields_eq_gfl, getFields_eq_gfl]
  show gf1 priv x = _
  rw [gf1_names priv x hn]
  generalize x.names = ns
  induction ns with
  | nil => rfl
  | cons n ns ih =>
    rw [List.map_cons, gfl_cons, ← ih, gf1_single priv { x with names := [n] } n rfl, List.filterMap_cons]
    have e : ∀ m, getField m { x with names := [n] } = getField m x := fun m => rfl
    rw [e]
    by_cases h1 : priv n = true
    · simp [h1]
    · by_cases h2 : (getField n x).2 = true <;> simp [h1, h2]

/-- **embedding = inlining, fuel explicit.**  `d = struct s { pre; run; post }` is replaced by
`struct s { pre; En; post }` and `struct En { run }` is added.  `en` is a new type name: exported,
not a primitive type name, not used as the type of a field (`hunused`; otherwise a field that was
dropped as "unsupported type" would start to resolve).  The declarations are acyclic with depth
bound `rank`.  Then `getChildren` returns the same tree for every type other than `en` itself,
provided the fuel exceeds the depth (one more level for the new declarations: the hop through `En`).
No restriction on `run`: it may contain embedded fields, excluded fields, anything. -/
theorem embed_eq_inline_fuel (priv : String → Bool) (A B : List TypeDecl) (s en : String) (pre run post : List FieldDecl)
    (rank : String → Nat)
    (hunused : ∀ x ∈ A ++ { name := s, fields := pre ++ run ++ post } :: B, ∀ c ∈ getFields priv x, c.ty ≠ en)
    (hpriv : priv en = false) (hprim : primitives.contains en = false) (hdash : en ≠ "-")
    (hr : Ranked priv (A ++ { name := s, fields := pre ++ run ++ post } :: B) rank)
    (ty : String) (hne : ty ≠ en) (f f' : Nat) (hf : rank ty < f) (hf' : rank ty + 1 < f') :
    getChildren priv ({ name := en, fields := run } ::
        (A ++ { name := s, fields := pre ++ [{ names := [], ty := .ident en, tag := none }] ++ post } :: B)) f' ty
      = getChildren priv (A ++ { name := s, fields := pre ++ run ++ post } :: B) f ty :=
  embed_getChildren priv A B s en pre run post rank hunused hpriv hprim hdash hr (rank ty + 1) ty (Nat.lt_succ_self _) hne f f' hf
    (by split <;> omega)

/-- **embedding = inlining** for `parse.Fields`: under the depth hypothesis `rank typ ≤ decls.length`
(the fuel `decls.length + 1` of `parseStruct` suffices for the original declarations; Go recurses
without a bound and does not terminate on cyclic declarations) -/
theorem embed_eq_inline (priv : String → Bool) (A B : List TypeDecl) (s en : String) (pre run post : List FieldDecl)
    (rank : String → Nat)
    (hunused : ∀ x ∈ A ++ { name := s, fields := pre ++ run ++ post } :: B, ∀ c ∈ getFields priv x, c.ty ≠ en)
    (hpriv : priv en = false) (hprim : primitives.contains en = false) (hdash : en ≠ "-")
    (hr : Ranked priv (A ++ { name := s, fields := pre ++ run ++ post } :: B) rank)
    (typ : String) (hne : typ ≠ en)
    (hdepth : rank typ ≤ (A ++ { name := s, fields := pre ++ run ++ post } :: B : List TypeDecl).length) :
    parseStruct priv ({ name := en, fields := run } ::
        (A ++ { name := s, fields := pre ++ [{ names := [], ty := .ident en, tag := none }] ++ post } :: B)) typ
      = parseStruct priv (A ++ { name := s, fields := pre ++ run ++ post } :: B) typ := by
  unfold parseStruct
  apply embed_eq_inline_fuel priv A B s en pre run post rank hunused hpriv hprim hdash hr typ hne
  · omega
  · simp only [List.length_cons, List.length_append] at hdepth ⊢; omega

/-- the exportedness test `parse.go` uses in the working tree is one the extractor recognises as
"first rune is `_` or a letter that is not upper case" (`isPrivateUpper` is its model) -/
theorem exported_test_recognised : PQ.Gen.Facts.exportedTest = "IsExported" := by decide

/-- for the working tree's exported-ness test the side conditions on `en` follow from `en` being a
capitalised identifier: `isPrivateUpper en = false` already excludes the primitive type names (all
lower case); `"-"` is not excluded by it and stays a hypothesis -/
theorem upper_not_primitive (en : String) (h : isPrivateUpper en = false) : primitives.contains en = false := by
  cases hc : primitives.contains en with
  | false => rfl
  | true =>
    have hm : en ∈ primitives := by simpa using hc
    simp only [primitives, List.mem_cons, List.mem_nil_iff, or_false] at hm
    rcases hm with h' | h' | h' | h' | h' | h' | h' | h' <;> (rw [h'] at h; revert h; decide)

/-- **`parquet:"-"` is found after other key/value pairs**: for a tag `pre ++ parquet:"-" ++ post`
where `parquet:"` does not occur in `pre` (e.g. `` `json:"x" parquet:"-"` ``), `parseTag` is `"-"` -/
theorem tag_dash_anywhere (pre post : String) (hpre : ¬ "parquet:\"".toList <:+: pre.toList) :
    parseTag (pre ++ "parquet:\"-\"" ++ post) = "-" := by
  have := parseTag_spec (pre ++ "parquet:\"-\"" ++ post) pre.toList ['-'] post.toList
    (by simp only [String.toList_append]
        have : "parquet:\"-\"".toList = tagSep ++ (['-'] ++ ['"']) := by decide
        rw [this]; simp)
    hpre (by decide) (by decide)
  rw [this]

/-- the field is then dropped, whatever else the tag says -/
theorem tag_dash_excluded (priv : String → Bool) (pre post : String) (hpre : ¬ "parquet:\"".toList <:+: pre.toList)
    (names : List String) (ty : TExpr) :
    Excluded priv { names := names, ty := ty, tag := some (pre ++ "parquet:\"-\"" ++ post) } :=
  Or.inr (Or.inr ⟨_, rfl, tag_dash_anywhere pre post hpre⟩)

/-! ## Examples: the repository's `Person` (parquet_test.go) -/

section examples

def fd (n : String) (ty : TExpr) (tag : String) : FieldDecl := { names := [n], ty := ty, tag := some tag }

def being : TypeDecl := { name := "Being", fields :=
  [fd "ID" (.ident "int32") "parquet:\"id\"", fd "Name" (.ident "string") "parquet:\"name\"",
   fd "Age" (.star (.ident "int32")) "parquet:\"age\""] }

def hobby : TypeDecl := { name := "Hobby", fields :=
  [fd "Name" (.ident "string") "parquet:\"name\"", fd "Difficulty" (.star (.ident "int32")) "parquet:\"difficulty\""] }

/-- `Person` as declared: embedded `Being`, `Secret` tagged `parquet:"-"` (after a json pair), an
unexported field of an arbitrary type, an untagged field -/
def personFields (mid : List FieldDecl) : List FieldDecl :=
  mid ++
  [fd "Happiness" (.ident "int64") "parquet:\"happiness\"",
   fd "Code" (.star (.ident "string")) "parquet:\"code\"",
   fd "Hobby" (.star (.ident "Hobby")) "parquet:\"hobby\"",
   fd "Friends" (.arr (.ident "Being")) "parquet:\"friends\"",
   { names := ["Sleepy"], ty := .ident "bool", tag := none }]

def secret : FieldDecl := fd "Secret" (.ident "string") "json:\"secret\" parquet:\"-\""
def unexported : FieldDecl := { names := ["cache"], ty := .mapT (.ident "string") (.funcT [.ident "int64"]), tag := none }

def person : TypeDecl := { name := "Person", fields := personFields [embDecl "Being"] }
def personInline : TypeDecl := { name := "Person", fields := personFields being.fields }
def personNoisy : TypeDecl := { name := "Person", fields := ((personFields [embDecl "Being"]).insertIdx 3 secret).insertIdx 1 unexported }

example : parseTag "json:\"secret\" parquet:\"-\"" = "-" := tag_dash_anywhere "json:\"secret\" " "" (not_infix_of_occurs (by decide))
example : Excluded isPrivateUpper secret := Or.inr (Or.inr ⟨_, rfl, by rw [parseTag_eq]; decide⟩)
example : Excluded isPrivateUpper unexported := Or.inl ⟨"cache", rfl, by decide⟩

/-- the field tree of `Person`, evaluated: `Being`'s fields come first, hoisted; `Hobby` is an optional
group; `Friends` a repeated group -/
example : flatFs 0 (parseStruct isPrivateUpper [person, being, hobby] "Person") =
    [(0, "ID", "id", "int32", .req, false), (0, "Name", "name", "string", .req, false), (0, "Age", "age", "int32", .opt, false),
     (0, "Happiness", "happiness", "int64", .req, false), (0, "Code", "code", "string", .opt, false),
     (0, "Hobby", "hobby", "Hobby", .opt, false),
       (1, "Name", "name", "string", .req, false), (1, "Difficulty", "difficulty", "int32", .opt, false),
     (0, "Friends", "friends", "Being", .rpt, false),
       (1, "ID", "id", "int32", .req, false), (1, "Name", "name", "string", .req, false), (1, "Age", "age", "int32", .opt, false),
     (0, "Sleepy", "Sleepy", "bool", .req, false)] := by
  rw [parseStructL_eq]; decide

/-- excluded fields: by the theorem (twice) -/
example : parseStruct isPrivateUpper [personNoisy, being, hobby] "Person" = parseStruct isPrivateUpper [person, being, hobby] "Person" := by
  have h1 := excluded_inert isPrivateUpper [] [being, hobby] person 3 secret (Or.inr (Or.inr ⟨_, rfl, by rw [parseTag_eq]; decide⟩)) "Person"
  have h2 := excluded_inert isPrivateUpper [] [being, hobby] { person with fields := person.fields.insertIdx 3 secret } 1 unexported
    (Or.inl ⟨"cache", rfl, by decide⟩) "Person"
  exact h2.trans h1

/-- … and by evaluation -/
example : flatFs 0 (parseStruct isPrivateUpper [personNoisy, being, hobby] "Person") =
    flatFs 0 (parseStruct isPrivateUpper [person, being, hobby] "Person") := by
  rw [parseStructL_eq, parseStructL_eq]; decide

/-- embedding `Being` = declaring `ID`, `Name`, `Age` inline: by evaluation -/
example : flatFs 0 (parseStruct isPrivateUpper [person, being, hobby] "Person") =
    flatFs 0 (parseStruct isPrivateUpper [personInline, being, hobby] "Person") := by
  rw [parseStructL_eq, parseStructL_eq]; decide

/-- … and by the theorem: `Person` with the three fields inline vs `Person` embedding a new type `Core`
that declares them (`rank`: `Person` has depth 1, the other types 0) -/
example : parseStruct isPrivateUpper
      [{ name := "Core", fields := being.fields }, { name := "Person", fields := [] ++ [embDecl "Core"] ++ personFields [] }, being, hobby] "Person"
    = parseStruct isPrivateUpper [{ name := "Person", fields := [] ++ being.fields ++ personFields [] }, being, hobby] "Person" :=
  embed_eq_inline isPrivateUpper [] [being, hobby] "Person" "Core" [] being.fields (personFields [])
    (fun t => if t = "Person" then 1 else 0)
    (unused_of_unusedB (by decide)) (by decide) (by decide) (by decide) (ranked_of_rankedB (by decide)) "Person" (by decide) (by decide)

/-! ### the side conditions of `embed_eq_inline` are needed -/

/-- `hunused`: a field of the (so far undeclared, hence dropped) type `Core` starts to resolve once
`Core` is introduced -/
example :
    flatFs 0 (parseStruct isPrivateUpper [{ name := "T", fields := [fd "A" (.ident "int32") "parquet:\"a\"", fd "Q" (.ident "Core") "parquet:\"q\""] }] "T")
      = [(0, "A", "a", "int32", .req, false)] ∧
    flatFs 0 (parseStruct isPrivateUpper [{ name := "Core", fields := [fd "A" (.ident "int32") "parquet:\"a\""] },
        { name := "T", fields := [embDecl "Core", fd "Q" (.ident "Core") "parquet:\"q\""] }] "T")
      = [(0, "A", "a", "int32", .req, false), (0, "Q", "q", "Core", .req, false), (1, "A", "a", "int32", .req, false)] := by
  rw [parseStructL_eq, parseStructL_eq]; constructor <;> decide

/-- `typ ≠ en`: the new type itself has a field tree only after the change -/
example :
    flatFs 0 (parseStruct isPrivateUpper [{ name := "T", fields := [fd "A" (.ident "int32") "parquet:\"a\""] }] "Core") = [] ∧
    flatFs 0 (parseStruct isPrivateUpper [{ name := "Core", fields := [fd "A" (.ident "int32") "parquet:\"a\""] },
        { name := "T", fields := [embDecl "Core"] }] "Core") = [(0, "A", "a", "int32", .req, false)] := by
  rw [parseStructL_eq, parseStructL_eq]; constructor <;> decide

end examples

end PQ.C14
