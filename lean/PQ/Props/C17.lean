import PQ.Gen.Bitpack
import PQ.Gen.BitpackFresh
import PQ.Model.Bitpack
/-!
# C17 — bit packing of 8-value groups is exactly invertible and spec-ordered

The definitions under `PQ.Gen.Bitpack` are *regenerated* from
`internal/bitpack/bitpack.go` on every run, and `PQ.Gen.BitpackFresh` from what
`cmd/bitpackgen` emits today, so these theorems are re-checked against the current
code.  Every theorem quantifies over **all** `BitVec 8` inputs: all 2^8+4^8+8^8+16^8
value groups (and the ones with out-of-range values, which are masked) and all
`w`-byte groups.  Proofs: bit extensionality + `simp`; kernel only.
-/
namespace PQ.C17
open PQ.Gen

abbrev B := BitVec 8

/-- bit `k` of a little-endian byte stream (LSB of byte 0 first) -/
def streamBit (bs : List B) (k : Nat) : Bool := (bs.getD (k / 8) 0).getLsbD (k % 8)

/-- the Parquet specification's layout: bit `k` of the stream is bit `k % w` of value `k / w` -/
def specBit (w : Nat) (vs : List B) (k : Nat) : Bool := (vs.getD (k / w) 0).getLsbD (k % w)

macro "bits8" : tactic => `(tactic| (
  apply BitVec.eq_of_getLsbD_eq
  intro i hi
  have : i = 0 ∨ i = 1 ∨ i = 2 ∨ i = 3 ∨ i = 4 ∨ i = 5 ∨ i = 6 ∨ i = 7 := by omega
  rcases this with h|h|h|h|h|h|h|h <;> subst h <;>
    simp [BitVec.getLsbD_and, BitVec.getLsbD_or, BitVec.getLsbD_shiftLeft, BitVec.getLsbD_ushiftRight, BitVec.getLsbD_ofNat]))

macro "listbits" : tactic => `(tactic| (
  simp only [List.cons.injEq, and_true]
  (repeat' apply And.intro) <;> bits8))

set_option maxRecDepth 8000

/-! ## checked-in tables (`internal/bitpack/bitpack.go`) -/
section Table

theorem unpack_pack1 (x0 x1 x2 x3 x4 x5 x6 x7 : B) :
    ∃ b0, Bitpack.pack1 x0 x1 x2 x3 x4 x5 x6 x7 = [b0] ∧
      Bitpack.unpack1 b0 = [x0 &&& 1#8, x1 &&& 1#8, x2 &&& 1#8, x3 &&& 1#8, x4 &&& 1#8, x5 &&& 1#8, x6 &&& 1#8, x7 &&& 1#8] := by
  refine ⟨_, rfl, ?_⟩
  simp only [Bitpack.unpack1]
  listbits

theorem unpack_pack2 (x0 x1 x2 x3 x4 x5 x6 x7 : B) :
    ∃ b0 b1, Bitpack.pack2 x0 x1 x2 x3 x4 x5 x6 x7 = [b0, b1] ∧
      Bitpack.unpack2 b0 b1 = [x0 &&& 3#8, x1 &&& 3#8, x2 &&& 3#8, x3 &&& 3#8, x4 &&& 3#8, x5 &&& 3#8, x6 &&& 3#8, x7 &&& 3#8] := by
  refine ⟨_, _, rfl, ?_⟩
  simp only [Bitpack.unpack2]
  listbits

theorem unpack_pack3 (x0 x1 x2 x3 x4 x5 x6 x7 : B) :
    ∃ b0 b1 b2, Bitpack.pack3 x0 x1 x2 x3 x4 x5 x6 x7 = [b0, b1, b2] ∧
      Bitpack.unpack3 b0 b1 b2 = [x0 &&& 7#8, x1 &&& 7#8, x2 &&& 7#8, x3 &&& 7#8, x4 &&& 7#8, x5 &&& 7#8, x6 &&& 7#8, x7 &&& 7#8] := by
  refine ⟨_, _, _, rfl, ?_⟩
  simp only [Bitpack.unpack3]
  listbits

theorem unpack_pack4 (x0 x1 x2 x3 x4 x5 x6 x7 : B) :
    ∃ b0 b1 b2 b3, Bitpack.pack4 x0 x1 x2 x3 x4 x5 x6 x7 = [b0, b1, b2, b3] ∧
      Bitpack.unpack4 b0 b1 b2 b3 = [x0 &&& 15#8, x1 &&& 15#8, x2 &&& 15#8, x3 &&& 15#8, x4 &&& 15#8, x5 &&& 15#8, x6 &&& 15#8, x7 &&& 15#8] := by
  refine ⟨_, _, _, _, rfl, ?_⟩
  simp only [Bitpack.unpack4]
  listbits

theorem pack_unpack1 (b0 : B) :
    ∃ v0 v1 v2 v3 v4 v5 v6 v7, Bitpack.unpack1 b0 = [v0, v1, v2, v3, v4, v5, v6, v7] ∧
      Bitpack.pack1 v0 v1 v2 v3 v4 v5 v6 v7 = [b0] := by
  refine ⟨_, _, _, _, _, _, _, _, rfl, ?_⟩
  simp only [Bitpack.pack1]
  listbits

theorem pack_unpack2 (b0 b1 : B) :
    ∃ v0 v1 v2 v3 v4 v5 v6 v7, Bitpack.unpack2 b0 b1 = [v0, v1, v2, v3, v4, v5, v6, v7] ∧
      Bitpack.pack2 v0 v1 v2 v3 v4 v5 v6 v7 = [b0, b1] := by
  refine ⟨_, _, _, _, _, _, _, _, rfl, ?_⟩
  simp only [Bitpack.pack2]
  listbits

theorem pack_unpack3 (b0 b1 b2 : B) :
    ∃ v0 v1 v2 v3 v4 v5 v6 v7, Bitpack.unpack3 b0 b1 b2 = [v0, v1, v2, v3, v4, v5, v6, v7] ∧
      Bitpack.pack3 v0 v1 v2 v3 v4 v5 v6 v7 = [b0, b1, b2] := by
  refine ⟨_, _, _, _, _, _, _, _, rfl, ?_⟩
  simp only [Bitpack.pack3]
  listbits

theorem pack_unpack4 (b0 b1 b2 b3 : B) :
    ∃ v0 v1 v2 v3 v4 v5 v6 v7, Bitpack.unpack4 b0 b1 b2 b3 = [v0, v1, v2, v3, v4, v5, v6, v7] ∧
      Bitpack.pack4 v0 v1 v2 v3 v4 v5 v6 v7 = [b0, b1, b2, b3] := by
  refine ⟨_, _, _, _, _, _, _, _, rfl, ?_⟩
  simp only [Bitpack.pack4]
  listbits


/-- the packed bytes are the LSB-first little-endian layout of the Parquet specification -/
theorem pack_spec1 (x0 x1 x2 x3 x4 x5 x6 x7 : B) :
    ∀ k, k < 8 → streamBit (Bitpack.pack1 x0 x1 x2 x3 x4 x5 x6 x7) k = specBit 1 [x0, x1, x2, x3, x4, x5, x6, x7] k := by
  intro k hk
  iterate 8 (
    rcases k with _ | k
    · simp [streamBit, specBit, Bitpack.pack1])
  omega

theorem pack_spec2 (x0 x1 x2 x3 x4 x5 x6 x7 : B) :
    ∀ k, k < 16 → streamBit (Bitpack.pack2 x0 x1 x2 x3 x4 x5 x6 x7) k = specBit 2 [x0, x1, x2, x3, x4, x5, x6, x7] k := by
  intro k hk
  iterate 16 (
    rcases k with _ | k
    · simp [streamBit, specBit, Bitpack.pack2])
  omega

theorem pack_spec3 (x0 x1 x2 x3 x4 x5 x6 x7 : B) :
    ∀ k, k < 24 → streamBit (Bitpack.pack3 x0 x1 x2 x3 x4 x5 x6 x7) k = specBit 3 [x0, x1, x2, x3, x4, x5, x6, x7] k := by
  intro k hk
  iterate 24 (
    rcases k with _ | k
    · simp [streamBit, specBit, Bitpack.pack3])
  omega

theorem pack_spec4 (x0 x1 x2 x3 x4 x5 x6 x7 : B) :
    ∀ k, k < 32 → streamBit (Bitpack.pack4 x0 x1 x2 x3 x4 x5 x6 x7) k = specBit 4 [x0, x1, x2, x3, x4, x5, x6, x7] k := by
  intro k hk
  iterate 32 (
    rcases k with _ | k
    · simp [streamBit, specBit, Bitpack.pack4])
  omega

end Table

/-! ## what `cmd/bitpackgen` generates today computes the same functions -/
section Fresh

theorem fresh_pack1 (x0 x1 x2 x3 x4 x5 x6 x7 : B) :
    BitpackFresh.pack1 x0 x1 x2 x3 x4 x5 x6 x7 = Bitpack.pack1 x0 x1 x2 x3 x4 x5 x6 x7 := by
  first | rfl | (simp only [BitpackFresh.pack1, Bitpack.pack1] <;> listbits)

theorem fresh_unpack1 (b0 : B) :
    BitpackFresh.unpack1 b0 = Bitpack.unpack1 b0 := by
  first | rfl | (simp only [BitpackFresh.unpack1, Bitpack.unpack1] <;> listbits)

theorem fresh_pack2 (x0 x1 x2 x3 x4 x5 x6 x7 : B) :
    BitpackFresh.pack2 x0 x1 x2 x3 x4 x5 x6 x7 = Bitpack.pack2 x0 x1 x2 x3 x4 x5 x6 x7 := by
  first | rfl | (simp only [BitpackFresh.pack2, Bitpack.pack2] <;> listbits)

theorem fresh_unpack2 (b0 b1 : B) :
    BitpackFresh.unpack2 b0 b1 = Bitpack.unpack2 b0 b1 := by
  first | rfl | (simp only [BitpackFresh.unpack2, Bitpack.unpack2] <;> listbits)

theorem fresh_pack3 (x0 x1 x2 x3 x4 x5 x6 x7 : B) :
    BitpackFresh.pack3 x0 x1 x2 x3 x4 x5 x6 x7 = Bitpack.pack3 x0 x1 x2 x3 x4 x5 x6 x7 := by
  first | rfl | (simp only [BitpackFresh.pack3, Bitpack.pack3] <;> listbits)

theorem fresh_unpack3 (b0 b1 b2 : B) :
    BitpackFresh.unpack3 b0 b1 b2 = Bitpack.unpack3 b0 b1 b2 := by
  first | rfl | (simp only [BitpackFresh.unpack3, Bitpack.unpack3] <;> listbits)

theorem fresh_pack4 (x0 x1 x2 x3 x4 x5 x6 x7 : B) :
    BitpackFresh.pack4 x0 x1 x2 x3 x4 x5 x6 x7 = Bitpack.pack4 x0 x1 x2 x3 x4 x5 x6 x7 := by
  first | rfl | (simp only [BitpackFresh.pack4, Bitpack.pack4] <;> listbits)

theorem fresh_unpack4 (b0 b1 b2 b3 : B) :
    BitpackFresh.unpack4 b0 b1 b2 b3 = Bitpack.unpack4 b0 b1 b2 b3 := by
  first | rfl | (simp only [BitpackFresh.unpack4, Bitpack.unpack4] <;> listbits)

theorem fresh_dispatch :
    BitpackFresh.Pack_cases = Bitpack.Pack_cases ∧ BitpackFresh.Unpack_cases = Bitpack.Unpack_cases ∧
    BitpackFresh.Pack_default = Bitpack.Pack_default ∧ BitpackFresh.Unpack_default = Bitpack.Unpack_default ∧
    BitpackFresh.maxSize = Bitpack.maxSize := by decide

end Fresh

/-- `Pack`/`Unpack` dispatch widths 1–4 to the tables above; other widths take the `default:` arm -/
theorem dispatch_ok : PQ.dispatchOK = true := by decide

/-- `bitpack.MaxSize` is enough room for every supported width -/
theorem maxSize_ok : Bitpack.maxSize = 4 := by decide

end PQ.C17
