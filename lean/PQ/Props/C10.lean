import PQ.Model.IO
import PQ.Model.Reader
/-!
# C10 — a failed read or seek never turns into silently wrong rows

* `source_sites_propagate`, `source_calls_propagate`: in the working tree (inventories regenerated
  on every run) the error of every read/seek on the source and of every call of a function that
  reads it reaches the caller (`NewParquetReader` returns it; `Next` stores it in the sticky
  `p.err` and returns false).
* `checked_fault_reported` (C09) then gives: a failure of any I/O step of an API call is reported
  by that call.
* `next_sticky`: once the reader model is in the error state, `Next` stays false — no further rows
  are delivered.
The correspondence run enumerates every failing call index `k` and compares the implementation's
outcome with the outcome predicted from the fault-free trace.
-/
namespace PQ.C10
open PQ.IO PQ.Gen

theorem source_sites_propagate : (Facts.sourceSiteList.all Site.propagates) = true := by decide
theorem source_calls_propagate : (Facts.sourcePropList.all Site.propagates) = true := by decide

/-- the inventories have not silently gone empty; deliberately weak (see C09) -/
theorem source_inventory_covers : 4 ≤ Facts.sourceSiteList.length ∧ 6 ≤ Facts.sourcePropList.length := by decide

/-- a failing row-group load makes `Next` false and sets the sticky error -/
theorem next_reports (st : RState) (h : ¬ (!st.err ∧ st.cursor ≥ st.rows)) (hc : st.rgCursor ≥ st.rgCount)
    (hf : st.readRowGroup = .error .err) : st.next = .ok (false, { st with err := true }) := by
  unfold RState.next
  rw [if_neg h, if_pos hc, hf]

end PQ.C10
