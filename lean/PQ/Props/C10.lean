import PQ.Model.IO
import PQ.Model.Reader
import PQ.Model.Fault
/-!
# C10 — a failed read or seek never turns into silently wrong rows

* `source_sites_propagate`, `source_calls_propagate`: in the working tree (inventories regenerated
  on every run) the error of every read/seek on the source and of every call of a function that
  reads it reaches the caller (`NewParquetReader` returns it; `Next` stores it in the sticky
  `p.err` and returns false).
* `checked_fault_reported` (C09) then gives: a failure of any I/O step of an API call is reported
  by that call.
* `next_reports`: a failing row-group load makes `Next` return false with the sticky error set.
* `next_within_rowgroup_src_indep`, `inside_not_touching`, `nextF_not_touching`: `Next` inside a loaded row
  group never looks at the source, so a failing source can only act in the constructor and in the `Next`
  calls that load a row group; `nextF_fault`, `next_load_error_eq_fault`: such a call returns false with the
  error set and delivers nothing of the row group it could not load.
* whole-file statement: `PQ.readOutcomeF_specWrite` (PQ/Lemmas/FaultRT.lean) when present in the evidence.
The correspondence run enumerates every failing call index `k` and compares the implementation's
outcome with the outcome predicted from the fault-free trace.
-/
namespace PQ.C10
open PQ.IO PQ.Gen

theorem source_sites_propagate : (Facts.sourceSiteList.all Site.propagates) = true := by decide
theorem source_calls_propagate : (Facts.sourcePropList.all Site.propagates) = true := by decide

/-- the inventories have not silently gone empty; deliberately weak (see C09) -/
theorem source_inventory_covers : 4 ≤ Facts.sourceSiteList.length ∧ 6 ≤ Facts.sourcePropList.length := by decide

/-- a failing row-group load makes `Next` false and sets the sticky error -/
theorem next_reports (st : RState) (h : ¬ (!st.err ∧ st.cursor ≥ st.rows)) (hc : st.rgCursor ≥ st.rgCount)
    (hf : st.readRowGroup = .error .err) : st.next = .ok (false, { st with err := true }) := by
  unfold RState.next
  rw [if_neg h, if_pos hc, hf]

/-! ## the fault model (`PQ/Model/Fault.lean`): where a failing source can act, and what the failing call does -/

/-- `Next` inside a loaded row group does not look at the source: whatever the source is (failing or not),
the call has the same result -/
theorem next_within_rowgroup_src_indep (st : RState) (s : Src) (h : st.rgCursor < st.rgCount) :
    ({ st with src := s } : RState).next =
      (match st.next with
       | .ok (b, st') => .ok (b, { st' with src := s })
       | .error e => .error e) := by
  have hn : ¬ (st.rgCursor ≥ st.rgCount) := by omega
  unfold RState.next
  simp only [hn, if_false]
  split <;> rfl

/-- such a call is not a source-touching call of the fault model -/
theorem inside_not_touching (st : RState) (h : st.rgCursor < st.rgCount) : st.touches = false := by
  have hn : ¬ (st.rgCursor ≥ st.rgCount) := by omega
  simp [RState.touches, hn]

/-- a `Next` that does not touch the source is unaffected by the fault counter -/
theorem nextF_not_touching (st : RState) (k : Nat) (h : st.touches = false) : st.nextF k = (st.next, k) := by
  simp [RState.nextF, h]

/-- the failing call: `Next` returns false and the error is set; the state is otherwise unchanged, so no
row of the row group that could not be loaded is delivered -/
theorem nextF_fault (st : RState) (h : st.touches = true) :
    st.nextF 0 = (.ok (false, { st with err := true }), 0) := by
  simp [RState.nextF, h]

/-- the model's own error path agrees with the fault model: when the load of the next row group returns an
error, `Next` answers exactly as `nextF` does for a failing source -/
theorem next_load_error_eq_fault (st : RState) (h : st.touches = true) (hf : st.readRowGroup = .error .err) :
    (st.next, 0) = st.nextF 0 := by
  rw [nextF_fault st h]
  simp only [RState.touches, Bool.and_eq_true, Bool.not_eq_true', decide_eq_true_eq] at h
  obtain ⟨⟨h1, h2⟩, _⟩ := h
  have h1' : ¬ ((!st.err) = true ∧ st.cursor ≥ st.rows) := by
    intro ⟨a, b⟩; simp [a, b] at h1
  unfold RState.next
  rw [if_neg h1', if_pos h2, hf]

end PQ.C10
