import PQ.Model.Bytes
import PQ.Model.Bitpack
import PQ.Model.Rle
