import PQ.Model.Bytes
import PQ.Model.Bitpack
import PQ.Model.Rle
import PQ.Model.Text
import PQ.Model.GenLevels
import PQ.Model.GapFile
/-!
Line-protocol driver: one operation per line on stdin, one canonical line out.
Unknown operation → `bad-op` (never a default).
-/
open PQ

def showDecErr : DecErr → String
  | .eof => "err"
  | .panic => "panic"

def showNats (xs : List Nat) : String := toHex xs

/-- runs text: `r<count>:<value>` or `p<hex of values, 8 per group>`, comma separated -/
def parseRun (s : String) : Option Run :=
  match s.toList with
  | 'r' :: rest =>
    match (String.ofList rest).splitOn ":" with
    | [c, v] => match c.toNat?, v.toNat? with
      | some c, some v => some (.rle c v)
      | _, _ => none
    | _ => none
  | 'p' :: rest =>
    let vals := unhexList rest
    let rec groups (fuel : Nat) (xs : List Nat) : List (List Nat) :=
      match fuel with
      | 0 => []
      | fuel+1 => if xs = [] then [] else xs.take 8 :: groups fuel (xs.drop 8)
    some (.packed (groups vals.length vals))
  | _ => none

def parseRuns (s : String) : Option (List Run) :=
  if s = "-" then some [] else (s.splitOn ",").mapM parseRun

def step (line : String) : String :=
  match (line.trimAscii.toString.splitOn " ") with
  | ["rle-enc", w, xs] =>
    match w.toNat? with
    | some w => toHex (encode w (unhex xs))
    | none => "bad-op"
  | ["rle-dec", w, bs] =>
    match w.toNat? with
    | some w =>
      match implDecode w (unhex bs) with
      | .ok (vs, n) => s!"ok {toHex vs} {n}"
      | .error e => showDecErr e
    | none => "bad-op"
  | ["rle-spec", w, bs] =>
    match w.toNat? with
    | some w =>
      match specDecode w (unhex bs) with
      | some (vs, n) => s!"ok {toHex vs} {n}"
      | none => "err"
    | none => "bad-op"
  | ["rle-ser", w, rs] =>
    match w.toNat?, parseRuns rs with
    | some w, some runs => let b := serRuns w runs; toHex (le32 b.length ++ b) ++ " " ++ toHex (runsVals runs)
    | _, _ => "bad-op"
  | ["payloads", cols, mx, codec, ops] =>
    match parseCols cols, mx.toNat?, codec.toNat? with
    | some cols, some mx, some codec =>
      match parseOps cols ops with
      | some ops => let ps := payloadsOf (WState.init cols mx (parseCodec codec "-")) ops
                    if ps.isEmpty then "-" else ",".intercalate (ps.map toHex)
      | none => "bad-op"
    | _, _, _ => "bad-op"
  | ["write", cols, mx, codec, ops, tab] =>
    match parseCols cols, mx.toNat?, codec.toNat? with
    | some cols, some mx, some codec =>
      match parseOps cols ops with
      | some ops => let calls := runWriter cols mx (parseCodec codec tab) ops
                    toHex (fileBytes calls) ++ " " ++ showCalls calls
      | none => "bad-op"
    | _, _, _ => "bad-op"
  | ["write-faults", cols, mx, codec, ops, tab] =>
    match parseCols cols, mx.toNat?, codec.toNat? with
    | some cols, some mx, some codec =>
      match parseOps cols ops with
      | some ops => showFaultRuns (runWriter cols mx (parseCodec codec tab) ops)
      | none => "bad-op"
    | _, _, _ => "bad-op"
  | ["read", cols, file, tab] =>
    match parseCols cols with
    | some cols => readAll cols (parseDecomp tab) (unhex file)
    | none => "bad-op"
  | ["read-fault", cols, file, tab, k] =>
    match parseCols cols, k.toNat? with
    | some cols, some k => readAllF cols (parseDecomp tab) (unhex file) k
    | _, _ => "bad-op"
  | ["parse", cols, mx, file, tab] =>
    match parseCols cols, mx.toNat? with
    | some cols, some mx => showParse cols (parseFile (parseDecomp tab) cols mx (unhex file))
    | _, _ => "bad-op"
  | ["pagestats", cols, mx, file, tab] =>
    match parseCols cols, mx.toNat? with
    | some cols, some mx =>
      match parseFile (parseDecomp tab) cols mx (unhex file) with
      | .error e => "invalid " ++ e.replace " " "_"
      | .ok f => match statsCheckFile cols f with
        | none => s!"ok pages={((f.rowGroups.flatMap fun rg => rg.chunks.map fun sc => sc.pages.length).sum)}"
        | some msg => "unsound " ++ msg.replace " " "_"
    | _, _ => "bad-op"
  | ["entries", cols, mx, file, tab] =>
    match parseCols cols, mx.toNat? with
    | some cols, some mx => showFileEntries (parseFile (parseDecomp tab) cols mx (unhex file))
    | _, _ => "bad-op"
  | ["stripes", cols, recs] =>
    match parseCols cols with
    | some cols => (showStripes cols recs).getD "bad-op"
    | none => "bad-op"
  | ["read-prefixes", cols, file, tab] =>
    match parseCols cols with
    | some cols => classifyPrefixes cols (parseDecomp tab) (unhex file)
    | none => "bad-op"
  | ["specwrite", cols, codecs, flags, seed, mu, rgs] =>
    -- file written by the independent writer; compressed pages by the Lean snappy encoder (random
    -- literal/copy segmentation) and a gzip container with stored blocks. Output: file and the
    -- decompression graph `compressed=raw` for the model reader
    match parseCols cols with
    | none => "bad-op"
    | some cols =>
      match parseSWCfg cols codecs flags, seed.toNat?, parseMutation mu, parseRowGroups cols rgs with
      | some cfg, some seed, some mu, some rgs =>
        let ccs := lcgChoices (seed + 7919) 4000
        let compress : Nat → Bytes → Bytes := fun c b => if c = 1 then snappyEncode ccs b else if c = 2 then gzipStored ccs b else b
        -- flag `B`: a choice stream that makes every level stream one big bit-packed run (≥ 256 bytes
        -- for long pages), flag `R`: prefers RLE runs of length 1
        let choices := if flags.contains 'B' then List.replicate 6000 15 else if flags.contains 'R' then List.replicate 6000 0 else lcgChoices seed 6000
        let (file, lg) := specWriteLog cfg compress mu choices rgs
        let tab := (lg.filter (·.1 ≠ 0)).map fun (c, raw) => toHex (compress c raw) ++ "=" ++ toHex raw
        toHex file ++ " " ++ (if tab.isEmpty then "-" else ",".intercalate tab.eraseDups)
      | _, _, _, _ => "bad-op"
  | ["snappy-enc", seed, raw] =>
    match seed.toNat? with
    | some seed => toHex (snappyEncode (lcgChoices seed 4000) (unhex raw))
    | none => "bad-op"
  | ["snappy-dec", bs] =>
    match snappyDecode (unhex bs) with
    | some out => "ok " ++ toHex out
    | none => "err"
  | ["meta", file] =>
    match readMetaData (unhex file) with
    | .ok f => "ok " ++ showFMD f
    | .error .err => "err"
    | .error .panic => "panic"
  | ["pageheaders", file] =>
    match readMetaData (unhex file) with
    | .ok f => showPHdrs (pageHeaders (unhex file) f)
    | .error .err => "err"
    | .error .panic => "panic"
  | ["pageheaders-at", file, o, n] =>
    match o.toInt?, n.toInt? with
    | some o, some n => showPHdrs (pageHeadersAt (unhex file) o n)
    | _, _ => "bad-op"
  | ["walk", cols, mx, file, tab] =>
    -- independent walk: footer as parsed by the validator, page starts and value counts per chunk
    match parseCols cols, mx.toNat? with
    | some cols, some mx =>
      match parseFile (parseDecomp tab) cols mx (unhex file) with
      | .error e => "invalid " ++ e.replace " " "_"
      | .ok f => "ok " ++ showFMD f.fmd ++ " pages=" ++ showWalk f ++ " headers=" ++
          (let hs := (f.rowGroups.flatMap fun g => g.chunks.flatMap fun c => c.pages).map fun p =>
             s!"0:{p.uncompressedLen}:{p.compressedLen}:{p.numValues};0;3;3;{showStatsFields p.stats}"
           if hs.isEmpty then "-" else ",".intercalate hs)
    | _, _ => "bad-op"
  | ["dictfile", kind, rg, col, file] =>
    match kind.toNat?, rg.toNat?, col.toNat? with
    | some kind, some rg, some col =>
      match dictFile kind rg col (unhex file) with
      | some f => toHex f
      | none => "none"
    | _, _, _ => "bad-op"
  | ["gapfile", pad, file] =>
    -- the same file with `pad` filler bytes before every row group and the footer's offsets shifted
    match pad.toNat?, gapFile (pad.toNat?.getD 0) (unhex file) with
    | some _, some f => "ok " ++ toHex f
    | _, _ => "err"
  | ["mergefiles", fa, fb] =>
    -- the row groups of the second file appended to those of the first under one footer
    match mergeFiles (unhex fa) (unhex fb) with
    | some f => "ok " ++ toHex f
    | none => "err"
  | ["gen-levels", rts] =>
    -- the generator's level arithmetic on one chain (r = required, o = optional, m = repeated)
    let l := (if rts = "-" then [] else rts.toList).mapM fun c =>
      if c = 'r' then some Rep.req else if c = 'o' then some Rep.opt else if c = 'm' then some Rep.rpt else none
    match l with
    | some l => PQ.GenLevels.showLevels l
    | none => "bad-op"
  | ["parse-struct", typ, decls] =>
    let priv := if PQ.Gen.Facts.exportedTest = "IsExported" then Parse.isPrivateUpper else Parse.isPrivateAZ
    "ok {" ++ ",".intercalate ((Parse.parseStruct priv (parseDecls decls) typ).map Parse.showField) ++ "}"
  | ["struct-of", name, elems] =>
    match Structs.structOf name (parseSEs elems) with
    | none => "panic"
    | some ds => toHex (strBytes (Structs.render ds))
  | ["struct-of-tree", name, elems] =>
    -- the field tree parse.Fields gives for the regenerated struct
    match Structs.structOf name (parseSEs elems) with
    | none => "panic"
    | some ds =>
      let priv := if PQ.Gen.Facts.exportedTest = "IsExported" then Parse.isPrivateUpper else Parse.isPrivateAZ
      "ok {" ++ ",".intercalate ((Parse.parseStruct priv ds (Structs.title name)).map Parse.showField) ++ "}"
  | ["pack", w, g] =>
    match w.toNat? with
    | some w => toHex (pack w (unhex g))
    | none => "bad-op"
  | ["unpack", w, bs] =>
    match w.toNat? with
    | some w => toHex (unpack w (unhex bs))
    | none => "bad-op"
  | ["packspec", w, g] =>
    match w.toNat? with
    | some w => toHex (packSpec w (unhex g))
    | none => "bad-op"
  | ["unpackspec", w, bs] =>
    match w.toNat? with
    | some w => toHex (unpackSpec w (unhex bs))
    | none => "bad-op"
  | _ => "bad-op"

partial def loop (h : IO.FS.Stream) (out : IO.FS.Stream) : IO Unit := do
  let line ← h.getLine
  if line.isEmpty then return ()
  out.putStrLn (step line)
  loop h out

def main : IO Unit := do
  let out ← IO.getStdout
  loop (← IO.getStdin) out
  out.flush
